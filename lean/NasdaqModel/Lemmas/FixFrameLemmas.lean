import NasdaqModel.Lemmas.FixLemmas
import NasdaqModel.Model.FixFrame
/-
Lemmas about the FIX framing model (`Model/FixFrame.lean`): checksum text, frame shape, the reader's find-logic.
-/
namespace NasdaqModel.FixFrame
open NasdaqModel Py Fix

/-! ### three-digit checksum text -/

theorem natDigits_lt10 {x : Nat} (h : x < 10) : natDigits x = [48 + x] := by
  rw [natDigits_eq]; simp [h]

theorem natDigits_length_le3 {x : Nat} (h : x < 1000) : (natDigits x).length ≤ 3 := by
  rw [natDigits_eq]
  split
  · simp
  · rw [natDigits_eq]
    split
    · simp
    · rw [natDigits_lt10 (by omega)]
      simp

theorem digitsVal_cons_zero (l : List Nat) : digitsVal (48 :: l) = digitsVal l := by
  simp [digitsVal]

theorem digitsVal_replicate_zero (k : Nat) (l : List Nat) : digitsVal (List.replicate k 48 ++ l) = digitsVal l := by
  induction k with
  | zero => simp
  | succ k ih => rw [List.replicate_succ, List.cons_append, digitsVal_cons_zero, ih]

/-- `str(x).rjust(3, '0')` for `x < 1000`: exactly three decimal digits whose value is `x` -/
theorem pad3 {x : Nat} (h : x < 1000) :
    (rjust0 (natDigits x) 3).length = 3 ∧ (∀ c ∈ rjust0 (natDigits x) 3, isDigit c = true) ∧
    digitsVal (rjust0 (natDigits x) 3) = x := by
  have hl := natDigits_length_le3 h
  refine ⟨?_, ?_, ?_⟩
  · simp [rjust0]; omega
  · intro c hc
    simp only [rjust0, List.mem_append, List.mem_replicate] at hc
    rcases hc with ⟨_, rfl⟩ | hc
    · decide
    · exact natDigits_all_digit x c hc
  · rw [rjust0, digitsVal_replicate_zero, digitsVal_natDigits]

theorem pad3_no_soh {x : Nat} (h : x < 1000) : 1 ∉ rjust0 (natDigits x) 3 := by
  intro hm
  have := (pad3 h).2.1 1 hm
  simp [isDigit] at this

/-! ### the shape of a prepared frame -/

/-- `35=<type>SOH` + the encoded message: the part BodyLength counts -/
def counted (ty : Str) (body : Bytes) : Bytes := [51, 53, 61] ++ ty ++ 1 :: body

/-- everything before the CheckSum field -/
def summed (ver ty : Str) (body : Bytes) : Bytes :=
  [56, 61] ++ ver ++ 1 :: ([57, 61] ++ natDigits (counted ty body).length ++ 1 :: counted ty body)

theorem prepare_eq {ver ty : Str} {body f : Bytes} (h : prepare ver ty body = .ok f) :
    f = summed ver ty body ++ ([49, 48, 61] ++ rjust0 (natDigits (byteSum (summed ver ty body) % 256)) 3 ++ [1]) ∧
    ty.all (· < 128) = true ∧ ver.all (· < 128) = true := by
  unfold prepare at h
  obtain ⟨tyb, htyb, h⟩ := bind_ok h
  obtain ⟨verb, hverb, h⟩ := bind_ok h
  unfold encodeAscii at htyb hverb
  split at htyb
  · rename_i hty
    split at hverb
    · rename_i hver
      injection htyb with htyb; injection hverb with hverb
      subst htyb; subst hverb
      simp only [pure_eq_ok] at h
      injection h with h
      refine ⟨?_, hty, hver⟩
      have e35 : natDigits 35 = [51, 53] := by decide
      have e9 : natDigits 9 = [57] := by decide
      have e8 : natDigits 8 = [56] := by decide
      have e10 : natDigits 10 = [49, 48] := by decide
      have c : fieldBytes 35 ty ++ 1 :: body = counted ty body := by simp [counted, fieldBytes, e35]
      rw [c] at h
      have s : fieldBytes 8 ver ++ 1 :: (fieldBytes 9 (intStr ((counted ty body).length : Int)) ++ 1 :: counted ty body)
          = summed ver ty body := by
        rw [intStr_natCast]; simp [summed, fieldBytes, e8, e9]
      rw [s, intStr_natCast] at h
      rw [← h]
      simp [fieldBytes, e10]
    · simp at hverb
  · simp at htyb

/-! ### the reader's find-logic on a frame -/

/-- `8=<ver>SOH9` — everything before the `=` of the BodyLength field -/
def lead (ver : Str) : Bytes := [56, 61] ++ ver ++ [1, 57]

theorem lead_length (ver : Str) : (lead ver).length = ver.length + 4 := by simp [lead]

theorem findSub_some_of_infix (x y z : Nat) (a b : Bytes) : ∃ k, findSub [x, y, z] (a ++ [x, y, z] ++ b) = some k := by
  induction a with
  | nil => exact ⟨0, by simp [findSub, List.isPrefixOf]⟩
  | cons c a ih =>
    obtain ⟨k, hk⟩ := ih
    simp only [List.cons_append, findSub]
    split
    · exact ⟨0, rfl⟩
    · simp only [List.append_assoc, List.cons_append, List.nil_append] at hk
      simp [hk]

/-- the positions `deserialize` computes on `8=<ver>SOH9=<n>SOH…` and what it returns -/
theorem fixCut_landmarks (ver : Str) (h61 : 61 ∉ ver) (n : Nat) (X : Bytes) :
    fixCut (lead ver ++ 61 :: natDigits n ++ 1 :: X) =
      match findSub [51, 53, 61] (lead ver ++ 61 :: natDigits n ++ 1 :: X) with
      | none => .ok none
      | some _ =>
        if (lead ver ++ 61 :: natDigits n ++ 1 :: X).length < ver.length + (natDigits n).length + n + 13 then .ok none
        else .ok (some ((lead ver ++ 61 :: natDigits n ++ 1 :: X).take (ver.length + (natDigits n).length + n + 13),
                        (lead ver ++ 61 :: natDigits n ++ 1 :: X).drop (ver.length + (natDigits n).length + n + 13))) := by
  have hlen2 : 2 ≤ (lead ver ++ 61 :: natDigits n ++ 1 :: X).length := by simp [lead]
  have e61 : findFrom [61] (lead ver ++ 61 :: natDigits n ++ 1 :: X) 2 = some (ver.length + 4) := by
    rw [findFrom_eq _ _ _ hlen2]
    have : (lead ver ++ 61 :: natDigits n ++ 1 :: X).drop 2 = (ver ++ [1, 57]) ++ 61 :: (natDigits n ++ 1 :: X) := by
      simp [lead]
    rw [this, findSub_one_append 61 _ _ (by
      intro hm
      simp only [List.mem_append, List.mem_cons, List.mem_nil_iff, or_false] at hm
      rcases hm with hm | hm | hm
      · exact h61 hm
      · exact absurd hm (by decide)
      · exact absurd hm (by decide))]
    simp
  have hlen4 : ver.length + 4 ≤ (lead ver ++ 61 :: natDigits n ++ 1 :: X).length := by simp [lead]
  have e1 : findFrom [1] (lead ver ++ 61 :: natDigits n ++ 1 :: X) (ver.length + 4)
      = some (ver.length + 4 + 1 + (natDigits n).length) := by
    rw [findFrom_eq _ _ _ hlen4]
    have : (lead ver ++ 61 :: natDigits n ++ 1 :: X).drop (ver.length + 4) = (61 :: natDigits n) ++ 1 :: X := by
      have e : lead ver ++ 61 :: natDigits n ++ 1 :: X = lead ver ++ ((61 :: natDigits n) ++ 1 :: X) := by simp
      rw [e, List.drop_left' (lead_length ver)]
    rw [this, findSub_one_append 1 _ _ (by
      intro hm
      rcases List.mem_cons.mp hm with hm | hm
      · exact absurd hm (by decide)
      · exact natDigits_no n 1 (by decide) hm)]
    simp; omega
  have eslice : ((lead ver ++ 61 :: natDigits n ++ 1 :: X).take (ver.length + 4 + 1 + (natDigits n).length)).drop
      (ver.length + 4 + 1) = natDigits n := by
    have e : lead ver ++ 61 :: natDigits n ++ 1 :: X = (lead ver ++ 61 :: natDigits n) ++ 1 :: X := by simp
    rw [e, List.take_left' (by simp [lead]; omega)]
    have e2 : lead ver ++ 61 :: natDigits n = (lead ver ++ [61]) ++ natDigits n := by simp
    rw [e2, List.drop_left' (by simp [lead])]
  have eparse : parseIntBytes (natDigits n) = .ok (n : Int) := by
    rw [← intStr_natCast]; exact parseIntBytes_intStr _
  unfold fixCut
  cases h35 : findSub [51, 53, 61] (lead ver ++ 61 :: natDigits n ++ 1 :: X) with
  | none => rfl
  | some k =>
    simp only [e61, e1, eslice, eparse, ok_bind]
    rw [if_neg (by omega : ¬ ((n : Int) < 0))]
    have hL : (((ver.length + 4 + 1 + (natDigits n).length + 1 : Nat) : Int) + (n : Int) + 7)
        = ((ver.length + (natDigits n).length + n + 13 : Nat) : Int) := by omega
    rw [hL]
    by_cases hlt : (lead ver ++ 61 :: natDigits n ++ 1 :: X).length < ver.length + (natDigits n).length + n + 13
    · have : ((lead ver ++ 61 :: natDigits n ++ 1 :: X).length : Int) < ((ver.length + (natDigits n).length + n + 13 : Nat) : Int) := by
        omega
      simp only [this, if_true, hlt]
    · have : ¬ ((lead ver ++ 61 :: natDigits n ++ 1 :: X).length : Int) < ((ver.length + (natDigits n).length + n + 13 : Nat) : Int) := by
        omega
      simp only [this, if_false, hlt]
      have hp : pyIdx (lead ver ++ 61 :: natDigits n ++ 1 :: X).length ((ver.length + (natDigits n).length + n + 13 : Nat) : Int)
          = ver.length + (natDigits n).length + n + 13 := by
        unfold pyIdx
        have : ¬ (((ver.length + (natDigits n).length + n + 13 : Nat) : Int) < 0) := by omega
        simp only [this, if_false, Int.toNat_natCast]
        omega
      rw [hp]

/-! ### a complete frame, and its proper prefixes -/

/-- the CheckSum field with its SOH: always seven bytes -/
def trailer (ver ty : Str) (body : Bytes) : Bytes :=
  [49, 48, 61] ++ rjust0 (natDigits (byteSum (summed ver ty body) % 256)) 3 ++ [1]

theorem trailer_length (ver ty : Str) (body : Bytes) : (trailer ver ty body).length = 7 := by
  have := (pad3 (x := byteSum (summed ver ty body) % 256) (by omega)).1
  simp [trailer, this]

/-- the frame as the reader sees it -/
theorem frame_decomp {ver ty : Str} {body f : Bytes} (h : prepare ver ty body = .ok f) :
    f = lead ver ++ 61 :: natDigits (counted ty body).length ++ 1 :: (counted ty body ++ trailer ver ty body) := by
  rw [(prepare_eq h).1]
  simp [summed, lead, trailer]

theorem frame_length {ver ty : Str} {body f : Bytes} (h : prepare ver ty body = .ok f) :
    f.length = ver.length + (natDigits (counted ty body).length).length + (counted ty body).length + 13 := by
  rw [frame_decomp h]
  simp only [List.length_append, List.length_cons, lead_length, trailer_length]
  omega

theorem fixCut_none_of_no_eq (p : Bytes) (h : findFrom [61] p 2 = none) : fixCut p = .ok none := by
  unfold fixCut
  cases findSub [51, 53, 61] p with
  | none => rfl
  | some k => simp only [h]

theorem fixCut_none_of_no_soh (p : Bytes) (start : Nat) (h61 : findFrom [61] p 2 = some start)
    (h1 : findFrom [1] p start = none) : fixCut p = .ok none := by
  unfold fixCut
  cases findSub [51, 53, 61] p with
  | none => rfl
  | some k => simp only [h61, h1]

theorem findFrom_none_of_not_mem (c : Nat) (p : Bytes) (start : Nat) (h : c ∉ p.drop start) : findFrom [c] p start = none := by
  unfold findFrom
  split
  · rfl
  · rw [findSub_one_none c _ h]; rfl

/-- **read back**: on a buffer that begins with a complete frame the reader cuts exactly that frame -/
theorem fixCut_frame {ver ty : Str} {body f : Bytes} (h : prepare ver ty body = .ok f) (h61 : 61 ∉ ver) (rest : Bytes) :
    fixCut (f ++ rest) = .ok (some (f, rest)) := by
  have hlen := frame_length h
  have hd := frame_decomp h
  have hbuf : f ++ rest = lead ver ++ 61 :: natDigits (counted ty body).length ++ 1 ::
      (counted ty body ++ trailer ver ty body ++ rest) := by rw [hd]; simp
  obtain ⟨k, hk⟩ : ∃ k, findSub [51, 53, 61] (f ++ rest) = some k := by
    have e : f ++ rest = (lead ver ++ 61 :: natDigits (counted ty body).length ++ [1]) ++ [51, 53, 61] ++
        (ty ++ 1 :: body ++ trailer ver ty body ++ rest) := by rw [hbuf]; simp [counted]
    rw [e]
    exact findSub_some_of_infix 51 53 61 _ _
  have := fixCut_landmarks ver h61 (counted ty body).length (counted ty body ++ trailer ver ty body ++ rest)
  rw [← hbuf, hk] at this
  rw [this, ← hlen]
  simp

/-- **nothing early**: on a proper prefix of a frame the reader frames nothing (and raises nothing) -/
theorem fixCut_prefix {ver ty : Str} {body f : Bytes} (h : prepare ver ty body = .ok f) (h61 : 61 ∉ ver)
    (p q : Bytes) (hpq : f = p ++ q) (hq : q ≠ []) : fixCut p = .ok none := by
  have hlen := frame_length h
  have hd := frame_decomp h
  rw [hd] at hpq
  have hlead : ∀ c ∈ (lead ver).drop 2, c ≠ 61 := by
    intro c hc hc61
    subst hc61
    simp only [lead, List.cons_append, List.nil_append, List.drop_succ_cons, List.drop_zero,
      List.mem_append, List.mem_cons, List.mem_nil_iff, or_false] at hc
    rcases hc with hc | hc | hc
    · exact h61 hc
    · exact absurd hc (by decide)
    · exact absurd hc (by decide)
  simp only [List.append_assoc, List.cons_append] at hpq
  rcases List.append_eq_append_iff.mp hpq with ⟨p', hp, hR⟩ | ⟨a', ha, hq'⟩
  · -- `p = lead ++ p'`
    cases p' with
    | nil =>
      simp only [List.append_nil] at hp
      apply fixCut_none_of_no_eq
      apply findFrom_none_of_not_mem
      intro hm
      rw [hp] at hm
      exact hlead 61 hm rfl
    | cons c p'' =>
      simp only [List.cons_append] at hR
      injection hR with hc hR
      subst hc
      have hstart : findFrom [61] p 2 = some (ver.length + 4) := by
        rw [hp, findFrom_eq _ _ _ (by simp [lead])]
        have : (lead ver ++ 61 :: p'').drop 2 = (ver ++ [1, 57]) ++ 61 :: p'' := by simp [lead]
        rw [this, findSub_one_append 61 _ _ (by
          intro hm
          simp only [List.mem_append, List.mem_cons, List.mem_nil_iff, or_false] at hm
          rcases hm with hm | hm | hm
          · exact h61 hm
          · exact absurd hm (by decide)
          · exact absurd hm (by decide))]
        simp
      rcases List.append_eq_append_iff.mp hR with ⟨t', hp'', hT⟩ | ⟨d', hD, hq''⟩
      · -- `p` contains all the BodyLength digits
        cases t' with
        | nil =>
          simp only [List.append_nil] at hp''
          apply fixCut_none_of_no_soh p _ hstart
          apply findFrom_none_of_not_mem
          rw [hp, List.drop_left' (lead_length ver), hp'']
          intro hm
          rcases List.mem_cons.mp hm with hm | hm
          · exact absurd hm (by decide)
          · exact natDigits_no _ 1 (by decide) hm
        | cons c t'' =>
          simp only [List.cons_append] at hT
          injection hT with hc hT
          subst hc
          have hp2 : p = lead ver ++ 61 :: natDigits (counted ty body).length ++ 1 :: t'' := by
            rw [hp, hp'']; simp
          have hlt : p.length < ver.length + (natDigits (counted ty body).length).length + (counted ty body).length + 13 := by
            have hq1 : 0 < q.length := List.length_pos_iff.mpr hq
            have := congrArg List.length hT
            simp only [List.length_append, trailer_length] at this
            rw [hp2]
            simp only [List.length_append, List.length_cons, lead_length]
            omega
          have := fixCut_landmarks ver h61 (counted ty body).length t''
          rw [← hp2] at this
          rw [this]
          cases findSub [51, 53, 61] p with
          | none => rfl
          | some k => simp only [hlt, if_true]
      · -- `p` ends inside the BodyLength digits
        apply fixCut_none_of_no_soh p _ hstart
        apply findFrom_none_of_not_mem
        rw [hp, List.drop_left' (lead_length ver)]
        intro hm
        rcases List.mem_cons.mp hm with hm | hm
        · exact absurd hm (by decide)
        · have : (1 : Nat) ∈ natDigits (counted ty body).length := by rw [hD]; exact List.mem_append.mpr (Or.inl hm)
          exact natDigits_no _ 1 (by decide) this
  · -- `p` ends inside `8=<ver>SOH9`
    apply fixCut_none_of_no_eq
    apply findFrom_none_of_not_mem
    intro hm
    have : (61 : Nat) ∈ (lead ver).drop 2 := by
      rw [ha, List.drop_append]
      exact List.mem_append.mpr (Or.inl hm)
    exact hlead 61 this rfl

/-! ### feeding a frame in pieces -/

theorem fixCut_nil : fixCut [] = .ok none := by
  simp [fixCut, findSub]

theorem feed_nothing : ∀ (segs : List Bytes) (out : List Bytes), segs.flatten = [] → feed segs [] out = .ok (out, [])
  | [], out, _ => rfl
  | seg :: segs, out, h => by
    simp only [List.flatten_cons, List.append_eq_nil_iff] at h
    obtain ⟨h1, h2⟩ := h
    subst h1
    simp only [feed, List.append_nil, List.length_nil, drain, fixCut_nil, ok_bind, pure_eq_ok]
    exact feed_nothing segs out h2

theorem feed_frame {ver ty : Str} {body f : Bytes} (h : prepare ver ty body = .ok f) (h61 : 61 ∉ ver) :
    ∀ (segs : List Bytes) (buf : Bytes) (out : List Bytes), buf ++ segs.flatten = f → segs.flatten ≠ [] →
      feed segs buf out = .ok (out ++ [f], []) := by
  have hfl : 13 ≤ f.length := by rw [frame_length h]; omega
  intro segs
  induction segs with
  | nil => intro buf out _ hne; exact absurd rfl hne
  | cons seg segs ih =>
    intro buf out hb hne
    simp only [List.flatten_cons] at hb
    simp only [feed]
    by_cases hrest : segs.flatten = []
    · -- the frame is complete with this segment
      have hbf : buf ++ seg = f := by rw [hrest] at hb; simpa using hb
      obtain ⟨k, hk⟩ : ∃ k, f.length = k + 1 := ⟨f.length - 1, by omega⟩
      have hcut : fixCut f = .ok (some (f, [])) := by
        have := fixCut_frame h h61 []
        simpa using this
      rw [hbf, hk, drain, hcut]
      simp only [ok_bind]
      obtain ⟨k', hk'⟩ : ∃ k', k = k' + 1 := ⟨k - 1, by omega⟩
      rw [hk', drain, fixCut_nil]
      simp only [ok_bind, pure_eq_ok]
      exact feed_nothing segs (out ++ [f]) hrest
    · have hcut : fixCut (buf ++ seg) = .ok none :=
        fixCut_prefix h h61 (buf ++ seg) segs.flatten (by rw [← hb]; simp) hrest
      rw [drain, hcut]
      simp only [ok_bind, pure_eq_ok]
      exact ih (buf ++ seg) out (by rw [← hb]; simp) hrest

/-! ### the first `35=` of a frame -/

/-- no `5` immediately followed by `=` -/
def noAdj : Bytes → Bool
  | a :: b :: l => !(a == 53 && b == 61) && noAdj (b :: l)
  | _ => true

theorem noAdj_tail {x : Nat} {l : Bytes} (h : noAdj (x :: l) = true) : noAdj l = true := by
  cases l with
  | nil => rfl
  | cons y l => simp only [noAdj, Bool.and_eq_true] at h; exact h.2

theorem findSub_35_after (P R : Bytes) (h : noAdj P = true) :
    findSub [51, 53, 61] (P ++ [51, 53, 61] ++ R) = some P.length := by
  induction P with
  | nil => simp [findSub, List.isPrefixOf]
  | cons x P ih =>
    have ih' := ih (noAdj_tail h)
    have hnot : List.isPrefixOf [51, 53, 61] (x :: P ++ [51, 53, 61] ++ R) = false := by
      cases P with
      | nil => simp [List.isPrefixOf]
      | cons y P =>
        cases P with
        | nil => simp [List.isPrefixOf]
        | cons z P =>
          simp only [noAdj, Bool.and_eq_true, Bool.not_eq_true', Bool.and_eq_false_iff, beq_eq_false_iff_ne] at h
          simp only [List.cons_append, List.isPrefixOf, Bool.and_eq_false_iff, beq_eq_false_iff_ne]
          rcases h.2.1 with h1 | h1
          · exact Or.inr (Or.inl (fun e => h1 e.symm))
          · exact Or.inr (Or.inr (Or.inl (fun e => h1 e.symm)))
    simp only [List.cons_append, List.append_assoc] at hnot ih' ⊢
    simp only [findSub, hnot, Bool.false_eq_true, if_false, ih', Option.map_some, List.length_cons]

theorem noAdj_of_no61 : ∀ (l : Bytes), 61 ∉ l → noAdj l = true
  | [], _ => rfl
  | [_], _ => rfl
  | a :: b :: l, h => by
    have hb : b ≠ 61 := by intro e; exact h (by simp [e])
    simp only [noAdj, Bool.and_eq_true, Bool.not_eq_true', Bool.and_eq_false_iff, beq_eq_false_iff_ne]
    exact ⟨Or.inr hb, noAdj_of_no61 (b :: l) (fun hm => h (by simp at hm ⊢; exact Or.inr hm))⟩

theorem noAdj_append (v : Bytes) (c : Nat) (t : Bytes) (hv : 61 ∉ v) (hc : c ≠ 61) (ht : noAdj (c :: t) = true) :
    noAdj (v ++ c :: t) = true := by
  induction v with
  | nil => exact ht
  | cons a v ih =>
    have hv' : 61 ∉ v := fun hm => hv (by simp [hm])
    have ih' := ih hv'
    cases v with
    | nil =>
      simp only [List.cons_append, List.nil_append, noAdj, Bool.and_eq_true, Bool.not_eq_true', Bool.and_eq_false_iff,
        beq_eq_false_iff_ne]
      exact ⟨Or.inr hc, by simpa using ih'⟩
    | cons b v =>
      have hb : b ≠ 61 := by intro e; exact hv (by simp [e])
      simp only [List.cons_append, noAdj, Bool.and_eq_true, Bool.not_eq_true', Bool.and_eq_false_iff, beq_eq_false_iff_ne]
      exact ⟨Or.inr hb, by simpa using ih'⟩

/-- `8=<ver>SOH9=<n>SOH` contains no `5=` -/
theorem noAdj_head (ver : Str) (h61 : 61 ∉ ver) (n : Nat) :
    noAdj ([56, 61] ++ ver ++ 1 :: ([57, 61] ++ natDigits n ++ [1])) = true := by
  have hd : 61 ∉ natDigits n ++ [1] := by
    intro hm
    rcases List.mem_append.mp hm with hm | hm
    · exact natDigits_no n 61 (by decide) hm
    · simp at hm
  have h3 : noAdj (1 :: 57 :: 61 :: (natDigits n ++ [1])) = true := by
    have := noAdj_of_no61 _ hd
    cases hx : natDigits n ++ [1] with
    | nil => simp [noAdj]
    | cons y l => rw [hx] at this; simp [noAdj, this]
  have h2 := noAdj_append ver 1 (57 :: 61 :: (natDigits n ++ [1])) h61 (by decide) h3
  cases hv : ver ++ 1 :: 57 :: 61 :: (natDigits n ++ [1]) with
  | nil => simp at hv
  | cons y l =>
    rw [hv] at h2
    have : [56, 61] ++ ver ++ 1 :: ([57, 61] ++ natDigits n ++ [1]) = 56 :: 61 :: (ver ++ 1 :: 57 :: 61 :: (natDigits n ++ [1])) := by
      simp
    rw [this, hv]
    simp [noAdj, h2]

/-- bytes `Q ++ [SOH] ++ …` with no `5=` inside `Q ++ [SOH]` do not begin with `35=` -/
theorem isPrefix35_false (Q R : Bytes) (h : noAdj (Q ++ [1]) = true) :
    List.isPrefixOf [51, 53, 61] (Q ++ [1] ++ R) = false := by
  match Q, h with
  | [], _ => simp [List.isPrefixOf]
  | [a], _ => simp [List.isPrefixOf]
  | [a, b], _ => simp [List.isPrefixOf]
  | a :: b :: c :: Q', h =>
    simp only [List.cons_append, noAdj, Bool.and_eq_true, Bool.not_eq_true', Bool.and_eq_false_iff, beq_eq_false_iff_ne] at h
    simp only [List.cons_append, List.isPrefixOf, Bool.and_eq_false_iff, beq_eq_false_iff_ne]
    rcases h.2.1 with h1 | h1
    · exact Or.inr (Or.inl (fun e => h1 e.symm))
    · exact Or.inr (Or.inr (Or.inl (fun e => h1 e.symm)))

/-- the first `SOH 35=` of `Q ++ SOH 35= ++ R` is the one after `Q` when `Q ++ [SOH]` contains no `5=` -/
theorem findSub_s35_after (Q R : Bytes) (h : noAdj (Q ++ [1]) = true) :
    findSub [1, 51, 53, 61] (Q ++ [1, 51, 53, 61] ++ R) = some Q.length := by
  induction Q with
  | nil => simp [findSub, List.isPrefixOf]
  | cons x Q ih =>
    have ih' := ih (noAdj_tail h)
    have hnot : List.isPrefixOf [1, 51, 53, 61] (x :: Q ++ [1, 51, 53, 61] ++ R) = false := by
      match Q, h with
      | [], _ => simp [List.isPrefixOf]
      | [a], _ => simp [List.isPrefixOf]
      | [a, b], _ => simp [List.isPrefixOf]
      | a :: b :: c :: Q', h =>
        simp only [List.cons_append, noAdj, Bool.and_eq_true, Bool.not_eq_true', Bool.and_eq_false_iff, beq_eq_false_iff_ne] at h
        simp only [List.cons_append, List.isPrefixOf, Bool.and_eq_false_iff, beq_eq_false_iff_ne]
        rcases h.2.2.1 with h1 | h1
        · exact Or.inr (Or.inr (Or.inl (fun e => h1 e.symm)))
        · exact Or.inr (Or.inr (Or.inr (Or.inl (fun e => h1 e.symm))))
    simp only [List.cons_append, List.append_assoc] at hnot ih' ⊢
    simp only [findSub, hnot, Bool.false_eq_true, if_false, ih', Option.map_some, List.length_cons]

/-- `get_msg_type` on bytes in which the first field that starts with `35=` follows `Q ++ [SOH]` -/
theorem getMsgType_at (Q ty rest : Bytes) (hP : noAdj (Q ++ [1]) = true) (h1 : 1 ∉ ty) (ha : ty.all (· < 128) = true) :
    getMsgType (Q ++ [1] ++ [51, 53, 61] ++ (ty ++ 1 :: rest)) = .ok ty := by
  have ep : List.isPrefixOf [51, 53, 61] (Q ++ [1] ++ [51, 53, 61] ++ (ty ++ 1 :: rest)) = false := by
    have := isPrefix35_false Q ([51, 53, 61] ++ (ty ++ 1 :: rest)) hP
    simpa using this
  have e0 : findSub [1, 51, 53, 61] (Q ++ [1] ++ [51, 53, 61] ++ (ty ++ 1 :: rest)) = some Q.length := by
    have := findSub_s35_after Q (ty ++ 1 :: rest) hP
    simpa using this
  have e1 : findFrom [1] (Q ++ [1] ++ [51, 53, 61] ++ (ty ++ 1 :: rest)) (Q.length + 3) = some (Q.length + 4 + ty.length) := by
    rw [findFrom_eq _ _ _ (by simp)]
    have : (Q ++ [1] ++ [51, 53, 61] ++ (ty ++ 1 :: rest)).drop (Q.length + 3) = (61 :: ty) ++ 1 :: rest := by
      have e : Q ++ [1] ++ [51, 53, 61] ++ (ty ++ 1 :: rest) = (Q ++ [1, 51, 53]) ++ ((61 :: ty) ++ 1 :: rest) := by simp
      rw [e, List.drop_left' (by simp)]
    rw [this, findSub_one_append 1 (61 :: ty) rest (by
      intro hm; rcases List.mem_cons.mp hm with hm | hm
      · exact absurd hm (by decide)
      · exact h1 hm)]
    simp; omega
  unfold getMsgType
  simp only [ep, Bool.false_eq_true, if_false, e0, e1]
  have : (List.take (Q.length + 4 + ty.length) (Q ++ [1] ++ [51, 53, 61] ++ (ty ++ 1 :: rest))).drop (Q.length + 3 + 1) = ty := by
    have e : Q ++ [1] ++ [51, 53, 61] ++ (ty ++ 1 :: rest) = (Q ++ [1] ++ [51, 53, 61] ++ ty) ++ 1 :: rest := by simp
    rw [e, List.take_left' (by simp; omega)]
    have e2 : Q ++ [1] ++ [51, 53, 61] ++ ty = (Q ++ [1] ++ [51, 53, 61]) ++ ty := by simp
    rw [e2, List.drop_left' (by simp)]
  rw [this]
  unfold decodeAscii
  rw [if_pos ha]

/-! ### the frame is the encoding of the sent message with the four framing fields added -/

theorem mapE_append {α β : Type} {f : α → Except Err β} : ∀ {l₁ l₂ : List α} {r₁ r₂ : List β},
    mapE f l₁ = .ok r₁ → mapE f l₂ = .ok r₂ → mapE f (l₁ ++ l₂) = .ok (r₁ ++ r₂)
  | [], _, r₁, _, h1, h2 => by rw [mapE_nil_ok h1]; simpa using h2
  | a :: as, l₂, r₁, r₂, h1, h2 => by
    obtain ⟨b, bs, hb, hbs, rfl⟩ := mapE_cons_ok h1
    have := mapE_append hbs h2
    simp only [List.cons_append, mapE, hb, this, ok_bind, pure_eq_ok]

/-- the message a frame decodes to: the one sent, with BeginString, BodyLength, MsgType in front of the header and
    CheckSum at the end of the trailer -/
def framed (ver : Str) (n : Nat) (ty : Str) (ck : Str) (m : Msg) : Msg :=
  { hdr := (8, .str ver) :: (9, .int (n : Int)) :: (35, .str ty) :: m.hdr, body := m.body,
    trl := m.trl ++ [(10, .str ck)] }

/-- the dictionary knows the four framing fields with their standard types -/
def framingEntries (d : MsgDef) : Prop :=
  (∃ r, lookupE d.hdr 8 = some (.field 8 .string r)) ∧ (∃ r, lookupE d.hdr 9 = some (.field 9 .int r)) ∧
  (∃ r, lookupE d.hdr 35 = some (.field 35 .string r)) ∧ (∃ r, lookupE d.trl 10 = some (.field 10 .string r))

theorem encSegFields_framed_hdr {d : MsgDef} (he : framingEntries d) {ver ty : Str} (n : Nat) {hs : Seg} {fh : List Bytes}
    (hv : ver.all (· < 128) = true) (ht : ty.all (· < 128) = true) (h : encSegFields d.hdr hs = .ok fh) :
    encSegFields d.hdr ((8, .str ver) :: (9, .int (n : Int)) :: (35, .str ty) :: hs)
      = .ok (([56, 61] ++ ver) :: ([57, 61] ++ natDigits n) :: ([51, 53, 61] ++ ty) :: fh) := by
  obtain ⟨⟨r8, h8⟩, ⟨r9, h9⟩, ⟨r35, h35⟩, _⟩ := he
  have e35 : natDigits 35 = [51, 53] := by decide
  have e9 : natDigits 9 = [57] := by decide
  have e8 : natDigits 8 = [56] := by decide
  unfold encSegFields at h ⊢
  simp only [mapE, h8, h9, h35, encEntry, tyToBytes, encodeAscii, hv, ht, intStr_natCast, natDigits_all_lt, if_true, ok_bind, pure_eq_ok, h,
    fieldBytes, e35, e9, e8]
  simp

theorem encSegFields_framed_trl {d : MsgDef} (he : framingEntries d) {ck : Str} {ts : Seg} {ft : List Bytes}
    (hc : ck.all (· < 128) = true) (h : encSegFields d.trl ts = .ok ft) :
    encSegFields d.trl (ts ++ [(10, .str ck)]) = .ok (ft ++ [[49, 48, 61] ++ ck]) := by
  obtain ⟨_, _, _, ⟨r10, h10⟩⟩ := he
  have e10 : natDigits 10 = [49, 48] := by decide
  unfold encSegFields at h ⊢
  apply mapE_append h
  simp only [mapE, h10, encEntry, tyToBytes, encodeAscii, hc, if_true, ok_bind, pure_eq_ok, fieldBytes, e10]
  simp

/-! ### sessions -/

/-- a version string the reader can skip over: no `=` in it (`FIX.4.4`, `FIXT.1.1`) -/
def wfVer (ver : Str) : Bool := ver.all (fun c => decide (c ≠ 61))

theorem wfVer_iff {ver : Str} (h : wfVer ver = true) : 61 ∉ ver := by
  intro hm
  simp only [wfVer, List.all_eq_true, decide_eq_true_eq] at h
  exact h 61 hm rfl

/-- what `send_msg` does, step by step -/
theorem frame_inv {ver : Str} {d : MsgDef} {se : Sess} {seq : Int} {time : Str} {m m' : Msg} {f : Bytes}
    (h : frame ver d se seq time m = .ok (f, m')) :
    ∃ hd body, stampHeader d.hdr se seq time m.hdr = .ok hd ∧
      m' = { m with hdr := dropKeys [8, 9, 35] hd, trl := dropKeys [10] m.trl } ∧
      encMsg d m' = .ok body ∧ prepare ver d.type body = .ok f := by
  unfold frame at h
  obtain ⟨_, _, h⟩ := bind_ok h
  obtain ⟨hd, hhd, h⟩ := bind_ok h
  obtain ⟨body, hbody, h⟩ := bind_ok h
  obtain ⟨f', hf', h⟩ := bind_ok h
  simp only [pure_eq_ok] at h
  injection h with h
  injection h with h1 h2
  subst h1; subst h2
  exact ⟨hd, body, hhd, rfl, hbody, hf'⟩

theorem wfFields_append {es : List Entry} : ∀ {a b : Seg}, wfFields es a = true → wfFields es b = true →
    wfFields es (a ++ b) = true
  | [], _, _, hb => by simpa using hb
  | (t, v) :: a, b, ha, hb => by
    simp only [wfFields, Bool.and_eq_true] at ha
    simp only [List.cons_append, wfFields, Bool.and_eq_true]
    exact ⟨ha.1, wfFields_append ha.2 hb⟩

theorem canonSeg_append (es : List Entry) (a b : Seg) : canonSeg es (a ++ b) = canonSeg es a ++ canonSeg es b := by
  simp [canonSeg]

theorem wfMsg_framed {d : MsgDef} (he : framingEntries d) {ver ty ck : Str} (n : Nat) {m : Msg}
    (hv : wfText ver = true) (ht : wfText ty = true) (hc : wfText ck = true) (hm : wfMsg d m = true)
    (hk : 8 ∉ keysOf m.hdr ∧ 9 ∉ keysOf m.hdr ∧ 35 ∉ keysOf m.hdr ∧ 10 ∉ keysOf m.trl) :
    wfMsg d (framed ver n ty ck m) = true := by
  obtain ⟨⟨r8, h8⟩, ⟨r9, h9⟩, ⟨r35, h35⟩, ⟨r10, h10⟩⟩ := he
  simp only [wfMsg, wfSeg, Bool.and_eq_true, decide_eq_true_eq] at hm
  obtain ⟨⟨⟨⟨wh, nh⟩, wb⟩, ⟨wt, nt⟩⟩, _⟩ := hm
  obtain ⟨k8, k9, k35, k10⟩ := hk
  have w10 : wfFields d.trl [(10, Val.str ck)] = true := by
    simp [wfFields, h10, wfVal, wfPrim, hc]
  have nt' : (keysOf (m.trl ++ [(10, Val.str ck)])).Nodup := by
    simp only [keysOf, List.map_append, List.map_cons, List.map_nil]
    rw [List.nodup_append]
    refine ⟨nt, by simp, ?_⟩
    intro a ha b hb hab
    simp at hb
    subst hb; subst hab
    exact k10 ha
  have nh' : (keysOf ((8, Val.str ver) :: (9, Val.int (n : Int)) :: (35, Val.str ty) :: m.hdr)).Nodup := by
    simp only [keysOf, List.map_cons, List.nodup_cons, List.mem_cons, not_or]
    exact ⟨⟨by decide, by decide, k8⟩, ⟨by decide, k9⟩, k35, nh⟩
  simp only [wfMsg, framed, wfSeg, wfFields, h8, h9, h35, wfVal, wfPrim, hv, ht, wh, wb, wfFields_append wt w10,
    Bool.and_eq_true, decide_eq_true_eq, nh', nt', and_self, true_and]
  simp

theorem canonMsg_framed {d : MsgDef} (he : framingEntries d) (ver ty ck : Str) (n : Nat) (m : Msg) :
    canonMsg d (framed ver n ty ck m) = framed ver n ty ck (canonMsg d m) := by
  obtain ⟨⟨r8, h8⟩, ⟨r9, h9⟩, ⟨r35, h35⟩, ⟨r10, h10⟩⟩ := he
  simp only [canonMsg, framed, canonSeg_append]
  simp [canonSeg, h8, h9, h35, h10, canonVal]

end NasdaqModel.FixFrame
