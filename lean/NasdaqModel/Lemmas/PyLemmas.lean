import NasdaqModel.Py.Dec
/-
Lemmas about the Python-semantics layer: strip/ljust, decimal round trip, 16-bit packing.
-/
namespace NasdaqModel.Py

/-- neither end of `s` satisfies `p` (vacuous for the empty list) -/
def edgeOk (p : Nat → Bool) (s : List Nat) : Bool :=
  s.head?.all (fun c => !p c) && s.getLast?.all (fun c => !p c)

theorem dropWhile_eq_self_of_head {p : Nat → Bool} {l : List Nat}
    (h : l.head?.all (fun c => !p c) = true) : l.dropWhile p = l := by
  cases l with
  | nil => rfl
  | cons a t =>
    simp at h
    simp [List.dropWhile_cons, h]

theorem dropWhile_replicate_append {p : Nat → Bool} {c : Nat} (hc : p c = true) (k : Nat) (l : List Nat) :
    (List.replicate k c ++ l).dropWhile p = l.dropWhile p := by
  induction k with
  | zero => simp
  | succ k ih => simp [List.replicate_succ, List.dropWhile_cons, hc, ih]

theorem stripBy_of_edgeOk {p : Nat → Bool} {s : List Nat} (h : edgeOk p s = true) : stripBy p s = s := by
  unfold edgeOk at h
  simp only [Bool.and_eq_true] at h
  unfold stripBy
  rw [dropWhile_eq_self_of_head h.1]
  rw [dropWhile_eq_self_of_head (by rw [List.head?_reverse]; exact h.2)]
  simp

/-- padding with a strippable character on the right is undone by `strip` -/
theorem stripBy_append_replicate {p : Nat → Bool} {s : List Nat} {c : Nat} (k : Nat)
    (h : edgeOk p s = true) (hc : p c = true) : stripBy p (s ++ List.replicate k c) = s := by
  cases s with
  | nil =>
    unfold stripBy
    have : (List.replicate k c).dropWhile p = [] := by
      have := dropWhile_replicate_append hc k []
      simpa using this
    simp [this]
  | cons a t =>
    unfold edgeOk at h
    simp only [Bool.and_eq_true] at h
    have ha : p a = false := by simpa using h.1
    unfold stripBy
    have h1 : ((a :: t) ++ List.replicate k c).dropWhile p = (a :: t) ++ List.replicate k c := by
      simp [List.dropWhile_cons, ha]
    rw [h1, List.reverse_append, List.reverse_replicate, dropWhile_replicate_append hc]
    rw [dropWhile_eq_self_of_head (by rw [List.head?_reverse]; exact h.2)]
    simp

theorem strip_ljust {s : Str} (n : Nat) (h : edgeOk isSpace s = true) : strip (ljust s n) = s := by
  unfold strip ljust
  exact stripBy_append_replicate _ h (by decide)

/-! ### decimal -/

theorem natDigitsAux_fuel : ∀ (f1 f2 n : Nat), n ≤ f1 → n ≤ f2 → natDigitsAux f1 n = natDigitsAux f2 n := by
  intro f1
  induction f1 with
  | zero =>
    intro f2 n h1 _
    have : n = 0 := by omega
    subst this
    cases f2 <;> simp [natDigitsAux]
  | succ f1 ih =>
    intro f2 n h1 h2
    by_cases hn : n < 10
    · cases f2 with
      | zero => have : n = 0 := by omega
                subst this; simp [natDigitsAux]
      | succ f2 => simp [natDigitsAux, hn]
    · cases f2 with
      | zero => omega
      | succ f2 =>
        simp only [natDigitsAux, hn, if_false]
        rw [ih f2 (n / 10) (by omega) (by omega)]

/-- the defining equation of `natDigits` -/
theorem natDigits_eq (n : Nat) :
    natDigits n = if n < 10 then [48 + n] else natDigits (n / 10) ++ [48 + n % 10] := by
  unfold natDigits
  cases n with
  | zero => simp [natDigitsAux]
  | succ m =>
    simp only [natDigitsAux]
    split
    · rfl
    · rw [natDigitsAux_fuel m ((m + 1) / 10) ((m + 1) / 10) (by omega) (by omega)]

theorem natDigits_ne_nil (n : Nat) : natDigits n ≠ [] := by
  rw [natDigits_eq]
  split <;> simp

theorem natDigits_all_digit (n : Nat) : ∀ d ∈ natDigits n, isDigit d = true := by
  induction n using Nat.strongRecOn with
  | _ n ih =>
    rw [natDigits_eq]
    split
    · intro d hd
      simp at hd
      subst hd
      simp [isDigit]; omega
    · intro d hd
      simp only [List.mem_append, List.mem_singleton] at hd
      rcases hd with hd | hd
      · exact ih (n / 10) (by omega) d hd
      · subst hd
        simp [isDigit]; omega

theorem digitsVal_append (a : List Nat) (d : Nat) : digitsVal (a ++ [d]) = digitsVal a * 10 + (d - 48) := by
  simp [digitsVal, List.foldl_append]

theorem digitsVal_natDigits (n : Nat) : digitsVal (natDigits n) = n := by
  induction n using Nat.strongRecOn with
  | _ n ih =>
    rw [natDigits_eq]
    split
    · simp [digitsVal]
    · rw [digitsVal_append, ih (n / 10) (by omega)]
      omega

theorem cleanDigits_of_all_digit : ∀ (ds : List Nat), ds ≠ [] → (∀ d ∈ ds, isDigit d = true) →
    cleanDigits ds = some ds
  | [], h, _ => absurd rfl h
  | [d], _, h => by simp [cleanDigits, h d (by simp)]
  | d :: e :: rest, _, h => by
    have hd : isDigit d = true := h d (by simp)
    have he : isDigit e = true := h e (by simp)
    have hne : e ≠ 95 := by
      intro h95; subst h95; simp [isDigit] at he
    have ih := cleanDigits_of_all_digit (e :: rest) (by simp) (fun x hx => h x (by simp [hx]))
    simp [cleanDigits, hd, hne, ih]

theorem isDigit_not_space {d : Nat} (h : isDigit d = true) : isAsciiSpace d = false ∧ isSpace d = false := by
  simp [isDigit] at h
  simp [isAsciiSpace, isSpace]
  omega

theorem natDigits_head_digit (n : Nat) : ∃ d t, natDigits n = d :: t ∧ isDigit d = true := by
  have hne := natDigits_ne_nil n
  have hall := natDigits_all_digit n
  cases h : natDigits n with
  | nil => exact absurd h hne
  | cons d t => exact ⟨d, t, rfl, hall d (by simp [h])⟩

theorem natDigits_last_digit (n : Nat) : ∃ d, (natDigits n).getLast? = some d ∧ isDigit d = true := by
  have hne := natDigits_ne_nil n
  have hall := natDigits_all_digit n
  have : (natDigits n).getLast? = some ((natDigits n).getLast hne) := List.getLast?_eq_some_getLast hne
  exact ⟨_, this, hall _ (List.getLast_mem hne)⟩

/-- `int(str(i)) = i` for both whitespace conventions -/
theorem parseIntWith_intStr (ws : Nat → Bool) (hws : ∀ d, isDigit d = true → ws d = false)
    (hminus : ws 45 = false) (i : Int) : parseIntWith ws (intStr i) = .ok i := by
  obtain ⟨d0, t0, hd0, hd0d⟩ := natDigits_head_digit i.natAbs
  obtain ⟨dl, hdl, hdld⟩ := natDigits_last_digit i.natAbs
  have hhead : (natDigits i.natAbs).head? = some d0 := by rw [hd0]; rfl
  have hclean := cleanDigits_of_all_digit _ (natDigits_ne_nil i.natAbs) (natDigits_all_digit i.natAbs)
  have hval := digitsVal_natDigits i.natAbs
  unfold parseIntWith intStr
  by_cases hneg : i < 0
  · simp only [hneg, if_true]
    have hedge : edgeOk ws (45 :: natDigits i.natAbs) = true := by
      have : (45 :: natDigits i.natAbs).getLast? = some dl := by
        rw [hd0] at hdl ⊢
        simpa [List.getLast?_cons_cons] using hdl
      simp [edgeOk, this, hminus, hws dl hdld]
    rw [stripBy_of_edgeOk hedge]
    simp [hclean, hval]
    omega
  · simp only [hneg, if_false]
    have hedge : edgeOk ws (natDigits i.natAbs) = true := by
      simp [edgeOk, hhead, hdl, hws dl hdld, hws d0 hd0d]
    rw [stripBy_of_edgeOk hedge]
    have h43 : d0 ≠ 43 := by intro h; subst h; simp [isDigit] at hd0d
    have h45 : d0 ≠ 45 := by intro h; subst h; simp [isDigit] at hd0d
    simp [hhead, h43, h45, hclean, hval]
    omega

theorem parseIntBytes_intStr (i : Int) : parseIntBytes (intStr i) = .ok i :=
  parseIntWith_intStr _ (fun _ h => (isDigit_not_space h).1) (by decide) i

theorem parseIntStr_intStr (i : Int) : parseIntStr (intStr i) = .ok i :=
  parseIntWith_intStr _ (fun _ h => (isDigit_not_space h).2) (by decide) i

/-- `str(i)` has no space / NUL at its ends and is ASCII -/
theorem intStr_all_lt (i : Int) : ∀ c ∈ intStr i, c < 128 := by
  intro c hc
  unfold intStr at hc
  have hall := natDigits_all_digit i.natAbs
  split at hc
  · simp at hc
    rcases hc with hc | hc
    · omega
    · have := hall c hc; simp [isDigit] at this; omega
  · have := hall c hc; simp [isDigit] at this; omega

end NasdaqModel.Py
