import NasdaqModel.Model.BinInherit
/-
C01, message classes declared by inheritance - the variant that does NOT round-trip, as a decided counterexample.

If the serialised message id is kept as a class attribute and read through the MRO (`try: return cls.MsgIdBytes`), a class derived
from another message class finds its PARENT's cached id once the parent has been encoded, and from then on writes the parent's id
byte; the bytes then decode to the parent class with the parent's body (wrong class, fewer bytes consumed).  The order of first use
decides: child first, and everything stays right.  The same family and the same order of uses are `corpus/C01/r-family-parent-first.json`
and run first against the implementation in every C01 and C02 run.
-/
namespace NasdaqModel.Witness.C01Inherit
open NasdaqModel BinCodec BinInherit

/-- EnterOrder 'O' (79); ReplaceOrder(EnterOrder) 'U' (85) with one more field; a class derived from that under 'X' (88), body unchanged -/
def fam : List Decl :=
  [ ⟨79, none, .own, .cons 1 (.int 8 true true) .none (.cons 2 (.char false) .none (.cons 3 (.fixed false 8 false) .none
      (.cons 4 (.int 4 false true) .none .nil)))⟩,
    ⟨85, some 0, .extend, .cons 101 (.int 8 true true) .none .nil⟩,
    ⟨88, some 1, .same, .nil⟩ ]

/-- parent first: both children are written with the parent's id -/
theorem C01_witness_cached_id_parent_first : runCached fam [0, 1, 2, 0] [] = [79, 79, 79, 79] := by decide

/-- children first: every class writes its own id, also afterwards -/
theorem C01_witness_cached_id_children_first : runCached fam [2, 1, 0, 2, 1] [] = [88, 85, 79, 88, 85] := by decide

/-- the model of the code as it is writes the class's own id whatever was used before (the registry entry carries it) -/
theorem C01_witness_own_ids : (registry fam).map (·.ind) = [79, 85, 88] := by decide

def replaceVal : Val := .recd [(1, .int 1002), (2, .str [83]), (3, .str [78, 68, 65, 81]), (4, .int 200), (101, .int 1001)]

/-- ReplaceOrder encodes to 30 bytes starting with 'U' … -/
theorem C01_witness_child_encoding :
    (match (registry fam)[1]? with
     | some m => (encodeMsg m replaceVal).toOption.map (fun r => (r.1, r.2.head?))
     | none => none) = some (30, some 85) := by decide

/-- … and the same body behind the PARENT's id byte is taken for an EnterOrder: class 0, 22 of the 30 bytes consumed -/
theorem C01_witness_parent_id_decodes_as_parent :
    (match (registry fam)[1]? with
     | some m => match encodeMsg m replaceVal with
       | .ok (_, bs) => (decodeMsg (registry fam) (79 :: bs.drop 1)).toOption.map (fun r => (r.1, r.2.1))
       | .error _ => none
     | none => none) = some (22, 0) := by decide

end NasdaqModel.Witness.C01Inherit
