import NasdaqModel.Props.C13Short
/-
C13, shortest wire forms - the decoder variant that does NOT round-trip, as decided counterexamples.

If `GroupContainer.from_bytes` refuses a count as soon as `count * L` exceeds the number of bytes that follow the count field
("the announced instances cannot fit"), with `L = 4 = len(b'1=1' + SOH)`, it refuses messages the library itself wrote: an instance
whose first field has a one-digit tag and carries the empty text is THREE bytes (`Props/C13Short.lean`: `C13_short_field_bytes`,
`C13_short_instance_bytes`), and a message may end in such instances.  `containerFromBytesG L` below is `Fix.containerFromBytes`
with that test in front of the instance loop; everything else is the model of the code as it is.  The messages are those of
`Props/C13Short.lean` (inside `wfDef` / `wfMsg`: instances of `C13_statement`; `corpus/C13/short-*.json`, replayed on the
implementation first in every run).  With `L = 3` - the true minimum - the test never fires on them.
-/
namespace NasdaqModel.Witness.C13Short
open NasdaqModel Py Fix Props.C13Short

/-- `if count.value * L > len(bytes_): raise ValueError` in front of the loop of `GroupContainer.from_bytes` -/
def containerFromBytesG (L : Nat) (tbl : Table) (bs : Bytes) : Except Err (Nat × Val) := do
  let c ← fieldFromBytes .int bs
  match c.2 with
  | .int n =>
      if n * (L : Int) > ((bs.drop c.1).length : Int) then .error .value
      else do
        let r ← grpLoop tbl n.toNat (bs.drop c.1) c.1 []
        if (r.2.length : Int) ≠ n then .error .value
        else pure (r.1, .grp r.2)
  | _ => .error .other

mutual
def entryDecG (L : Nat) : Entry → Bytes → Except Err (Nat × Val)
  | .field _ ty _, bs => fieldFromBytes ty bs
  | .group _ sub _, bs => containerFromBytesG L (tableOfG L sub) bs
def tableOfG (L : Nat) : List Entry → Table
  | [] => []
  | e :: es => (e.tag, fun bs => entryDecG L e bs) :: tableOfG L es
end

def msgFromBytesG (L : Nat) (d : MsgDef) (bs : Bytes) : Except Err (Nat × Msg) := do
  let h ← segFromBytes (tableOfG L d.hdr) bs
  let bs1 := bs.drop h.1
  let b ← segFromBytes (tableOfG L d.body) bs1
  let bs2 := bs1.drop b.1
  let t ← segFromBytes (tableOfG L d.trl) bs2
  pure (h.1 + b.1 + t.1, { hdr := h.2, body := b.2, trl := t.2 })

/-- encode with the model of the code, decode with the guarded container: the error, or `none` when it decodes to the message -/
def decodeErrG (L : Nat) (d : MsgDef) (m : Msg) : Option Err :=
  match encMsg d m with
  | .ok bs => (match msgFromBytesG L d bs with
               | .ok r => if r.1 == bs.length && pyEq r.2 (canonMsg d m) then none else some .other
               | .error e => some e)
  | .error e => some e

/-- the messages are inside the property's quantifier -/
theorem C13_witness_short_wf :
    wfDef (shortDef 78 1 allocRest) = true ∧ wfMsg (shortDef 78 1 allocRest) (shortMsg 78 1 1) = true ∧
    wfMsg (shortDef 78 1 allocRest) (shortMsg 78 1 3) = true := by decide

/-- `35=S|78=1|1=|` : one instance, three bytes follow the count, `1 * 4 > 3` -/
theorem C13_witness_minlen4_one : decodeErrG 4 (shortDef 78 1 allocRest) (shortMsg 78 1 1) = some .value := by decide +kernel
theorem C13_witness_minlen4_three : decodeErrG 4 (shortDef 78 1 allocRest) (shortMsg 78 1 3) = some .value := by decide +kernel
/-- the inner group closing the last outer instance: `…|78=2|1=|1=|` -/
theorem C13_witness_minlen4_nested : decodeErrG 4 nestedDef nestedMsg = some .value := by decide +kernel
/-- nine minimal instances in front of the 7-byte trailer `10=077|` : `9 * 4 > 9 * 3 + 7` … -/
theorem C13_witness_minlen4_nine_before_checksum : decodeErrG 4 nestedDef nineMsg = some .value := by decide +kernel
/-- … while seven of them pass (`7 * 4 ≤ 7 * 3 + 7`): the number of instances matters, not only their shape -/
theorem C13_witness_minlen4_seven_before_checksum_unaffected :
    decodeErrG 4 nestedDef { nineMsg with body := [(555, .grp [[(600, .str [88]), (78, .grp (List.replicate 7 [(1, .str [])]))]])] }
      = none := by decide +kernel

/-- with the true minimum, three bytes, the test never fires on these messages … -/
theorem C13_witness_minlen3_unaffected :
    decodeErrG 3 (shortDef 78 1 allocRest) (shortMsg 78 1 1) = none ∧ decodeErrG 3 (shortDef 78 1 allocRest) (shortMsg 78 1 3) = none ∧
    decodeErrG 3 nestedDef nestedMsg = none ∧ decodeErrG 3 nestedDef nineMsg = none := by decide +kernel

/-- … and a guard of 4 is invisible on instances of four bytes or more: one character in the value (`1=a|`), a two-digit tag, the
    witness message of `Witness/C13.lean` (why ordinary dictionaries do not notice it) -/
theorem C13_witness_minlen4_four_byte_instances_unaffected :
    decodeErrG 4 (shortDef 78 1 allocRest) { shortMsg 78 1 1 with body := [(78, .grp [[(1, .str [97])]])] } = none ∧
    decodeErrG 4 (shortDef 78 11 allocRest) (shortMsg 78 11 3) = none ∧
    decodeErrG 4 witnessDef witnessMsg = none := by decide +kernel

/-- the guard-free decoder of the model is `L = 0` -/
theorem C13_witness_guard0_is_model (tbl : Table) (bs : Bytes) : containerFromBytesG 0 tbl bs = containerFromBytes tbl bs := by
  simp only [containerFromBytesG, containerFromBytes]
  cases fieldFromBytes .int bs with
  | error e => rfl
  | ok c =>
    simp only [ok_bind]
    cases c.2 with
    | int n =>
      have : ¬ (n * ((0 : Nat) : Int) > ((bs.drop c.1).length : Int)) := by simp
      simp only [this, if_false]
    | flt _ => rfl
    | bool _ => rfl
    | str _ => rfl
    | grp _ => rfl

end NasdaqModel.Witness.C13Short
