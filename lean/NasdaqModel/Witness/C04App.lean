import NasdaqModel.Lemmas.AppSessionLemmasF
/-
C04, application sessions — regression witness for the repaired finding C04-late-cancel-loses-message on the *second* queue
(same class, `DispatchableMessageQueue`): before the repair a `receive_message()` that was cancelled after its helper task had
already taken the value off the application queue, but before the caller resumed, reported the cancellation — and the value was
lost.  `stepOld` is the previous transition (identical to `step` except that the cancelled receive drops the held value); on the
recorded history it loses value 5 and leaves the next receive waiting, while the model (the repaired code) hands 5 to the next
receive.  Replayed on the implementation by harness/app_sessions.py (`app.witness C04App-late-cancel`).
-/
namespace NasdaqModel.Witness.C04App
open NasdaqModel App

def cfg : ACfg :=
  { dec := fun n => if n = 0 then .skip else .val n
    hasMsgCb := false, msgBeh := fun _ => .ret, hasCb := false, cbBeh := .ret, closedFirst := true }

/-- login; `receive_message()` blocks; message 5 arrives and is put on the application queue; the helper takes it; the caller is
    cancelled before it resumes; a second receive -/
def history : List Ev :=
  [.inner .connect, .inner (.callLogin 1), .inner (.run .V), .inner (.data [.msg 0]), .inner (.run .R), .inner (.run .V),
   .inner (.run (.U 1)), .inner (.run .D), .appRecv 2, .run .V2, .inner (.data [.msg 5]), .inner (.run .R), .inner (.run .D),
   .inner (.run .D), .run .V2, .appCancel 2, .run (.W 2), .appRecv 3, .run .V2]

/-- the transition relation before the repair: as `step`, except that a cancellation delivered inside `receive_message()` drops
    the value held for it (marked `(v, false)` in `gone2`) -/
def stepOld (a : ACfg) (s : St) : Ev → St
  | .run t =>
      if s.astatus t = .cancelled then
        match s.aprog t with
        | .recvWait u =>
            let s := { s with imm2 := false }
            let s := { s with vres2 := none, rcv2Busy := false, gone2 := s.gone2 ++ s.vres2.toList.map (fun v => (v, false)) }
            if s.q2Closed then (s.emit2 (.ret u .eoq)).finish2 t else (s.emit2 (.ret u .cancelled)).finish2 t
        | _ => step a s (.run t)
      else step a s (.run t)
  | e => step a s e

def runOld (a : ACfg) (s : St) (evs : List Ev) : St := evs.foldl (stepOld a) s

set_option maxRecDepth 100000 in
/-- **before the repair**: value 5 was fully received, decoded and never delivered, and the next receive is left waiting -/
theorem C04App_witness_old_semantics_loses_message :
    (runOld cfg {} history).trace2 = [.ret 2 .cancelled] ∧
    (runOld cfg {} history).lost2 = [5] ∧
    (Sess.msgsOf (runOld cfg {} history).inner.wire).filterMap (valOf cfg) = [5] ∧
    (runOld cfg {} history).q2 = [] ∧ (runOld cfg {} history).vres2 = none ∧
    (runOld cfg {} history).astatus (.W 3) = .waitV ∧
    (runOld cfg {} history).inner.closed = false ∧
    appDelivered (runOld cfg {} history).trace2 ++ (runOld cfg {} history).q2
      ≠ (Sess.msgsOf (runOld cfg {} history).inner.wire).filterMap (valOf cfg) := by decide

set_option maxRecDepth 100000 in
/-- **the model (the repaired code)**: the cancelled receive consumed nothing; the next `receive_message()` returns 5 at once -/
theorem C04App_witness_model_delivers_message :
    (runEvs cfg {} history).trace2 = [.ret 2 .cancelled, .ret 3 (.msg 5)] ∧
    (runEvs cfg {} history).lost2 = [] ∧
    appDelivered (runEvs cfg {} history).trace2 = (Sess.msgsOf (runEvs cfg {} history).inner.wire).filterMap (valOf cfg) ∧
    (runEvs cfg {} history).q2 = [] ∧ (runEvs cfg {} history).vres2 = none ∧
    (runEvs cfg {} history).astatus (.W 3) = .done ∧
    (runEvs cfg {} history).inner.closed = false := by decide

set_option maxRecDepth 100000 in
/-- between the cancellation and the next receive the value is back at the head of the application queue (the stash) -/
theorem C04App_witness_value_back_in_front :
    (runEvs cfg {} (history.take 17)).q2 = [5] ∧ (runEvs cfg {} (history.take 17)).vres2 = none ∧
    (runEvs cfg {} (history.take 17)).rcv2Busy = false := by decide

/-- the two transition relations differ *only* in the late-cancel window: with no value held they are the same function -/
theorem C04App_old_eq_step_unless_held (a : ACfg) (s : St) (ev : Ev) (hv : s.vres2 = none) :
    stepOld a s ev = step a s ev := by
  cases ev with
  | run t =>
    simp only [stepOld, step]
    by_cases hc : s.astatus t = .cancelled
    · simp only [hc, if_true, runnable2, stepRun2]
      cases hp : s.aprog t <;> simp [hv, runnable2]
    · simp [hc]
  | _ => rfl

end NasdaqModel.Witness.C04App
