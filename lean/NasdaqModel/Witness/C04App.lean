import NasdaqModel.Lemmas.AppSessionLemmasF
/-
C04, application sessions — the known finding C04-late-cancel-loses-message on the *second* queue (same class,
`DispatchableMessageQueue`): a `receive_message()` that is cancelled after its helper task already took the value off the
application queue, but before the caller resumed, reports the cancellation — and the value is lost.
Replayed on the implementation by harness/app_sessions.py (`app.witness C04App-late-cancel`).
-/
namespace NasdaqModel.Witness.C04App
open NasdaqModel App

def cfg : ACfg :=
  { dec := fun n => if n = 0 then .skip else .val n
    hasMsgCb := false, msgBeh := fun _ => .ret, hasCb := false, cbBeh := .ret, closedFirst := true }

/-- login; `receive_message()` blocks; message 5 arrives and is put on the application queue; the helper takes it; the caller is
    cancelled before it resumes; a second receive finds nothing -/
def history : List Ev :=
  [.inner .connect, .inner (.callLogin 1), .inner (.run .V), .inner (.data [.msg 0]), .inner (.run .R), .inner (.run .V),
   .inner (.run (.U 1)), .inner (.run .D), .appRecv 2, .run .V2, .inner (.data [.msg 5]), .inner (.run .R), .inner (.run .D),
   .inner (.run .D), .run .V2, .appCancel 2, .run (.W 2), .appRecv 3, .run .V2]

set_option maxRecDepth 100000 in
theorem C04App_witness_late_cancel_loses_message :
    (runEvs cfg {} history).trace2 = [.ret 2 .cancelled] ∧
    (runEvs cfg {} history).lost2 = [5] ∧
    (Sess.msgsOf (runEvs cfg {} history).inner.wire).filterMap (valOf cfg) = [5] ∧
    (runEvs cfg {} history).q2 = [] ∧ (runEvs cfg {} history).vres2 = none ∧
    (runEvs cfg {} history).astatus (.W 3) = .waitV ∧
    (runEvs cfg {} history).inner.closed = false := by decide

set_option maxRecDepth 100000 in
/-- hence the unconditional prefix statement is false of the application session as well: value 5 was fully received,
    decoded and never delivered, and the next receive is left waiting -/
theorem C04App_witness_not_all_delivered :
    appDelivered (runEvs cfg {} history).trace2 ++ (runEvs cfg {} history).q2
      ≠ (Sess.msgsOf (runEvs cfg {} history).inner.wire).filterMap (valOf cfg) := by decide

end NasdaqModel.Witness.C04App
