import NasdaqModel.Model.Seq
/-
C10 — counterexample on the unchanged code: a FIX send whose serialisation fails after `next(self.sequence)` was
taken consumes a MsgSeqNum without writing a frame, so the frames on the wire carry 5 then 7.
The history is `SeqNum.witnessGap`; the harness replays it on the real `Fix44Session` every run
(`Login` with `Username='café'` is the unencodable send) and observes tag 34 = 5, 7.
-/
namespace NasdaqModel.Witness.C10
open NasdaqModel SeqNum

/-- the frames written carry 5 and 7: number 6 was consumed by the send that wrote nothing -/
theorem C10_witness_encode_failure_gap :
    (fixRun fixInit witnessGap).frames = [5, 7] ∧ (fixTrace fixInit witnessGap).map (·.1) =
      [.written 5, .encodeError, .written 7] := by decide

/-- hence the full statement "the k-th frame since the logon carries logon + k" is false of the model of the unchanged
    code, although no send of the history was rejected by validation -/
theorem C10_witness_kth_fails :
    ¬ (∀ k, (hk : k < (fixRun fixInit witnessGap).frames.length) → (fixRun fixInit witnessGap).frames[k] = 5 + k) := by
  intro h
  have := h 1 (by decide)
  revert this
  decide

end NasdaqModel.Witness.C10
