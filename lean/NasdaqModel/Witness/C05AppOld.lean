import NasdaqModel.Witness.C05App
/-
C05, application sessions — regression witness for the repaired finding C05-app-close-from-message-callback.

Before the repair, `ClientSession.close()` (ITCH / OUCH / SQF / ASN.1) awaited from inside the application-level message callback
created the close event, called `soup_session.initiate_close()` and waited for the event.  The closing task stopped the soup
session and, inside `_on_soup_close`, `queue.stop()` cancelled the second dispatcher `D2` — the very task that runs the callback
and was waiting for the event: the callback got `CancelledError` out of `close()`.  The repair lets the calling task carry out
`soup_session.close()` itself (`Model/AppSession.lean`, `closeOnD2`).

This file keeps the *previous* transition (`stepOld`: identical to `step` except for a `close()` awaited by `D2` — from the body of a
message callback or from its cancellation clean-up — which waits for the event as every other caller does) next to the model and
decides, on the recorded history (`corpus/C05/app-close-from-handler.json`, the former `Witness.C05App.historyA`), that the old
transition ends the callback's `close()` with `CancelledError`, while the model — on the schedule the repaired code follows for the
same input — returns normally.  A reintroduction of the defect in the library makes the implementation follow `stepOld` instead of
`step`: the correspondence check then disagrees on exactly this scenario, and the oracle reports the raised `close()`.

It also keeps the deadlock of the old order inside `_on_soup_close` (`closedFirst := false`, /repo before 7eb8348), which needs
the old `close()` as well.
-/
namespace NasdaqModel.Witness.C05AppOld
open NasdaqModel App

/-- entering the message callback, before the repair -/
def dispHandle2Old (a : ACfg) (s : St) (v : Nat) : St :=
  match a.msgBeh v with
  | .close => if s.evt.isSome || s.appClosed then dispHandle2 a s v else startClose a s .D2 (.handlerClose v)
  | _ => dispHandle2 a s v

/-- the awaits of the message callback are over, before the repair -/
def handlerDoneOld (a : ACfg) (s : St) (v : Nat) : St :=
  match a.msgBeh v with
  | .awaitClose _ => if s.evt.isSome || s.appClosed then handlerDone a s .D2 v else startClose a s .D2 (.handlerClose v)
  | _ => handlerDone a s .D2 v

/-- the transition relation before the repair: as `step`, except for `close()` awaited by the second dispatcher -/
def stepOld (a : ACfg) (s : St) : Ev → St
  | .run .D2 =>
      if runnable2 s .D2 then
        let s0 := { s with imm2 := false }
        match s0.astatus .D2, s0.aprog .D2 with
        | .cancelled, .handlerClose v =>      -- cancelled by `queue.stop()` while waiting for the event: the finding
            ((s0.emit2 (.closeRet (.handler v) .cancelled)).emit2 (.msgAbandon v)).finish2 .D2
        | .cancelled, .cleanupClose v => ((s0.emit2 (.closeRet (.handler v) .cancelled)).emit2 (.msgAbandon v)).finish2 .D2
        | .cancelled, .handlerCC v _ =>
            if s0.evt.isSome || s0.appClosed then step a s (.run .D2) else startClose a s0 .D2 (.cleanupClose v)
        | .ready, .handlerClose v =>          -- the event was set
            { (((s0.emit2 (.closeRet (.handler v) .ok)).emit2 (.msgExit v)).setP .D2 .dispLoop) with imm2 := true }
        | .ready, .cleanupClose v => ((s0.emit2 (.closeRet (.handler v) .ok)).emit2 (.msgAbandon v)).finish2 .D2
        | .ready, .handler v 0 => handlerDoneOld a s0 v
        | .ready, .dispLoop =>
            if s0.q2Closed || s0.rcv2Busy || s0.vres2.isSome then step a s (.run .D2)
            else match s0.q2 with
              | [] => step a s (.run .D2)
              | v :: q => dispHandle2Old a (({ s0 with q2 := q, gone2 := s0.gone2 ++ [(v, true)] }).emit2 (.msgEnter v)) v
        | _, _ => step a s (.run .D2)
      else s
  | e => step a s e

def runOld (a : ACfg) (s : St) (evs : List Ev) : St := evs.foldl (stepOld a) s

/-- the history recorded before the repair: messages 3 and 4 arrive; the callback for 3 awaits `app.close()`: event created, closing
    task started, the callback waits; the closing task stops the soup session, enters `_on_soup_close`, cancels the second
    dispatcher — i.e. the waiting callback — and completes the close -/
def historyOld : List Ev := C05App.login ++
  [.run .D2, .inner (.run .D), .inner (.data [.msg 3, .msg 4]), .inner (.run .R), .inner (.run .R),
   .inner (.run .D), .inner (.run .D), .inner (.run .D), .run .D2,
   .inner (.run .C), .inner (.run .D), .inner (.run .C), .inner (.run .L), .inner (.run .C), .inner (.run .M), .inner (.run .C),
   .inner (.run .R), .inner (.run .C), .run .D2, .inner (.run .C)]

set_option maxRecDepth 100000 in
/-- **before the repair**: the `close()` call of the handler ends with `CancelledError`, the handler is abandoned (the session still
    closes completely) -/
theorem C05AppOld_witness_old_semantics_close_cancelled :
    (runOld C05App.cfgA {} historyOld).trace2 =
      [.msgEnter 3, .closeRet (.handler 3) .cancelled, .msgAbandon 3, .cbEnter, .cbExit] ∧
    (runOld C05App.cfgA {} historyOld).inner.cstage = .finished ∧ (runOld C05App.cfgA {} historyOld).cpc = .finished ∧
    (runOld C05App.cfgA {} historyOld).appClosed = true ∧ (runOld C05App.cfgA {} historyOld).evt = some true ∧
    (runOld C05App.cfgA {} historyOld).astatus .D2 = .done := by decide

set_option maxRecDepth 100000 in
/-- **the model (the repaired code)**: same input, same schedule up to and including the step in which the callback calls
    `close()` (the first 16 events); from there on the close is carried out by `D2` and the call returns normally -/
theorem C05AppOld_witness_model_close_returns :
    historyOld.take 16 = C05App.historyA.take 16 ∧
    (runEvs C05App.cfgA {} C05App.historyA).trace2 =
      [.msgEnter 3, .cbEnter, .cbExit, .closeRet (.handler 3) .ok, .msgExit 3] ∧
    (runEvs C05App.cfgA {} C05App.historyA).inner.cstage = .finished ∧
    (runEvs C05App.cfgA {} C05App.historyA).appClosed = true := by decide

set_option maxRecDepth 100000 in
/-- right after the call the two relations differ: before the repair a closing task exists and `D2` waits for the event; in the
    model there is no closing task and `D2` is the closer of the soup session -/
theorem C05AppOld_witness_difference_at_the_call :
    (runOld C05App.cfgA {} (historyOld.take 16)).astatus .D2 = .waitE ∧
    (runOld C05App.cfgA {} (historyOld.take 16)).inner.closingTask = true ∧
    (runOld C05App.cfgA {} (historyOld.take 16)).inner.closed = false ∧
    (runEvs C05App.cfgA {} (historyOld.take 16)).astatus .D2 = .inSoup ∧
    (runEvs C05App.cfgA {} (historyOld.take 16)).inner.closingTask = false ∧
    (runEvs C05App.cfgA {} (historyOld.take 16)).inner.closed = true := by decide

def innerTasks : List Sess.Tid := [.R, .D, .L, .M, .C, .V, .U 1]
def appTasks : List ATid := [.D2, .V2]

set_option maxRecDepth 100000 in
/-- the old order inside `_on_soup_close` with the old `close()` (/repo before 7eb8348): the clean-up's `close()` creates the event and
    waits; the closer waits for the dispatcher: nothing can run, the close callback is never entered, the application session
    never reports closed -/
theorem C05AppOld_witness_cleanup_close_deadlock :
    (runOld (C05App.cfgB false) {} C05App.historyB).inner.closed = true ∧
    (runOld (C05App.cfgB false) {} C05App.historyB).inner.cstage = .cb .C 0 .closingTail ∧
    (runOld (C05App.cfgB false) {} C05App.historyB).cpc = .waitD2 ∧
    (runOld (C05App.cfgB false) {} C05App.historyB).astatus .D2 = .waitE ∧
    (runOld (C05App.cfgB false) {} C05App.historyB).evt = some false ∧
    (runOld (C05App.cfgB false) {} C05App.historyB).appClosed = false ∧
    (runOld (C05App.cfgB false) {} C05App.historyB).trace2 = [.msgEnter 3] ∧
    innerTasks.all (fun t => !runnableI (runOld (C05App.cfgB false) {} C05App.historyB) t) = true ∧
    appTasks.all (fun t => !runnable2 (runOld (C05App.cfgB false) {} C05App.historyB) t) = true := by decide

/-- the two transition relations differ *only* in steps of the second dispatcher -/
theorem C05AppOld_old_eq_step_unless_D2 (a : ACfg) (s : St) (ev : Ev) (h : ev ≠ .run .D2) : stepOld a s ev = step a s ev := by
  cases ev with
  | run t => cases t <;> first | rfl | exact absurd rfl h
  | _ => rfl

end NasdaqModel.Witness.C05AppOld
