import NasdaqModel.Lemmas.GenFixLoad
/-
C16 — a changed semantics a seeded change introduced (seeded/C16j): `Group.get_codegen_context` evaluates a group's entries once and
emits ONE class per distinct group *signature* (kept in a per-generation dict `Group.Emitted`) instead of one class per use.
The signature is the group name followed, per entry, by (field name, required) for a field and by the already de-duplicated class
name for a nested group: the nested `<group>` element's OWN required flag is not part of it, although that flag is written into the
parent class (`fix.Entry(<nested>_List, required)`).  Two uses of a group that differ only in the required flag of a group nested
in them share the class of the first use, so the second use carries the wrong flag.

`genDedup withFlag` is that generator (`withFlag = false`: the seeded signature; `withFlag = true`: the signature that includes the
flag).  On `dictLegs` — two messages using `NoLegs{LegSymbol, NoLegAllocs{LegAllocAccount}}`, identical except that `NoLegAllocs` is
required in the first and optional in the second — the library's generator (`GenFix.gen`) and the reference semantics give
required / optional, the flag-less de-duplication gives required / required.  The harness generates such twins systematically
(harness/c16.py, `twin_pass`) and replays this dictionary from corpus/C16/.
-/
namespace NasdaqModel.Witness.C16Dedup
open NasdaqModel Py GenFix Spec.FixDict

/-- `Group._entry_signature` of seeded/C16j; `flag` = the nested group entry's own required flag, which the seeded change omits -/
inductive SigE where
  | field (name : Str) (req : Bool)
  | group (uname : Str) (flag : Option Bool)
  deriving Repr, DecidableEq

def sigOf (withFlag : Bool) : ERef → SigE
  | .field fd r => .field fd.name r
  | .group _ u r => .group u (if withFlag then some r else none)

/-- `Group.UniqueNameCounter`, `Group.Contexts` and the new `Group.Emitted` (signature ↦ class name) -/
structure DState where
  g : GState := {}
  emitted : List ((Str × List SigE) × Str) := []

mutual
/-- `Group.get_codegen_context` of seeded/C16j: entries first (once), then the signature; a known signature reuses its class -/
def ctxEntryD (withFlag : Bool) (s : DState) : Entry → ERef × DState
  | .field fd r => (.field fd r, s)
  | .group n r es =>
    let r1 := ctxEntriesD withFlag s es
    let sig := (n, r1.1.map (sigOf withFlag))
    match r1.2.emitted.lookup sig with
    | some u => (.group n u r, r1.2)
    | none =>
      let u := uniqueName n (counterOf n r1.2.g + 1)
      (.group n u r, { g := push ⟨n, u, r1.1⟩ (bump n r1.2.g), emitted := (sig, u) :: r1.2.emitted })
def ctxEntriesD (withFlag : Bool) (s : DState) : List Entry → List ERef × DState
  | [] => ([], s)
  | e :: t =>
    let r1 := ctxEntryD withFlag s e
    let r2 := ctxEntriesD withFlag r1.2 t
    (r1.1 :: r2.1, r2.2)
end

def ctxMessagesD (withFlag : Bool) (s : DState) : List Message → List MsgCls × DState
  | [] => ([], s)
  | m :: rest =>
    let r1 := ctxEntriesD withFlag s m.entries
    let r2 := ctxMessagesD withFlag r1.2 rest
    (⟨m.name, m.tag, m.category, m.name ++ bodySuffix, r1.1⟩ :: r2.1, r2.2)

/-- `Definitions.get_codegen_context` with the de-duplicating group contexts (same order of evaluation as `codegenFrom`) -/
def codegenDedup (withFlag : Bool) (defs : Defs) : Except Err Module :=
  let rm := ctxMessagesD withFlag {} defs.messages
  match clientSession defs.version with
  | .error e => .error e
  | .ok sess =>
    let fields := defs.fields.map fun kv => (⟨kv.2.name, kv.2.tag, kv.2.type, valuesCtx kv.2⟩ : FieldCls)
    let rh := ctxEntriesD withFlag rm.2 defs.header
    let rt := ctxEntriesD withFlag rh.2 defs.trailer
    .ok { session := sess, fields := fields, groups := rt.2.g.contexts,
          bodies := ⟨lit "Header", rh.1⟩ :: ⟨lit "Trailer", rt.1⟩ :: rm.1.map (fun m => ⟨m.bodyName, m.entries⟩),
          messages := rm.1 }

def genDedup (withFlag : Bool) (d : Dict) : Except Err Module :=
  match parse d with
  | .error e => .error e
  | .ok defs => codegenDedup withFlag defs

def legs (allocsRequired : Str) : Item :=
  .group (lit "NoLegs") (some (lit "Y")) [
    .field (lit "LegSymbol") (some (lit "Y")),
    .group (lit "NoLegAllocs") (some allocsRequired) [.field (lit "LegAllocAccount") (some (lit "Y"))]]

/-- the demonstration dictionary of seeded/C16j, minimised -/
def dictLegs : Dict := ⟨.v44, [
    .messages [⟨lit "NewOrderMultileg", lit "AB", lit "app", [legs (lit "Y")]⟩,
               ⟨lit "MultilegOrderCancelReplace", lit "AC", lit "app", [legs (lit "N")]⟩],
    .fields [⟨lit "555", lit "NoLegs", lit "NUMINGROUP", []⟩, ⟨lit "600", lit "LegSymbol", lit "STRING", []⟩,
             ⟨lit "670", lit "NoLegAllocs", lit "NUMINGROUP", []⟩, ⟨lit "671", lit "LegAllocAccount", lit "STRING", []⟩]]⟩

/-- required flags of the groups directly inside the entries -/
def innerFlags (es : List LEntry) : List Bool := es.filterMap fun
  | .group _ _ _ r _ => some r
  | _ => none

/-- per top-level group of a body: the required flags of the groups nested in it -/
def nestedFlags (es : List LEntry) : List (List Bool) := es.filterMap fun
  | .group _ _ _ _ sub => some (innerFlags sub)
  | _ => none

def flagsPerMessage (r : Except Err Loaded) : Option (List (Str × List (List Bool))) :=
  r.toOption.map fun L => L.messages.map fun m => (m.cls, nestedFlags m.body)

def loadOf (r : Except Err Module) : Except Err Loaded :=
  match r with
  | .error e => .error e
  | .ok m => load m

theorem C16Dedup_witness_valid : wfDict dictLegs = true := by decide

/-- the dictionary's meaning: `NoLegAllocs` required in the order message, optional in the cancel/replace -/
theorem C16Dedup_witness_denote :
    flagsPerMessage (denote dictLegs) = some [(lit "NewOrderMultileg", [[true]]), (lit "MultilegOrderCancelReplace", [[false]])] := by
  decide

/-- the library's generator (one class per use) gives exactly that -/
theorem C16Dedup_witness_gen :
    flagsPerMessage (genLoad dictLegs) = some [(lit "NewOrderMultileg", [[true]]), (lit "MultilegOrderCancelReplace", [[false]])] := by
  decide

/-- de-duplication by the signature WITHOUT the nested group's own flag: both messages share `NoLegs_1`, the second message's
    `NoLegAllocs` comes out required — the generated classes are not the dictionary's -/
theorem C16Dedup_witness_flagless_wrong :
    flagsPerMessage (loadOf (genDedup false dictLegs)) =
      some [(lit "NewOrderMultileg", [[true]]), (lit "MultilegOrderCancelReplace", [[true]])] ∧
    (genDedup false dictLegs).toOption.map (fun m => m.groups.map (·.uname)) = some [lit "NoLegAllocs_1", lit "NoLegs_1"] := by
  decide

/-- with the flag in the signature the two uses get classes of their own (the nested class is still shared) and the flags are right -/
theorem C16Dedup_witness_flagged_right :
    flagsPerMessage (loadOf (genDedup true dictLegs)) =
      some [(lit "NewOrderMultileg", [[true]]), (lit "MultilegOrderCancelReplace", [[false]])] ∧
    (genDedup true dictLegs).toOption.map (fun m => m.groups.map (·.uname)) =
      some [lit "NoLegAllocs_1", lit "NoLegs_1", lit "NoLegs_2"] := by
  decide

end NasdaqModel.Witness.C16Dedup
