import NasdaqModel.Props.C12Via
/-
C12 — machine-checked counterexamples for a semantics the library does NOT have (a seeded change introduced it, seeded/C12j): a
"typed decode" in which `<Class>.from_bytes(b)` unpacks the bytes as the receiver class instead of dispatching on the type character
(`Soup.decodeTyped`).  Because `<Class>.unpack` never compares `b[2]` with its own indicator (`Props.C12Via.C12Via_unpack_own_class` and
the probed `unpack` table), such a decode returns a packet of a type other than the one named by the type character, and the encoding of a
packet no longer decodes to an equal packet through every entry point — both clauses hold for `decodeVia` (`C12Via_kind`,
`C12Via_roundtrip`).  The harness replays the same byte strings through every entry point of the implementation (corpus/C12/via-*.json).
-/
namespace NasdaqModel.Witness.C12Via
open NasdaqModel Py Soup

/-- a client heartbeat read as a logout request: kind clause violated -/
theorem C12Via_witness_typed_heartbeat_as_logout :
    decodeTyped (some .logoutReq) [0, 1, 82] = .ok .logoutReq ∧ ([0, 1, 82] : Bytes)[2]? ≠ some Pkt.logoutReq.ty := by decide

/-- … and the round trip with it: the encoding of `ClientHeartbeat()` does not come back as that packet -/
theorem C12Via_witness_typed_no_roundtrip :
    encode .clientHb = .ok [0, 1, 82] ∧ decodeTyped (some .logoutReq) [0, 1, 82] ≠ .ok .clientHb := by decide

/-- unsequenced data read as sequenced data (payload kept, class wrong) -/
theorem C12Via_witness_typed_unseq_as_seq :
    decodeTyped (some .seqData) [0, 2, 85, 120] = .ok (.seqData [120]) ∧ ([0, 2, 85, 120] : Bytes)[2]? ≠ some (Pkt.seqData [120]).ty := by
  decide

/-- an end-of-session read as an empty debug packet -/
theorem C12Via_witness_typed_end_as_debug :
    decodeTyped (some .debug) [0, 1, 90] = .ok (.debug []) ∧ ([0, 1, 90] : Bytes)[2]? ≠ some (Pkt.debug []).ty := by decide

/-- the library's entry points on the same inputs: the packet the type character names -/
theorem C12Via_witness_dispatch_is_right :
    decodeVia (some .logoutReq) [0, 1, 82] = .ok .clientHb ∧ decodeVia (some .seqData) [0, 2, 85, 120] = .ok (.unseqData [120]) ∧
    decodeVia (some .debug) [0, 1, 90] = .ok .endOfSession := by decide

end NasdaqModel.Witness.C12Via
