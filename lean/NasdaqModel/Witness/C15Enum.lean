import NasdaqModel.Model.GenSoupApp
/-
C15 — enums whose member NAMES overlap their VALUES (`<value name="N">Y</value><value name="Y">N</value>`).

The documented meaning of `default="N"` on a field of such an enum is the wire value `N` (the text itself, read in the
enum's datatype) — `denote`, and `gen` transcribes exactly that (`Props/C15Enum.lean` proves it for every well-formed
specification).  A generator that resolves the default text through {member name ↦ value} FIRST (a "feature": the default
may be written as `default="Buy"`) gives another default as soon as a member's name is also a legal constant: the
specifications below are well-formed, and on them the name-first variant `genNF` differs from the specification
(`decide`d here; the driver prints these specifications — `witness C15` — and the harness runs them on the implementation
every run, where an unset field must encode the declared default byte for byte).
-/
namespace NasdaqModel.Witness.C15Enum
open NasdaqModel GenSoupApp

/-! ### the name-first variant of the generator (NOT the library's semantics) -/

/-- `{val.name: val.value for val in self.values}.get(text, text)` -/
def valueOf (e : EnumEl) (text : Str) : Str :=
  match dictGet? (dictOfList (e.values.map fun v => (v.name, v.value))) text with
  | some v => v
  | none => text

/-- the enum a field's `type="enum:…"` names, as `FieldDef._field_context` finds it -/
def enumOfField (d : Definitions) (f : FieldDef) : Option EnumEl :=
  match f.ref, f.ty with
  | none, some t => if isPrefix kwEnum t then dictGet? d.enums (removeAll kwEnum t) else none
  | _, _ => none

/-- `genField` with the default text of an `enum:` field looked up among the member names first -/
def genFieldNF (d : Definitions) (f : FieldDef) : Except Err FieldDecl :=
  match enumOfField d f with
  | some e => genField d { f with dflt := f.dflt.map (valueOf e) }
  | none => genField d f

def genDefsNF (impl : Impl) (app : Str) (d : Definitions) : Except Err Module := do
  let enums ← mapE (fun (kv : Str × EnumEl) => genEnum kv.2) d.enums
  let msgs ← mapE (fun (m : MessageDef) => do
      let fs ← mapE (genFieldNF d) m.fields
      pure (⟨m.name, m.id, htmlEscape (orEmpty m.direction), fs⟩ : MsgDecl)) d.messages
  let recs ← mapE (fun (kv : Str × RecordDef) => do
      let fs ← mapE (genFieldNF d) kv.2.fields
      pure (⟨kv.2.name, cp "Record", fs⟩ : RecordDecl)) d.records
  pure {
    impl := impl, appName := app
    exports := [cp "Message", cp "ClientSession", cp "connect_async"]
      ++ enums.map (·.name) ++ recs.map (·.name) ++ msgs.map (·.name)
    enums := enums, records := recs, messages := msgs }

def genNF (impl : Impl) (app : Str) (override : Bool) (s : Spec) : Except Err Module := do
  let d ← parse override s
  genDefsNF impl app d

/-! ### the specifications -/

/-- `N` travels as `Y` and `Y` as `N` -/
def swapEnum (ty : String) : EnumEl := ⟨cp "Flag", some (cp ty), [⟨cp "N", cp "Y"⟩, ⟨cp "Y", cp "N"⟩]⟩

/-- a member named like its own value, one named like another member's value, and a value that is nobody's name -/
def chainEnum : EnumEl := ⟨cp "Chain", some (cp "char_iso-8859-1"), [⟨cp "A", cp "A"⟩, ⟨cp "B", cp "C"⟩, ⟨cp "C", cp "D"⟩]⟩

def fld (name ty dflt : String) : FieldEl := { name := some (cp name), ty := some (cp ty), dflt := some (cp dflt) }

/-- defaults on enum-typed fields declared inline, through a field definition, through a renamed field definition, in a
    record and in a message -/
def overlap (ty : String) : Spec where
  enums := [swapEnum ty, chainEnum]
  fielddefs := [fld "flag" "enum:Flag" "N", fld "link" "enum:Chain" "B"]
  records := [⟨cp "Leg", [fld "hidden" "enum:Flag" "Y", { defn := some (cp "flag") },
                          { name := some (cp "renamed"), defn := some (cp "link") }]⟩]
  messages := [⟨cp "Order", cp "F", none, some (cp "outgoing"), [
      fld "displayed" "enum:Flag" "N",
      fld "own" "enum:Chain" "A",
      fld "next" "enum:Chain" "C",
      fld "last" "enum:Chain" "D",
      { defn := some (cp "flag") },
      { name := some (cp "other"), defn := some (cp "link") },
      { name := some (cp "legs"), ty := some (cp "record:Leg"), array := some (cp "true"), endian := some (cp "big") }]⟩]

/-- the smallest one: a single member whose name is a legal constant but not its value -/
def minimal : Spec where
  enums := [⟨cp "E", some (cp "char_ascii"), [⟨cp "N", cp "Y"⟩]⟩]
  fielddefs := []
  records := []
  messages := [⟨cp "M", cp "1", none, some (cp "outgoing"), [fld "f" "enum:E" "N"]⟩]

def defaultsOf (sch : Schema) : List (List (Option DVal)) :=
  sch.records.map (fun r => r.fields.map (·.dflt)) ++ sch.messages.map (fun g => g.fields.map (·.dflt))

def st (s : String) : Option DVal := some (.str (cp s))

/-- the library's generator on the overlapping enums: well-formed, and every default is the declared text -/
theorem C15Enum_regress_overlap :
    wfSpec .itch (overlap "char_ascii") = true ∧ wfSpec .ouch (overlap "char_iso-8859-1") = true
    ∧ (gen .itch (cp "app") true (overlap "char_ascii") >>= evalModule) = denote .itch (overlap "char_ascii")
    ∧ (gen .ouch (cp "app") true (overlap "char_iso-8859-1") >>= evalModule) = denote .ouch (overlap "char_iso-8859-1")
    ∧ (∃ sch, (gen .itch (cp "app") true (overlap "char_ascii") >>= evalModule) = .ok sch
        ∧ defaultsOf sch = [[st "Y", st "N", st "B"], [st "N", st "A", st "C", st "D", st "N", st "B", none]]) := by
  refine ⟨by decide, by decide, by decide, by decide, ⟨_, rfl, by decide⟩⟩

/-- the name-first lookup gives other defaults on the same specification: `N`↦`Y`, `Y`↦`N`, `B`↦`C`, `C`↦`D`
    (`A`, named like its own value, and `D`, nobody's name, survive) -/
theorem C15Enum_witness_name_first_differs :
    (genNF .itch (cp "app") true (overlap "char_ascii") >>= evalModule) ≠ denote .itch (overlap "char_ascii")
    ∧ (∃ sch, (genNF .itch (cp "app") true (overlap "char_ascii") >>= evalModule) = .ok sch
        ∧ defaultsOf sch = [[st "N", st "Y", st "C"], [st "Y", st "A", st "D", st "D", st "Y", st "C", none]]) := by
  refine ⟨by decide, ⟨_, rfl, by decide⟩⟩

theorem C15Enum_witness_minimal :
    wfSpec .sqf minimal = true
    ∧ (gen .sqf (cp "app") true minimal >>= evalModule) = denote .sqf minimal
    ∧ (∃ sch, denote .sqf minimal = .ok sch ∧ defaultsOf sch = [[st "N"]])
    ∧ (∃ sch, (genNF .sqf (cp "app") true minimal >>= evalModule) = .ok sch ∧ defaultsOf sch = [[st "Y"]]) := by
  refine ⟨by decide, by decide, ⟨_, rfl, by decide⟩, ⟨_, rfl, by decide⟩⟩

/-- where no member name is a legal constant of the datatype the two generators agree (integer enums: a name is never a
    number; `Buy`/`Sell` over `B`/`S`) — the reason a suite without overlapping enums cannot tell them apart -/
def disjoint : Spec where
  enums := [⟨cp "Side", some (cp "char_ascii"), [⟨cp "Buy", cp "B"⟩, ⟨cp "Sell", cp "S"⟩]⟩,
            ⟨cp "Tier", some (cp "uint_2_be"), [⟨cp "Retail", cp "1"⟩, ⟨cp "Pro", cp "2"⟩]⟩]
  fielddefs := []
  records := []
  messages := [⟨cp "M", cp "1", none, some (cp "outgoing"), [fld "side" "enum:Side" "S", fld "tier" "enum:Tier" "2"]⟩]

theorem C15Enum_name_first_agrees_when_disjoint :
    wfSpec .itch disjoint = true
    ∧ genNF .itch (cp "app") true disjoint = gen .itch (cp "app") true disjoint := by
  refine ⟨by decide, by decide⟩

end NasdaqModel.Witness.C15Enum
