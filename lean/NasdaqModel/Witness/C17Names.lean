import NasdaqModel.Props.C17Names
/-
C17, names that occur twice — what seeded change C17l does to `__all__` and why no function of (spec, options) describes it.

C17l computes the export list as `names` when the names of the enum / record / message definitions are pairwise distinct, and as
`list(set(names))` otherwise: the distinct names in the iteration order of a Python set of `str`, which is the order of their
hashes — salted per interpreter (`PYTHONHASHSEED`).  All the text model can say about such a list is WHICH names it holds
(`c17lMayWrite`: any arrangement of the distinct names).  On the request/response specification of `Props/C17Names.lean`:

  * no arrangement is the list the unchanged generator writes (`C17_witness_set_listing_is_never_the_spec_order`): the
    correspondence `gen.exports` of harness/c17.py differs on every such spec, in every interpreter;
  * two arrangements are different files (`C17_witness_set_listing_not_a_function_of_the_spec`): the two interpreters of the
    demonstration (hash seeds 1 and 2) wrote `'EnterOrder', …` and `'OrderExecuted', …` — "generating the same spec twice in
    separate processes gives identical files" fails, which the check observes by repeating every fresh single run under another
    hash seed.
The corpus histories corpus/C17/n1-*.json, n2-*.json and the `DUPS` spec family replay such specifications on the implementation
on every run, where the four interpreters must write the same bytes.
-/
namespace NasdaqModel.Witness.C17Names
open NasdaqModel GenSoupApp Props.C17Names

/-- first occurrences, in order -/
def distinctNames : List Str → List Str
  | [] => []
  | n :: ns => n :: (distinctNames ns).filter (· != n)

/-- what C17l's `Generator._exported_names` may hand to the template for the names `ns` of a specification -/
def c17lMayWrite (ns out : List Str) : Prop :=
  if hasDup ns then out.Perm (distinctNames ns) else out = ns

/-- the names of the definitions of the request / response specification: `AccountQuery` twice -/
def names : List Str := classNames exRequestResponse

example : hasDup names = true := by decide
example : distinctNames names = [cp "Side", cp "Leg", cp "EnterOrder", cp "AccountQuery"] := by decide

/-- whatever order the set has in an interpreter, the list is not the one the unchanged generator writes (one name is missing) -/
theorem C17_witness_set_listing_is_never_the_spec_order (out : List Str) (h : c17lMayWrite names out) :
    (gen .ouch (cp "oe") true exRequestResponse).map (·.exports) ≠ .ok (fixedExports ++ out) := by
  have hd : hasDup names = true := by decide
  simp only [c17lMayWrite, hd, if_true] at h
  have hl : out.length = 4 := by rw [h.length_eq]; decide
  have hg : (gen .ouch (cp "oe") true exRequestResponse).map (·.exports)
      = .ok (fixedExports ++ [cp "Side", cp "Leg", cp "EnterOrder", cp "AccountQuery", cp "AccountQuery"]) := by decide
  rw [hg]
  intro he
  injection he with he
  have := congrArg List.length he
  simp [fixedExports, hl] at this

/-- and it is not a function of the specification: two interpreters may write two different lists -/
theorem C17_witness_set_listing_not_a_function_of_the_spec :
    ∃ out1 out2, c17lMayWrite names out1 ∧ c17lMayWrite names out2 ∧ out1 ≠ out2 := by
  refine ⟨distinctNames names, (distinctNames names).reverse, ?_, ?_, by decide⟩
  · have hd : hasDup names = true := by decide
    simp only [c17lMayWrite, hd, if_true]
    exact List.Perm.refl _
  · have hd : hasDup names = true := by decide
    simp only [c17lMayWrite, hd, if_true]
    exact List.reverse_perm _

/-- with pairwise distinct names C17l writes what the unchanged generator writes (why no test of the suite notices) -/
theorem C17_witness_distinct_names_unchanged (ns out : List Str) (hn : hasDup ns = false) (h : c17lMayWrite ns out) : out = ns := by
  simpa [c17lMayWrite, hn] using h

end NasdaqModel.Witness.C17Names
