import NasdaqModel.Lemmas.SessionLemmas3
/-
C04 — regression witness for the repaired finding C04-late-cancel-loses-message.

Before the repair, a receive that was cancelled *after* its helper task had already taken the message off the queue, but
before the caller resumed, reported the cancellation — and the message was lost (`DispatchableMessageQueue._blocking_read`
discarded the finished helper together with its result).  The repair keeps the message in `_unclaimed`, read before the
asyncio queue by `get_nowait()` and by the dispatcher loop; the model (`Model/Session.lean`, `stepRun`) re-inserts it at the head
of the queue.

This file keeps the *previous* transition (`stepOld`: identical to `step` except that the cancelled receive drops the held
message) next to the model and decides, on the recorded history (corpus/C04/late-cancel.json), that the old transition
loses message 5 while the model delivers it to the next receive.  A reintroduction of the defect in the library makes the
implementation follow `stepOld` instead of `step`: the correspondence check then disagrees on exactly this history.
-/
namespace NasdaqModel.Witness.C04Late
open NasdaqModel Sess

def cfg : Cfg :=
  { msgBeh := fun _ => .ret, cbBeh := .ret, hasCb := false, dispatchOnConnect := false, hasMsgCb := false, fixLogin := false }

/-- receive blocks; message 5 arrives; the helper task takes it; the caller is cancelled before it resumes; the next
    receive (`receive_msg_nowait`) -/
def history : List Ev :=
  [.connect, .callRecv 1, .run .V, .data [.msg 5], .run .R, .run .V, .cancel 1, .run (.U 1), .callRecvNowait 2]

/-- the held message is dropped (marked `(n, false)` in `gone`): the semantics before the repair -/
def dropHeld (s : St) : St :=
  { s with vres := none, rcvBusy := false, gone := s.gone ++ s.vres.toList.map (fun n => (n, false)) }

/-- the transition relation before the repair: as `step`, except for a cancellation delivered inside a receive -/
def stepOld (cfg : Cfg) (s : St) : Ev → St
  | .run t =>
      if s.status t = .cancelled then
        match s.prog t with
        | .recvWait u =>
            let s := { s with imm := none }
            if s.qClosed then ((dropHeld s).emit (.ret u .eoq)).finish t else ((dropHeld s).emit (.ret u .cancelled)).finish t
        | .loginWait u =>
            let s := { s with imm := none }
            if s.qClosed then ((dropHeld s).emit (.ret u .refused)).finish t
            else enterClose cfg ((dropHeld s).setStatus t .ready) t (.userTail u .cancelled)
        | _ => step cfg s (.run t)
      else step cfg s (.run t)
  | e => step cfg s e

def runOld (cfg : Cfg) (s : St) (evs : List Ev) : St := evs.foldl (stepOld cfg) s

/-- **before the repair**: the caller is cancelled, message 5 is gone for good, the next receive finds nothing although 5 was
    fully received and never delivered -/
theorem C04Late_witness_old_semantics_loses_message :
    (runOld cfg {} history).trace = [.ret 1 .cancelled, .ret 2 .none] ∧
    (runOld cfg {} history).lost = [5] ∧
    msgsOf (runOld cfg {} history).wire = [5] ∧
    (runOld cfg {} history).queue = [] ∧ (runOld cfg {} history).vres = none ∧
    (runOld cfg {} history).closed = false ∧
    delivered (runOld cfg {} history).trace ++ (runOld cfg {} history).queue ≠ msgsOf (runOld cfg {} history).wire := by decide

/-- **the model (the repaired code)**: the caller is cancelled, and the next receive returns message 5 -/
theorem C04Late_witness_model_delivers_message :
    (runEvs cfg {} history).trace = [.ret 1 .cancelled, .ret 2 (.msg 5)] ∧
    (runEvs cfg {} history).lost = [] ∧
    delivered (runEvs cfg {} history).trace = msgsOf (runEvs cfg {} history).wire ∧
    (runEvs cfg {} history).queue = [] ∧ (runEvs cfg {} history).vres = none ∧
    (runEvs cfg {} history).closed = false := by decide

/-- between the cancellation and the next receive the message is back at the head of the queue (the stash) -/
theorem C04Late_witness_message_back_in_front :
    (runEvs cfg {} (history.take 8)).queue = [5] ∧ (runEvs cfg {} (history.take 8)).vres = none ∧
    (runEvs cfg {} (history.take 8)).rcvBusy = false := by decide

/-- the same window inside `login()`: the acceptance (message 0) held for the cancelled login -/
def loginHistory : List Ev :=
  [.connect, .callLogin 1, .run .V, .data [.msg 0], .run .R, .run .V, .cancel 1, .run (.U 1), .run .R, .run (.U 1),
   .callRecvNowait 2, .callRecvNowait 3]

theorem C04Late_witness_login :
    (runOld cfg {} loginHistory).lost = [0] ∧
    (runOld cfg {} loginHistory).trace = [.write .login, .tclose, .ret 1 .cancelled, .ret 2 .eoq, .ret 3 .eoq] ∧
    (runEvs cfg {} loginHistory).lost = [] ∧
    (runEvs cfg {} loginHistory).trace = [.write .login, .tclose, .ret 1 .cancelled, .ret 2 (.msg 0), .ret 3 .eoq] := by decide

/-- the two transition relations differ *only* in the late-cancel window: with no message held they are the same function -/
theorem C04Late_old_eq_step_unless_held (cfg : Cfg) (s : St) (ev : Ev) (hv : s.vres = none) :
    stepOld cfg s ev = step cfg s ev := by
  cases ev with
  | run t =>
    simp only [stepOld, step]
    by_cases hc : s.status t = .cancelled
    · simp only [hc, if_true, runnable, stepRun]
      cases hp : s.prog t <;> simp [dropHeld, hv, runnable]
    · simp [hc]
  | _ => rfl

end NasdaqModel.Witness.C04Late
