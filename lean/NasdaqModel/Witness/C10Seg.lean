import NasdaqModel.Model.SeqSeg
/-
C10 — regression witnesses for the segment-wise view of `send_msg`: a repair that pre-checks only the BODY before taking the
number (instead of giving the number back when serialisation fails) leaves a gap as soon as the header or the trailer is the
part that cannot be serialised; the code as it is does not.  The harness generates such histories (an application-set header
field / header group instance / trailer field with non-ASCII text) and replays these two on the implementation.
-/
namespace NasdaqModel.Witness.C10Seg
open NasdaqModel SeqNum

/-- body-only pre-check: frames 5 then 7 — the send with the unencodable HEADER consumed number 6 -/
theorem C10_witness_header_failure_gap_bodycheck :
    (segRunBodyCheck fixInit witnessHeaderGap).frames = [5, 7] := by decide

/-- the same for the TRAILER -/
theorem C10_witness_trailer_failure_gap_bodycheck :
    (segRunBodyCheck fixInit witnessTrailerGap).frames = [5, 7] := by decide

/-- the code as it is (number given back): 5 then 6 on both histories, the failed send reported as `encodeError` -/
theorem C10_witness_segments_no_gap :
    (segRunR fixInit witnessHeaderGap).frames = [5, 6] ∧ (segRunR fixInit witnessTrailerGap).frames = [5, 6] ∧
    (segTraceR fixInit witnessHeaderGap).map (·.1) = [.written 5, .encodeError, .written 6] := by decide

end NasdaqModel.Witness.C10Seg
