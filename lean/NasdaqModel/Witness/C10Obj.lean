import NasdaqModel.Model.SeqObj
/-
C10 — regression witnesses for `send_msg` on message OBJECTS.  A refactoring that puts validation, stamping and serialisation into
one `try` and, in the one `except`, gives the number back by reading it from the message (`if 'MsgSeqNum' in msg.Header:
self.sequence = count(msg.Header.MsgSeqNum)`) is right for every message object that is sent once — and rewinds (or forwards) the
session's counter to a stale number as soon as validation refuses an object whose header carries a number from earlier: an object sent
before, a message obtained from the reader (the peer's number), a number set by the application.  The code as it is keeps the number it
drew in a local and never reads the object.  The harness prints these very histories (`witness C10Obj`) and replays them on the
implementation every run; its generator re-sends, changes and renumbers message objects in every history of the object family.
-/
namespace NasdaqModel.Witness.C10Obj
open NasdaqModel SeqNum

/-- the object sent as 21 is sent again without its mandatory field: refused, nothing written — and the next frame carries 21 AGAIN -/
theorem C10_witness_resend_repeats_number_stale :
    (objRunStale ⟨fixInit, witnessResend.1⟩ witnessResend.2).sess.frames = [20, 21, 22, 21] := by decide

/-- the k-th-frame statement is false of that semantics on a history whose only failed send was rejected by validation -/
theorem C10_witness_resend_kth_fails_stale :
    ¬ (∀ k, (hk : k < (objRunStale ⟨fixInit, witnessResend.1⟩ witnessResend.2).sess.frames.length) →
        (objRunStale ⟨fixInit, witnessResend.1⟩ witnessResend.2).sess.frames[k] = 20 + k) := by
  intro h
  have := h 3 (by decide)
  revert this
  decide

/-- the rejected send itself moves the counter (23 → 21) although it writes nothing: "consumes no number" fails too -/
theorem C10_witness_rejected_send_moves_counter_stale :
    (objRunStale ⟨fixInit, witnessResend.1⟩ (witnessResend.2.take 4)).sess.next = some 23 ∧
    (objRunStale ⟨fixInit, witnessResend.1⟩ (witnessResend.2.take 5)).sess.next = some 21 ∧
    (objRunStale ⟨fixInit, witnessResend.1⟩ (witnessResend.2.take 5)).sess.frames = [20, 21, 22] := by decide

/-- a message obtained from the reader (the peer numbered it 3), refused: the session goes on with the PEER's number -/
theorem C10_witness_decoded_jumps_stale :
    (objRunStale ⟨fixInit, witnessDecoded.1⟩ witnessDecoded.2).sess.frames = [20, 21, 22, 3] := by decide

/-- a number set by the application on a message that is then refused: the session jumps to it -/
theorem C10_witness_preset_jumps_stale :
    (objRunStale ⟨fixInit, witnessPreset.1⟩ witnessPreset.2).sess.frames = [20, 21, 500] := by decide

/-- the code as it is: contiguous on all three histories, the refused sends reported as `rejected` -/
theorem C10_witness_objects_no_repeat :
    (objRunR ⟨fixInit, witnessResend.1⟩ witnessResend.2).sess.frames = [20, 21, 22, 23] ∧
    (objRunR ⟨fixInit, witnessDecoded.1⟩ witnessDecoded.2).sess.frames = [20, 21, 22, 23] ∧
    (objRunR ⟨fixInit, witnessPreset.1⟩ witnessPreset.2).sess.frames = [20, 21, 22] ∧
    (objTraceR ⟨fixInit, witnessResend.1⟩ witnessResend.2).map (·.1) =
      [.written 20, .written 21, .written 22, .rejected, .written 23] := by decide

/-- where the rollback-from-the-object is right: an object sent ONCE whose header cannot be serialised — both semantics agree -/
theorem C10_witness_stale_agrees_on_fresh_objects :
    (objRunStale ⟨fixInit, [⟨some 5, okMsg⟩, ⟨none, ⟨true, false, true, true⟩⟩, ⟨none, ⟨false, true, true, true⟩⟩, ⟨none, okMsg⟩]⟩
      [.login 0, .send 1, .send 2, .send 3]).sess.frames = [5, 6] ∧
    (objRunR ⟨fixInit, [⟨some 5, okMsg⟩, ⟨none, ⟨true, false, true, true⟩⟩, ⟨none, ⟨false, true, true, true⟩⟩, ⟨none, okMsg⟩]⟩
      [.login 0, .send 1, .send 2, .send 3]).sess.frames = [5, 6] := by decide

end NasdaqModel.Witness.C10Obj
