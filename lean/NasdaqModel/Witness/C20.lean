import NasdaqModel.Model.SyncFacade
/-
C20 — concrete interleavings of the model of the *unchanged* code that end in a state in which no transition is
enabled while a caller is still inside `future.result()`: the call never returns and never raises.
Each run is replayed on the real classes by harness/c20.py on every run of the check (`witness C20` of the driver
prints exactly these terms).  Import-free (the driver links this file).
-/
namespace NasdaqModel.Witness.C20
open NasdaqModel.SyncFacade

def rep (n : Nat) (l : Label) : List Label := List.replicate n l

/-- the run ends in a terminal state in which caller `i` is still waiting, with job `j`, and it is not a legitimate
wait for the peer -/
def hangsAt (cfg : Cfg) (run : List Label) (i : Nat) (j : Job) (alive : Bool) : Bool :=
  match exec (init cfg) run with
  | none => false
  | some s =>
    terminal s && s.loopAlive == alive &&
    match s.callers[i]? with
    | some c => c.pc == .wait && c.job == j && !legitWait s c
    | none => false

/-! #### 1. submit after stop (DESIGN §6 #16)
T0 `send_msg` passes both `_must_be_active()` checks; T1 runs a complete `close()` (the loop thread exits);
T0 then hands its coroutine to the stopped loop and waits for ever. -/
def cfg1 : Cfg := { progs := [[.send], [.close]], peer := [] }
def run1 : List Label :=
  rep 3 (.caller 0) ++ rep 6 (.caller 1) ++ [.job 1] ++ rep 2 (.caller 1) ++ rep 6 .close ++ [.stop] ++
  rep 2 (.caller 1) ++ [.caller 0]

theorem C20_witness_submit_after_stop : hangsAt cfg1 run1 0 (.submitted .send) false = true := by decide

/-! #### 2. close_lock deadlock
T0 is in `close()` holding `close_lock`; the peer ends the session and the loop thread reaches
`with self.close_lock` inside `on_close_coro` — it blocks (the whole loop thread); T0 then submits
`initiate_close` and waits for a loop that can never run it.  Both threads wait for each other for ever. -/
def cfg2 : Cfg := { progs := [[.close]], peer := [.endOfSession] }
def run2 : List Label :=
  rep 2 (.caller 0) ++ [.peer] ++ rep 2 .close ++ rep 4 (.caller 0)

theorem C20_witness_close_lock_deadlock : hangsAt cfg2 run2 0 (.submitted .initClose) true = true := by decide

/-- in that state the loop thread is the one waiting for the lock held by T0 -/
theorem C20_witness_close_lock_deadlock_shape :
    (exec (init cfg2) run2).map (fun s => (s.closePc, s.lock)) = some (.wantLock, some (.caller 0)) := by decide

/-! #### 3. two receives, one `_recv_task` slot
T0 and T1 both block in `receive()`; the queue remembers only T1's getter task.  `close()` by T2 cancels that one
(T1 gets EndOfQueue); T0's coroutine is never woken, the loop stops, T0 waits for ever. -/
def cfg3 : Cfg := { progs := [[.recv], [.recv], [.close]], peer := [] }
def run3 : List Label :=
  rep 3 (.caller 0) ++ [.job 0] ++ rep 3 (.caller 1) ++ [.job 1] ++ rep 6 (.caller 2) ++ [.job 2] ++
  rep 2 (.caller 2) ++ rep 6 .close ++ [.stop] ++ rep 2 (.caller 2) ++ [.caller 1]

theorem C20_witness_concurrent_receive_lost : hangsAt cfg3 run3 0 (.blocked 0) false = true := by decide

/-- … while the other two calls ended as documented -/
theorem C20_witness_concurrent_receive_others :
    (exec (init cfg3) run3).map (fun s => s.callers.map (·.hist)) =
      some [[], [(.recv, .eoq)], [(.close, .ok)]] := by decide

/-! #### 4. `send_unseq_data` after `close()` returned does not raise the state error (it bypasses the executor) -/
def cfg4 : Cfg := { progs := [[.close, .sendUnseq, .send]], peer := [] }
def run4 : List Label :=
  rep 6 (.caller 0) ++ [.job 0] ++ rep 2 (.caller 0) ++ rep 6 .close ++ [.stop] ++ rep 2 (.caller 0) ++
  [.caller 0] ++ rep 2 (.caller 0)

theorem C20_witness_unseq_after_close :
    (exec (init cfg4) run4).map (fun s => s.callers.map (·.hist)) =
      some [[(.send, .state), (.sendUnseq, .ok), (.close, .ok)]] := by decide

def witnesses : List (String × Cfg × List Label) :=
  [("submit-after-stop", cfg1, run1), ("close-lock-deadlock", cfg2, run2),
   ("concurrent-receive", cfg3, run3), ("unseq-after-close", cfg4, run4)]

end NasdaqModel.Witness.C20
