import NasdaqModel.Model.SyncFacade
/-
C20 — the interleavings that made calls block for ever in the library before the fixes 86c1975 / 1753c2b / 564383d
(submit after stop, close_lock deadlock, forgotten second receive, send_unseq_data after close), now as REGRESSIONS:
on the model of the repaired code each of them ends with every caller returned, the thread exited, and the outcomes the
property demands.  The harness replays exactly these runs on the real classes on every check (`witness C20` of the
driver prints these terms; corpus/C20 holds the same runs for when the Lean build is unavailable).
Import-free (the driver links this file).
-/
namespace NasdaqModel.Witness.C20
open NasdaqModel.SyncFacade

def rep (n : Nat) (l : Label) : List Label := List.replicate n l

/-- the run is executable, ends in a state without enabled transition, every caller has finished, the executor thread
has exited (or not), and the histories (oldest call first) are as given -/
def endsWith (cfg : Cfg) (run : List Label) (alive : Bool) (hists : List (List (Op × Outcome))) : Bool :=
  match exec (init cfg) run with
  | none => false
  | some s =>
    terminal s && s.loopAlive == alive && s.callers.all (·.finished) && s.callers.map (·.hist.reverse) == hists

/-! #### 1. submit after stop
T0 `send_msg` passes both `_must_be_active()` checks; T1 runs a complete `close()` (the loop thread exits);
T0 then hands its coroutine to the stopped loop: `_wait_for` sees the dead thread and raises StateError. -/
def cfg1 : Cfg := { progs := [[.send], [.close]], peer := [] }
def run1 : List Label :=
  rep 3 (.caller 0) ++ rep 6 (.caller 1) ++ [.job 1] ++ rep 2 (.caller 1) ++ rep 4 .close ++ [.stop] ++
  rep 2 (.caller 1) ++ rep 2 (.caller 0)

theorem C20_regress_submit_after_stop :
    endsWith cfg1 run1 false [[(.send, .state)], [(.close, .ok)]] = true := by decide

/-! #### 2. close() holding close_lock while the peer ends the session
T0 is in `close()` holding `close_lock`; the peer ends the session, the loop thread enters `on_close_coro` (which no
longer takes the lock); T0 submits `initiate_close` while the loop thread is inside the callback; the callback
finishes, the loop stops without running the coroutine; T0's `_wait_for` raises StateError, `_shutdown` swallows it,
waits for the event, joins: close() returns. -/
def cfg2 : Cfg := { progs := [[.close]], peer := [.endOfSession] }
def run2 : List Label :=
  rep 2 (.caller 0) ++ [.peer] ++ rep 2 .close ++ rep 4 (.caller 0) ++ rep 2 .close ++ [.stop] ++ rep 4 (.caller 0)

theorem C20_regress_close_lock : endsWith cfg2 run2 false [[(.close, .ok)]] = true := by decide

/-- the state the old code deadlocked in: the loop thread is inside the callback, caller 0 owns the lock and has
submitted — and now the loop's next statement IS enabled -/
theorem C20_regress_close_lock_progress :
    (exec (init cfg2) (run2.take 9)).map (fun s => (s.closePc, s.lock, (step s .close).isSome)) =
      some (.inCb, some (.caller 0), true) := by decide

/-! #### 3. two receives, one `_recv_task` slot  (library defect that REMAINS — DispatchableMessageQueue, C04's area)
T0 and T1 both block in `receive()`; the queue remembers only T1's getter task.  `close()` by T2 cancels that one
(T1 gets EndOfQueue); T0's coroutine is never woken — but T0 no longer blocks for ever: when the loop thread has exited
`_wait_for` raises StateError.  For C20 ("returns, raises the underlying error, or raises a timeout/state error") that is
acceptable; the exception class is not the documented EndOfQueue. -/
def cfg3 : Cfg := { progs := [[.recv], [.recv], [.close]], peer := [] }
def run3 : List Label :=
  rep 3 (.caller 0) ++ [.job 0] ++ rep 3 (.caller 1) ++ [.job 1] ++ rep 6 (.caller 2) ++ [.job 2] ++
  rep 2 (.caller 2) ++ rep 4 .close ++ [.stop] ++ rep 2 (.caller 2) ++ [.caller 1, .caller 0]

theorem C20_witness_concurrent_receive_state_error :
    endsWith cfg3 run3 false [[(.recv, .state)], [(.recv, .eoq)], [(.close, .ok)]] = true := by decide

/-- … and this run is outside `okStep` (the second receive goes to wait while the first is waiting) -/
theorem C20_witness_concurrent_receive_outside_ok : execOk (init cfg3) run3 = none := by decide

/-! #### 4. `send_unseq_data` after `close()` returned now raises the state error like every other call -/
def cfg4 : Cfg := { progs := [[.close, .sendUnseq, .send]], peer := [] }
def run4 : List Label :=
  rep 6 (.caller 0) ++ [.job 0] ++ rep 2 (.caller 0) ++ rep 4 .close ++ [.stop] ++ rep 2 (.caller 0) ++
  rep 2 (.caller 0) ++ rep 2 (.caller 0)

theorem C20_regress_unseq_after_close :
    endsWith cfg4 run4 false [[(.close, .ok), (.sendUnseq, .state), (.send, .state)]] = true := by decide

def witnesses : List (String × Cfg × List Label) :=
  [("submit-after-stop", cfg1, run1), ("close-lock-deadlock", cfg2, run2),
   ("concurrent-receive", cfg3, run3), ("unseq-after-close", cfg4, run4)]

/-! #### 5. connect, then the peer's disconnect before the wrapper has installed its close callback
`soup.connect` before the fix built the wrapper on the caller's thread, after `execute(connect_async(…))` had returned:
the loop thread could process the peer's disconnect in between.  `AsyncSession.close()` then finds no callback; nothing
ever stops the executor or sets `closed_event`; a later `close()` waits for that event for ever. -/
theorem C20_witness_connect_race :
    closeReturns (connRun [.loginReturns, .sessionCloses, .install]) = false ∧
    (connRun [.loginReturns, .sessionCloses, .install]).installed = true := by decide

/-- the same three things with login and installation in one step (the repaired `connect`): `close()` returns -/
theorem C20_witness_connect_race_repaired :
    closeReturns (connRun [.loginAndInstall, .sessionCloses]) = true ∧
    closeReturns (connRun [.sessionCloses, .loginAndInstall, .sessionCloses]) = true := by decide

end NasdaqModel.Witness.C20
