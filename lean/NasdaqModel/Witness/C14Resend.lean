import NasdaqModel.Props.C14Resend
/-
C14 — machine-checked counterexamples: the semantics of the seeded change C14l (`Group.to_bytes` keeps the bytes of a group instance;
only an assignment on that very instance drops them — `FixObj.Cached`) violates the last sentence of the property on re-send
histories, exactly where `Props/C14Resend.lean` proves the code right: the frame written after an in-place change BELOW a group
instance (a field of a nested instance, a nested instance replaced or appended) is self-consistent (BodyLength, CheckSum) but is not
the frame of the message the object holds, and the reader decodes it to a message that is not the one sent.
The same histories under the code's semantics (`FixObj.run`) are the regression half; the harness replays them on the
implementation every run (corpus/C14/resend-nested-*.json).
-/
namespace NasdaqModel.Witness.C14Resend
open NasdaqModel Py Fix FixFrame FixObj FixObj.Cached Props.C14Resend

def has (pat f : Bytes) : Bool := (findSub pat f).isSome

/-- what the reader decodes from a frame, body only -/
def decodedBody (f : Bytes) : Option Seg :=
  match decodeMsg [exDef] f with
  | .ok r => some r.2.2.body
  | .error _ => none

/-- both semantics on one history: the frames of the remembering encoder, the frames of the code, and whether they leave the same
    message in the object -/
def both (ops : List Op) : Option (List Bytes × List Bytes × Msg) :=
  match runC resendVer exDef resendSess [] exMsg ops, run resendVer exDef resendSess exMsg ops with
  | .ok (cs, mc), .ok (fs, mf) => if pyEq mc mf then some (cs, fs, mf) else none
  | _, _ => none

/-- send; `legs[0].parties[1].NestedPartyID = 'XX'` (a field two levels down, in place); send -/
abbrev nestedField : List Op := resendNestedField

/-- With remembered instance bytes the second frame still says `524=D2`: it is not the frame of the message the object holds
    (`524=XX`), and what the reader decodes from it is not that message.  The first frames agree; both semantics leave the same
    message in the object. -/
theorem C14_witness_stale_nested_field :
    (match both nestedField with
     | some ([c1, c2], [f1, f2], mf) =>
         c1 == f1 && c2 != f2 && has [1, 53, 50, 52, 61, 68, 50, 1] c2 && !has [1, 53, 50, 52, 61, 88, 88, 1] c2 &&
         (match decodedBody c2 with
          | some b => !segEq b (canonSeg exDef.body mf.body)
          | none => false)
     | _ => false) = true := by decide +kernel

/-- the code on the same history: the second frame carries `524=XX` and decodes to the message the object holds -/
theorem C14_witness_nested_field_code :
    (match both nestedField with
     | some (_, [_, f2], mf) =>
         has [1, 53, 50, 52, 61, 88, 88, 1] f2 && !has [1, 53, 50, 52, 61, 68, 50, 1] f2 &&
         (match decodedBody f2 with
          | some b => segEq b (canonSeg exDef.body mf.body)
          | none => false)
     | _ => false) = true := by decide +kernel

/-- send; `legs[0].parties[0] = Party(NestedPartyID='D0')` (a nested instance replaced); send; a party appended to the leg; send -/
abbrev nestedList : List Op := resendNestedList

/-- Replacing or appending an instance of the nested list assigns nothing on the enclosing instance: with remembered bytes the
    second and third frames are the first frame's content again (`524=D1`, `539=2`), the code writes `524=D0` and `539=3 … 524=ZZ`. -/
theorem C14_witness_stale_nested_list :
    (match both nestedList with
     | some ([_, c2, c3], [_, f2, f3], _) =>
         c2 != f2 && c3 != f3 && has [1, 53, 50, 52, 61, 68, 49, 1] c2 && !has [1, 53, 50, 52, 61, 68, 48, 1] c2 && has [1, 53, 51, 57, 61, 50, 1] c3 && !has [1, 53, 50, 52, 61, 90, 90, 1] c3 &&
         has [1, 53, 50, 52, 61, 68, 48, 1] f2 && !has [1, 53, 50, 52, 61, 68, 49, 1] f2 && has [1, 53, 51, 57, 61, 51, 1] f3 && has [1, 53, 50, 52, 61, 90, 90, 1] f3
     | _ => false) = true := by decide +kernel

/-- send; a field of the OUTER instance assigned (`legs[0].LegSymbol = 'B'`); send; the nested field assigned and then the outer
    one again; send -/
abbrev outerField : List Op := resendOuterField

/-- Where the change is right (what made it pass every test that edits flat groups): an assignment on the enclosing instance
    itself — alone, or after the nested edit — makes the remembering encoder write the same frames as the code. -/
theorem C14_witness_outer_assignment_agrees :
    (match both outerField with
     | some (cs, fs, _) => cs == fs && cs.length == 3
     | none => false) = true := by decide +kernel

end NasdaqModel.Witness.C14Resend
