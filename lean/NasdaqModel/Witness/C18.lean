import NasdaqModel.Model.Heap
/-
C18 — machine-checked counterexample to the full statement on the model of the code as it is
(known finding "shared-array-default", DESIGN §6 #15).

History (the driver prints exactly this term for `heap.witness`; the harness replays it on the implementation every run):
two instances of a message with an array field; `a.items.append(7)` on the never-assigned array of instance 0.
The operation is about instance 0, yet instance 1 — and an instance created afterwards — read and encode `[7]`.
-/
namespace NasdaqModel.Witness.C18
open NasdaqModel Heap

def S := witnessSchema
def before : Heap := run S init (witnessOps.take 2)
def after : Heap := run S init (witnessOps.take 3)
def later : Heap := run S init witnessOps

/-- the offending operation is about instance 0, not about instance 1 -/
theorem C18_witness_target : witnessBadOp.target before = 0 := by
  decide

/-- it is exactly the kind of operation the `_partial` theorems exclude: it writes into the class-level cell -/
theorem C18_witness_not_class_safe : safeRun S init witnessOps = false ∧ writeOwner S before witnessBadOp = some Owner.cls := by
  decide

/-- instance 1 encodes an empty array before and `[7]` after an operation on instance 0 -/
theorem C18_witness_shared_default :
    encodeInst S before 1 = .ok [65, 0, 0, 0, 0] ∧ encodeInst S after 1 = .ok [65, 0, 0, 1, 0, 7] := by
  decide

/-- and so does an instance created later -/
theorem C18_witness_created_later : encodeInst S later 2 = .ok [65, 0, 0, 1, 0, 7] := by
  decide

/-- the full frame statement (Props/C18.lean header) is false of the model of the unchanged code -/
theorem C18_witness_full_statement_false :
    ¬ (∀ (S : Schema) (ops : List Op) (op : Op) (b : Nat), b ≠ op.target (run S init ops) →
        encodeInst S (run S init (ops ++ [op])) b = encodeInst S (run S init ops) b) := by
  intro h
  have := h S (witnessOps.take 2) witnessBadOp 1 (by decide)
  revert this
  decide

end NasdaqModel.Witness.C18
