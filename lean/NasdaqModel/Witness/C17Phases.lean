import NasdaqModel.Model.GenHistory
/-
C17 at the granularity of the generator API — what the model exhibits when `Definitions.get_codegen_context` empties
`Group.Contexts` in place (`Group.Contexts.clear()`, `clearInPlace`: `current` with `rebindContexts := false`) instead of binding
the class attribute to a new list: the context a FIX `Generator` captured when it was constructed holds *a reference to that one
list*, so constructing a second generator between the construction of the first and its `generate()` empties and refills the
first one's groups.  Whole invocations (construct and generate back to back), in any number and order, do not show it.
The histories (`histories`) are replayed on the implementation by harness/c17.py on every run.
-/
namespace NasdaqModel.Witness.C17Phases
open NasdaqModel GenHistory

/-- the library with the in-place reset -/
def clearInPlace : Semantics := { current with rebindContexts := false }

def optsG (d : Nat) : GenOpts := ⟨[103], [], true, .out d, true⟩   -- app "g"
def optsH (d : Nat) : GenOpts := ⟨[104], [], true, .out d, true⟩   -- app "h"
def fixA : FixSpec := ⟨1, 44, [1, 2], [1], [.mk 1 [2] [.mk 2 [1] []]], [1, 2]⟩     -- NoG1 [F2, NoG2 [F1]]
def fixB : FixSpec := ⟨2, 44, [3], [3], [.mk 1 [3] []], [1]⟩                        -- NoG1 [F3]
def fixN : FixSpec := ⟨3, 50, [1], [1], [], []⟩                                      -- no groups
def soupA : SoupSpec := ⟨1, some [(1, 0), (2, 1)], [1, 2], [65, 66]⟩
def soupC : SoupSpec := ⟨2, some [(1, 3)], [1], [65]⟩
def asnA : Asn1Spec := ⟨[([97, 46, 97, 115, 110, 49], 1)]⟩      -- "a.asn1"
def asnB : Asn1Spec := ⟨[([98, 46, 97, 115, 110, 49], 2)]⟩      -- "b.asn1"
def pdu : Str := [80, 100, 117, 49]
def pkg (d : Nat) : Str := [100, 48 + d]                          -- "d<d>"
def groupsG : Str := [102, 105, 120, 95, 103, 95, 103, 114, 111, 117, 112, 115, 46, 112, 121]   -- "fix_g_groups.py"
def mpG : Str := [102, 105, 120, 95, 103]                                                        -- "fix_g"

/-- two generators prepared, then written (the build-script order) -/
def hPrepareThenWrite : List Ev :=
  [.construct 0 (.fix fixA (optsG 1)), .construct 1 (.fix fixB (optsH 2)), .generate 0, .generate 1]
/-- the second one is a whole invocation between the halves of the first -/
def hInvocationBetween : List Ev :=
  [.construct 0 (.fix fixA (optsG 1)), .inv (.fix fixB (optsH 2)), .generate 0]
/-- a dictionary without groups prepared first -/
def hNoGroupsFirst : List Ev :=
  [.construct 0 (.fix fixN (optsG 1)), .construct 1 (.fix fixA (optsH 2)), .generate 0, .generate 1, .generate 0]
/-- back to back -/
def hSequential : List Ev :=
  [.construct 0 (.fix fixA (optsG 1)), .generate 0, .construct 1 (.fix fixB (optsH 2)), .generate 1]
def hSoup : List Ev :=
  [.construct 0 (.soup .ouch soupA (optsG 1)), .construct 1 (.soup .itch soupC (optsH 2)), .generate 1, .generate 0]
def hAsn1 : List Ev :=
  [.construct 0 (.asn1 asnA pdu (pkg 1) (optsG 1)), .construct 1 (.asn1 asnB pdu (pkg 2) (optsH 2)), .generate 0, .generate 1]

def histories : List (String × List Ev) :=
  [("witness-phases-prepare-then-write", hPrepareThenWrite), ("witness-phases-invocation-between", hInvocationBetween),
   ("witness-phases-no-groups-first", hNoGroupsFirst), ("witness-phases-sequential", hSequential),
   ("witness-phases-soup", hSoup), ("witness-phases-asn1", hAsn1)]

theorem C17_witness_clear_in_place_not_pure : pureGen clearInPlace = false := by decide

/-- **Prepare, then write.**  Generator 0 (dictionary A: NoG1 [F2, NoG2 [F1]]) writes dictionary B's group class
    (NoG1_1 [F3]) into its groups module; its bodies module still asks for `NoG1_1`, which now is B's class.  Here the package
    does not even import (A's fields module has no F3); when B's fields exist in A as well, it imports and the group is silently
    wired to the other dictionary's members.  Alone, and for the library as it is, A's own three classes. -/
theorem C17_witness_clear_in_place_prepare_then_write :
    let w := run clearInPlace w0 (hPrepareThenWrite.take 2)
    (generate clearInPlace w 0).2 = .ok ()
    ∧ read (generate clearInPlace w 0).1.fs (.out 1, groupsG) = some [.fixGroups mpG [⟨1, 1, [.field 3]⟩]]
    ∧ read (invoke clearInPlace w0 (.fix fixA (optsG 1))).1.fs (.out 1, groupsG)
        = some [.fixGroups mpG [⟨2, 1, [.field 1]⟩, ⟨2, 2, [.field 1]⟩, ⟨1, 1, [.field 2, .group 2 2]⟩]]
    ∧ importAfterGenerate clearInPlace w 0 = .error .attr           -- `fields` of A has no F3
    ∧ read (generate current (run current w0 (hPrepareThenWrite.take 2)) 0).1.fs (.out 1, groupsG)
        = read (invoke current w0 (.fix fixA (optsG 1))).1.fs (.out 1, groupsG) := by decide

/-- the same with a whole invocation of B between the two halves of A -/
theorem C17_witness_clear_in_place_invocation_between :
    let w := run clearInPlace w0 (hInvocationBetween.take 2)
    read (generate clearInPlace w 0).1.fs (.out 1, groupsG) = some [.fixGroups mpG [⟨1, 1, [.field 3]⟩]] := by decide

/-- a dictionary WITHOUT groups gets the other dictionary's group classes (and imports: nothing refers to them) -/
theorem C17_witness_clear_in_place_no_groups_first :
    let w := run clearInPlace w0 (hNoGroupsFirst.take 2)
    read (generate clearInPlace w 0).1.fs (.out 1, groupsG)
        = some [.fixGroups mpG [⟨2, 1, [.field 1]⟩, ⟨2, 2, [.field 1]⟩, ⟨1, 1, [.field 2, .group 2 2]⟩]]
    ∧ read (invoke clearInPlace w0 (.fix fixN (optsG 1))).1.fs (.out 1, groupsG) = some [.fixGroups mpG []] := by decide

/-- Not exposed by whole invocations, however many: construct and generate back to back give the fresh files. -/
theorem C17_witness_clear_in_place_sequential_hidden :
    (run clearInPlace w0 hSequential).fs = (run clearInPlace w0 [.inv (.fix fixA (optsG 1)), .inv (.fix fixB (optsH 2))]).fs
    ∧ (run clearInPlace w0 [.inv (.fix fixA (optsG 1)), .inv (.fix fixB (optsH 2))]).fs
        = (run current w0 [.inv (.fix fixA (optsG 1)), .inv (.fix fixB (optsH 2))]).fs := by decide

/-- the pre-repair library (`actual`: the one list never emptied) shared the list between generator objects as well -/
theorem C17_witness_actual_shares_groups :
    sharedGroupsOf actual (.fix fixA (optsG 1)) = some mpG ∧ sharedGroupsOf current (.fix fixA (optsG 1)) = none := by decide

end NasdaqModel.Witness.C17Phases
