import NasdaqModel.Model.GenSoupApp
/-
C15 — a def-reference (`<field def="X"/>`, `<field name="Y" def="X"/>`) never changes the table of reusable definitions.

The model's parser (`GenSoupApp.parse`) resolves every reference against ONE table, computed from the `fielddef-root`
section before the first record is read, and hands that same table to every record and message: that a reference leaves
the table alone is true there by construction.  To be able to SAY it — and to refute the alternative — this file gives
the parser with the table threaded through the file in document order (records, then messages; inside each, element by
element), generic in what a resolved reference does to the table afterwards (`Reg`):

* `regNone`   — nothing: the library (`Props/C15Defs.lean` proves `parseT regNone` is `parse`, the table that comes out
                is the table of the `fielddef-root` section, and elements standing before an element never change what it
                parses to);
* `regRename` — `FieldDef.Definitions[field.name] = field`: every reference registers its (possibly renamed) copy, "so
                that `<field def="bidPrice"/>` may follow `<field name="bidPrice" def="price"/>`" — a seeded change.
                Harmless while the new name is fresh; as soon as the new name is the name of ANOTHER definition that
                definition is replaced for the rest of the file, and what a later `<field def="id"/>` means depends on
                what stands before it.  Refuted below on concrete well-formed specifications by `decide`.

The driver prints these specifications (`witness C15`) and the harness runs them on the implementation every run.
-/
namespace NasdaqModel.Witness.C15Defs
open NasdaqModel GenSoupApp

/-! ### the parser with `FieldDef.Definitions` threaded through the file -/

/-- what `_parse_field` does to `FieldDef.Definitions` after it resolved a reference to the (renamed) copy `f` -/
abbrev Reg := FieldDefs → FieldDef → FieldDefs

/-- the library: a reference defines nothing -/
def regNone : Reg := fun t _ => t

/-- NOT the library: `FieldDef.Definitions[field.name] = field` -/
def regRename : Reg := fun t f => dictSet t f.name f

/-- `Parser._parse_field`, returning the table as the element leaves it -/
def parseFieldT (reg : Reg) (defs : FieldDefs) (e : FieldEl) : Except Err (FieldDef × FieldDefs) :=
  let plain : FieldDef := ⟨e.name, e.ty, e.ref, e.array, e.length, e.dflt, e.endian⟩
  match e.defn with
  | none => .ok (plain, defs)
  | some d =>
    if d.isEmpty then .ok (plain, defs)
    else match dictGet? defs (some d) with
      | none => .error .key
      | some fd => .ok ({ fd with name := nameOr e.name fd.name }, reg defs { fd with name := nameOr e.name fd.name })

/-- `Parser._parse_fields`: element by element, each against the table the previous one left -/
def parseFieldsT (reg : Reg) : FieldDefs → List FieldEl → Except Err (List FieldDef × FieldDefs)
  | defs, [] => .ok ([], defs)
  | defs, e :: es =>
    match parseFieldT reg defs e with
    | .error x => .error x
    | .ok (f, t) =>
      match parseFieldsT reg t es with
      | .error x => .error x
      | .ok (fs, t') => .ok (f :: fs, t')

/-- `Parser._parse_records` -/
def parseRecordsT (reg : Reg) : FieldDefs → List RecordEl → Except Err (List (Str × RecordDef) × FieldDefs)
  | defs, [] => .ok ([], defs)
  | defs, r :: rs =>
    match parseFieldsT reg defs r.fields with
    | .error x => .error x
    | .ok (fs, t) =>
      match parseRecordsT reg t rs with
      | .error x => .error x
      | .ok (out, t') => .ok ((r.name, ⟨r.name, fs⟩) :: out, t')

/-- `Parser._parse_messages` -/
def parseMessagesT (reg : Reg) (override : Bool) :
    FieldDefs → List (Str × MessageDef) → List MessageEl → Except Err (List (Str × MessageDef) × FieldDefs)
  | defs, acc, [] => .ok (acc, defs)
  | defs, acc, e :: es =>
    match parseFieldsT reg defs e.fields with
    | .error x => .error x
    | .ok (fs, t) =>
      match convertMsgId e.msgId with
      | .error x => .error x
      | .ok id =>
        if (dictGet? acc (msgKey ⟨e.name, id, e.group, fs, e.direction⟩)).isSome && !override then .error .value
        else parseMessagesT reg override t
              (dictSet acc (msgKey ⟨e.name, id, e.group, fs, e.direction⟩) ⟨e.name, id, e.group, fs, e.direction⟩) es

/-- `Parser.parse`: the definitions, and `FieldDef.Definitions` as the end of the file leaves it -/
def parseT (reg : Reg) (override : Bool) (s : Spec) : Except Err (Definitions × FieldDefs) :=
  match parseFieldDefs s.fielddefs with
  | .error x => .error x
  | .ok defs =>
    match parseRecordsT reg defs s.records with
    | .error x => .error x
    | .ok (recs, t1) =>
      match parseMessagesT reg override t1 [] s.messages with
      | .error x => .error x
      | .ok (msgs, t2) =>
        .ok (⟨dictOfList (s.enums.map fun e => (e.name, e)), dictOfList recs, msgs.map (·.2)⟩, t2)

/-- the `generate` entry point on top of the threaded parser -/
def genT (reg : Reg) (impl : Impl) (app : Str) (override : Bool) (s : Spec) : Except Err Module :=
  match parseT reg override s with
  | .error x => .error x
  | .ok (d, _) => genDefs impl app d

/-! ### the specifications -/

def fld (name ty : String) : FieldEl := { name := some (cp name), ty := some (cp ty) }
/-- `<field def="d"/>` -/
def refTo (d : String) : FieldEl := { defn := some (cp d) }
/-- `<field name="n" def="d"/>` -/
def refAs (n d : String) : FieldEl := { name := some (cp n), defn := some (cp d) }

def ack : MessageEl := ⟨cp "Ack", cp "A", none, some (cp "outgoing"), [refTo "id", refTo "orderId"]⟩
/-- uses `orderId` under the name `id` — the name of another definition -/
def cancel : MessageEl := ⟨cp "Cancel", cp "C", none, some (cp "outgoing"), [refAs "id" "orderId", refAs "open" "quantity"]⟩
def reject : MessageEl := ⟨cp "Reject", cp "R", none, some (cp "outgoing"), [refTo "id", fld "reason" "uint_2", refTo "quantity"]⟩

def defs3 : List FieldEl := [fld "orderId" "uint_8", fld "id" "uint_4", fld "quantity" "uint_4_be"]

/-- definitions `orderId` (8 bytes) and `id` (4 bytes); `Cancel` stands between two messages that use `id` itself -/
def shadow (msgs : List MessageEl := [ack, cancel, reject]) : Spec :=
  { enums := [], fielddefs := defs3, records := [], messages := msgs }

/-- the renaming reference inside a RECORD, the definition of that name referenced (renamed) before and after it in the
    same record, as it is in a later record and in a message; one definition is an array with a big-endian count, one is
    named like the record -/
def shadowInRecord : Spec where
  enums := [⟨cp "Side", some (cp "char_ascii"), [⟨cp "Buy", cp "B"⟩, ⟨cp "Sell", cp "S"⟩]⟩]
  fielddefs := [{ fld "px" "int_8_be" with dflt := some (cp "-1") },
                { fld "Leg" "uint_2" with array := some (cp "true"), endian := some (cp "big") },
                { fld "side" "enum:Side" with dflt := some (cp "S") }]
  records := [⟨cp "Leg", [refAs "before" "Leg", refAs "Leg" "px", refAs "after" "Leg", refAs "Side" "side"]⟩,
              ⟨cp "Strategy", [refTo "Leg", refAs "first" "px", { fld "legs" "record:Leg" with array := some (cp "true") }]⟩]
  messages := [⟨cp "Quote", cp "81", none, some (cp "incoming"),
                 [refTo "px", refAs "side" "Leg", refTo "Leg", fld "one" "record:Leg", refAs "Side" "side"]⟩]

def tysOf (sch : Schema) : List (List Ty) :=
  sch.records.map (fun r => r.fields.map (·.ty)) ++ sch.messages.map (fun g => g.fields.map (·.ty))

/-- the library's generator: well-formed, the module is what the specification denotes, and `id` by reference is 4 bytes
    in `Ack` and in `Reject`, 8 bytes (the renamed `orderId`) in `Cancel` -/
theorem C15Defs_regress_shadow :
    wfSpec .itch shadow = true ∧ wfSpec .ouch shadow = true ∧ wfSpec .sqf shadowInRecord = true
    ∧ (gen .itch (cp "app") true shadow >>= evalModule) = denote .itch shadow
    ∧ (gen .sqf (cp "app") false shadowInRecord >>= evalModule) = denote .sqf shadowInRecord
    ∧ (∃ sch, (gen .itch (cp "app") true shadow >>= evalModule) = .ok sch
        ∧ tysOf sch = [[.prim .uint4, .prim .uint8], [.prim .uint8, .prim .uint4be], [.prim .uint4, .prim .uint2, .prim .uint4be]]) := by
  refine ⟨by decide, by decide, by decide, by decide, by decide, ⟨_, rfl, by decide⟩⟩

/-- with the table threaded and nothing registered the generator is the library's (on these; for every specification:
    `Props/C15Defs.lean`) -/
theorem C15Defs_regress_threaded_none :
    genT regNone .itch (cp "app") true shadow = gen .itch (cp "app") true shadow
    ∧ genT regNone .sqf (cp "app") false shadowInRecord = gen .sqf (cp "app") false shadowInRecord := by
  refine ⟨by decide, by decide⟩

/-- a reference that registers itself: `Reject.id`, declared `<field def="id"/>`, is generated with the type of `orderId`
    (8 bytes instead of 4) because `Cancel` stands before it; `Ack.id`, before `Cancel`, is right -/
theorem C15Defs_witness_registering_reference_differs :
    (genT regRename .itch (cp "app") true shadow >>= evalModule) ≠ denote .itch shadow
    ∧ (∃ sch, (genT regRename .itch (cp "app") true shadow >>= evalModule) = .ok sch
        ∧ tysOf sch = [[.prim .uint4, .prim .uint8], [.prim .uint8, .prim .uint4be], [.prim .uint8, .prim .uint2, .prim .uint4be]]) := by
  refine ⟨by decide, ⟨_, rfl, by decide⟩⟩

/-- … and the result depends on the ORDER of the messages in the file: with `Reject` before `Cancel` the same three
    elements give the specified classes.  The specification's meaning does not depend on it (last clause; for every
    specification: `C15Defs_field_meaning_is_local`). -/
theorem C15Defs_witness_order_dependent :
    (genT regRename .itch (cp "app") true (shadow [ack, reject, cancel]) >>= evalModule) = denote .itch (shadow [ack, reject, cancel])
    ∧ (∃ a b, (genT regRename .itch (cp "app") true (shadow [ack, reject, cancel]) >>= evalModule) = .ok a
        ∧ (genT regRename .itch (cp "app") true (shadow [ack, cancel, reject]) >>= evalModule) = .ok b
        ∧ a.messages.filter (·.name == cp "Reject") ≠ b.messages.filter (·.name == cp "Reject"))
    ∧ (∃ a b, denote .itch (shadow [ack, reject, cancel]) = .ok a ∧ denote .itch (shadow [ack, cancel, reject]) = .ok b
        ∧ a.messages.filter (·.name == cp "Reject") = b.messages.filter (·.name == cp "Reject")) := by
  refine ⟨by decide, ⟨_, _, rfl, rfl, by decide⟩, ⟨_, _, rfl, rfl, by decide⟩⟩

/-- the same inside a record: after `<field name="Leg" def="px"/>` every `def="Leg"` — later in the same record, in the
    next record, in the message — is an 8-byte integer with default −1 instead of the array of `uint_2`; and the message's
    own `<field name="side" def="Leg"/>` replaces the definition `side` for the `<field name="Side" def="side"/>` after it -/
theorem C15Defs_witness_in_record :
    (genT regRename .sqf (cp "app") false shadowInRecord >>= evalModule) ≠ denote .sqf shadowInRecord
    ∧ (∃ sch, denote .sqf shadowInRecord = .ok sch
        ∧ tysOf sch = [[.array (.prim .uint2) (.prim .uint2be), .prim .int8be, .array (.prim .uint2) (.prim .uint2be), .prim .charAscii],
                       [.array (.prim .uint2) (.prim .uint2be), .prim .int8be, .array (.record (cp "Leg")) (.prim .uint2)],
                       [.prim .int8be, .array (.prim .uint2) (.prim .uint2be), .array (.prim .uint2) (.prim .uint2be),
                        .record (cp "Leg"), .prim .charAscii]])
    ∧ (∃ sch, (genT regRename .sqf (cp "app") false shadowInRecord >>= evalModule) = .ok sch
        ∧ tysOf sch = [[.array (.prim .uint2) (.prim .uint2be), .prim .int8be, .prim .int8be, .prim .charAscii],
                       [.prim .int8be, .prim .int8be, .array (.record (cp "Leg")) (.prim .uint2)],
                       [.prim .int8be, .prim .int8be, .prim .int8be, .record (cp "Leg"), .prim .int8be]]) := by
  refine ⟨by decide, ⟨_, rfl, by decide⟩, ⟨_, rfl, by decide⟩⟩

/-- new names that are fresh (`bidPrice` / `askPrice` of one `price`: every specification of the library's suite): the
    registering variant generates the same module — the reason a suite without colliding names cannot tell them apart -/
def freshNames : Spec where
  enums := []
  fielddefs := [fld "price" "int_8", fld "size" "uint_4"]
  records := [⟨cp "Level", [refAs "bidPrice" "price", refAs "askPrice" "price", refTo "size"]⟩]
  messages := [⟨cp "Top", cp "T", none, some (cp "outgoing"),
                 [refTo "price", refAs "last" "price", refTo "size", fld "level" "record:Level"]⟩]

theorem C15Defs_registering_agrees_on_fresh_names :
    wfSpec .itch freshNames = true
    ∧ genT regRename .itch (cp "app") true freshNames = gen .itch (cp "app") true freshNames := by
  refine ⟨by decide, by decide⟩

end NasdaqModel.Witness.C15Defs
