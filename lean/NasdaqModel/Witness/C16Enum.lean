import NasdaqModel.Lemmas.GenFixLoad
/-
C16 — former finding (/verif/fixes/C16-enum-values-escaped.md), repaired by /repo commit 8c9ad6b: the fields template rendered the
enumerated value of a FIX field with double braces, i.e. through chevron's HTML escaping (`&` → `&amp;`, `"` → `&quot;`, `<` → `&lt;`,
`>` → `&gt;`): dictionary value `<` became the python constant `'&lt;'`.  `genEscaped` is the generator with that rendering; on the
dictionary of the report it differs from the dictionary's values, while `GenFix.gen` (the repaired code) gives them verbatim
(`Props/C16Enum.C16Enum_values_verbatim` for every dictionary).  The dictionary is replayed on the implementation every run
(corpus/C16/enum-values-special-chars.json).
-/
namespace NasdaqModel.Witness.C16Enum
open NasdaqModel Py GenFix Spec.FixDict

/-- chevron's `_html_escape` -/
def htmlEscape : Str → Str
  | [] => []
  | c :: t =>
    (if c = 38 then lit "&amp;" else if c = 34 then lit "&quot;" else if c = 60 then lit "&lt;" else if c = 62 then lit "&gt;"
     else [c]) ++ htmlEscape t

/-- the generated code before 8c9ad6b: every enumerated value rendered with `{{f_name}}` -/
def genEscaped (d : Dict) : Except Err Module :=
  match gen d with
  | .error e => .error e
  | .ok m => .ok { m with fields := m.fields.map fun f => { f with values := f.values.map fun v => { v with key := htmlEscape v.key } } }

def keysOf (r : Except Err Module) : Option (List (List Str)) := r.toOption.map fun m => m.fields.map fun f => f.values.map (·.key)

/-- the dictionary of the report: a CHAR field with the values `<` and `&`, a STRING field with `a>b` and `"` -/
def dictCmp : Dict := ⟨.v44, [
    .messages [⟨lit "M", lit "D", lit "app", [.field (lit "Cmp") (some (lit "Y")), .field (lit "Txt") (some (lit "N"))]⟩],
    .fields [⟨lit "700", lit "Cmp", lit "CHAR", [⟨lit "<", lit "Less"⟩, ⟨lit "&", lit "And"⟩]⟩,
             ⟨lit "701", lit "Txt", lit "STRING", [⟨lit "a>b", lit "Gt"⟩, ⟨lit "\"", lit "DQuote"⟩]⟩]]⟩

theorem C16Enum_witness_valid : wfDictE dictCmp = true := by decide

/-- the repaired generator: the dictionary's values -/
theorem C16Enum_witness_verbatim : keysOf (gen dictCmp) = some [[lit "<", lit "&"], [lit "a>b", lit "\""]] := by decide

/-- the escaping generator: HTML entities instead -/
theorem C16Enum_witness_escaped :
    keysOf (genEscaped dictCmp) = some [[lit "&lt;", lit "&amp;"], [lit "a&gt;b", lit "&quot;"]] ∧
    keysOf (genEscaped dictCmp) ≠ keysOf (gen dictCmp) := by decide

end NasdaqModel.Witness.C16Enum
