import NasdaqModel.Lemmas.RefineInstances
/-
Witness for C04 at byte level (FIX only, hostile input): with a NEGATIVE BodyLength the frame `FixMessageReader.deserialize`
cuts is `buf[:n]` with `n < 0` — counted from the end of whatever has arrived so far — so WHICH bytes form the message depends
on TCP segmentation and on when the reader polls.  Segmentation independence of tokens, and with it "the consumer is handed a
prefix of the decodable messages carried by the bytes received", fail without the stability hypothesis (`stable … fixSt`) of
`Props/C04Bytes.lean`.  Reproduced against the unchanged reader (`/repo/src/nasdaq_protocols/fix/_reader.py`, test-suite
dictionary): same two schedules, same two outcomes (see /verif/fixes/C04-fix-negative-bodylength.md).
-/
namespace NasdaqModel.Witness.C04Bytes
open NasdaqModel Py Refine
open NasdaqModel.Framing (Proto fixProtoD)

/-- dictionary with the message types `0` (heartbeat), `5` (logout), `M`; every field-level decode succeeds -/
def known : Bytes → Bool := fun ty => ty == [48] || ty == [53] || ty == [77]
def decode : Bytes → Except Err Unit := fun _ => .ok ()
def PD : Proto Bytes := fixProtoD known decode

/-- `8=FIX.4.4|9=-25|35=M|1=7|2=`  — BodyLength −25: computed frame length 16 − 25 + 7 = −2 -/
def s1 : Bytes := [56,61,70,73,88,46,52,46,52,1, 57,61,45,50,53,1, 51,53,61,77,1, 49,61,55,1, 50,61]
/-- `x|ZZ` -/
def s2 : Bytes := [120,1, 90,90]
/-- `8=FIX.4.4|9=-25|35=M|1=7|` -/
def m1 : Bytes := s1.take 25
/-- `8=FIX.4.4|9=-25|35=M|1=7|2=x|` -/
def m2 : Bytes := (s1 ++ s2).take 29

theorem C04_bytes_witness_unstable : fixSt s1 = false ∧ stable PD fixSt (s1 ++ s2) = false := by decide

/-- tokens are NOT independent of segmentation here: cut after `2=` the stream carries the message `…|1=7|`, whole it carries
    `…|1=7|2=x|` -/
theorem C04_bytes_witness_tokens_depend_on_cut :
    tokens PD s1 = ⟨[.msg m1], [50, 61], false⟩ ∧
    (tokens PD s1).extend PD s2 = ⟨[.msg m1], [50, 61, 120, 1, 90, 90], false⟩ ∧
    tokens PD (s1 ++ s2) = ⟨[.msg m2], [90, 90], false⟩ := by decide

/-- the byte-level reader (C03 machine): an early poll hands on `m1`, a late poll `m2` — same bytes, different message; and what
    the early poll handed on is not a prefix of what all the bytes received carry -/
theorem C04_bytes_witness_schedule_dependent :
    (Framing.run PD [.data s1, .tick, .data s2, .tick]).out = [m1] ∧
    (Framing.run PD [.data s1, .data s2, .tick, .tick]).out = [m2] ∧
    carried PD (s1 ++ s2) = [m2] ∧
    ¬ ((Framing.run PD [.data s1, .tick, .data s2, .tick]).out <+: carried PD (s1 ++ s2)) := by decide

/-- (`9=-25|35=0|`) a poll before the next bytes arrive raises `KeyError('')` (empty message type) and stops the reader, a poll
    after them consumes a "heartbeat" `…|35=0|10=00` and the reader stays open -/
def h1 : Bytes := [56,61,70,73,88,46,52,46,52,1, 57,61,45,50,53,1, 51,53,61,48,1]
def h2 : Bytes := [49,48,61,48,48,48,1]
theorem C04_bytes_witness_close_or_not :
    (Framing.run PD [.data h1, .tick, .data h2, .tick]).stopped = true ∧
    (Framing.run PD [.data h1, .tick, .data h2, .tick]).failed = some .key ∧
    (Framing.run PD [.data h1, .data h2, .tick, .tick]).stopped = false ∧
    (Framing.run PD [.data h1, .data h2, .tick, .tick]).buf = [48, 1] := by decide

end NasdaqModel.Witness.C04Bytes
