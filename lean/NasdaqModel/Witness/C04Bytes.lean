import NasdaqModel.Lemmas.RefineInstances
/-
Witness for C04 at byte level (FIX only, hostile input) — the PRE-REPAIR reader, kept as a decided regression.

Before /repo 658ee1f `FixMessageReader.deserialize` accepted a NEGATIVE BodyLength: the frame it cut was `buf[:n]` with `n < 0` —
counted from the end of whatever had arrived so far — so WHICH bytes formed the message depended on TCP segmentation and on when
the reader polled.  Segmentation independence of tokens, and with it "the consumer is handed a prefix of the decodable messages
carried by the bytes received", failed.  Reproduced against the reader of /repo 8c9ad6b (test-suite dictionary): same two
schedules, same two outcomes (/verif/fixes/C04-fix-negative-bodylength.md).  `fixDeserOld` is that reader (Model/Framing.lean
before the repair, verbatim); the last theorems are the repaired counterpart on the same inputs.
-/
namespace NasdaqModel.Witness.C04Bytes
open NasdaqModel Py Refine
open NasdaqModel.Framing (Proto find tag35 EQ SOH pySlice pySliceTo pySliceFrom getMsgType fixIsLogout fixIsHeartbeat fixDeser fixDeserD fixProtoD)

/-- `FixMessageReader.deserialize` BEFORE the repair: no check of the sign of BodyLength -/
def fixDeserOld (buf : Bytes) : Except Err (Option (Bytes × Bytes)) :=
  match find buf tag35 0 with
  | none => .ok none
  | some _ =>
    match find buf [EQ] 2 with
    | none => .ok none
    | some start =>
      match find buf [SOH] start with
      | none => .ok none
      | some end_ => do
        let n ← parseIntBytes (pySlice buf ((start : Int) + 1) end_)
        let msgLen : Int := ((end_ : Int) + 1) + n + 7
        if (buf.length : Int) < msgLen then pure none
        else pure (some (pySliceTo buf msgLen, pySliceFrom buf msgLen))

/-- … with the dictionary dispatch (as `Framing.fixDeserD`) -/
def fixDeserDOld (known : Bytes → Bool) (decode : Bytes → Except Err Unit) (buf : Bytes) : Except Err (Option (Bytes × Bytes)) :=
  match fixDeserOld buf with
  | .error e => .error e
  | .ok none => .ok none
  | .ok (some (f, rest)) =>
    if known (getMsgType f) then
      match decode f with
      | .ok _ => .ok (some (f, rest))
      | .error e => .error e
    else .error .key

/-- the frame length the pre-repair reader computed, when it got that far; its stability test: that length is not negative -/
def fixFrameLenOld (buf : Bytes) : Option Int :=
  match find buf tag35 0 with
  | none => none
  | some _ =>
    match find buf [EQ] 2 with
    | none => none
    | some start =>
      match find buf [SOH] start with
      | none => none
      | some end_ =>
        match parseIntBytes (pySlice buf ((start : Int) + 1) end_) with
        | .error _ => none
        | .ok n => some (((end_ : Int) + 1) + n + 7)

def fixStOld (buf : Bytes) : Bool :=
  match fixFrameLenOld buf with
  | some l => decide (0 ≤ l)
  | none => true

/-- dictionary with the message types `0` (heartbeat), `5` (logout), `M`; every field-level decode succeeds -/
def known : Bytes → Bool := fun ty => ty == [48] || ty == [53] || ty == [77]
def decode : Bytes → Except Err Unit := fun _ => .ok ()
/-- the pre-repair reader / the repaired reader -/
def PDOld : Proto Bytes := ⟨fixDeserDOld known decode, fixIsLogout, fixIsHeartbeat⟩
def PD : Proto Bytes := fixProtoD known decode

/-- `8=FIX.4.4|9=-25|35=M|1=7|2=`  — BodyLength −25: computed frame length 16 − 25 + 7 = −2 -/
def s1 : Bytes := [56,61,70,73,88,46,52,46,52,1, 57,61,45,50,53,1, 51,53,61,77,1, 49,61,55,1, 50,61]
/-- `x|ZZ` -/
def s2 : Bytes := [120,1, 90,90]
/-- `8=FIX.4.4|9=-25|35=M|1=7|` -/
def m1 : Bytes := s1.take 25
/-- `8=FIX.4.4|9=-25|35=M|1=7|2=x|` -/
def m2 : Bytes := (s1 ++ s2).take 29

theorem C04_bytes_witness_unstable : fixStOld s1 = false ∧ stable PDOld fixStOld (s1 ++ s2) = false := by decide

/-- pre-repair: tokens are NOT independent of segmentation: cut after `2=` the stream carries the message `…|1=7|`, whole it
    carries `…|1=7|2=x|` -/
theorem C04_bytes_witness_tokens_depend_on_cut :
    tokens PDOld s1 = ⟨[.msg m1], [50, 61], false⟩ ∧
    (tokens PDOld s1).extend PDOld s2 = ⟨[.msg m1], [50, 61, 120, 1, 90, 90], false⟩ ∧
    tokens PDOld (s1 ++ s2) = ⟨[.msg m2], [90, 90], false⟩ := by decide

/-- pre-repair, the byte-level reader (C03 machine): an early poll hands on `m1`, a late poll `m2` — same bytes, different
    message; and what the early poll handed on is not a prefix of what all the bytes received carry -/
theorem C04_bytes_witness_schedule_dependent :
    (Framing.run PDOld [.data s1, .tick, .data s2, .tick]).out = [m1] ∧
    (Framing.run PDOld [.data s1, .data s2, .tick, .tick]).out = [m2] ∧
    carried PDOld (s1 ++ s2) = [m2] ∧
    ¬ ((Framing.run PDOld [.data s1, .tick, .data s2, .tick]).out <+: carried PDOld (s1 ++ s2)) := by decide

/-- pre-repair (`9=-25|35=0|`): a poll before the next bytes arrive raises `KeyError('')` (empty message type) and stops the
    reader, a poll after them consumes a "heartbeat" `…|35=0|10=00` and the reader stays open -/
def h1 : Bytes := [56,61,70,73,88,46,52,46,52,1, 57,61,45,50,53,1, 51,53,61,48,1]
def h2 : Bytes := [49,48,61,48,48,48,1]
theorem C04_bytes_witness_close_or_not :
    (Framing.run PDOld [.data h1, .tick, .data h2, .tick]).stopped = true ∧
    (Framing.run PDOld [.data h1, .tick, .data h2, .tick]).failed = some .key ∧
    (Framing.run PDOld [.data h1, .data h2, .tick, .tick]).stopped = false ∧
    (Framing.run PDOld [.data h1, .data h2, .tick, .tick]).buf = [48, 1] := by decide

/-! ### the repaired reader (658ee1f) on the same inputs -/

/-- `deserialize()` raises `ValueError` on the negative BodyLength, however much of the stream has arrived -/
theorem C04_bytes_repaired_raises :
    fixDeser s1 = .error .value ∧ fixDeser (s1 ++ s2) = .error .value ∧
    fixDeser h1 = .error .value ∧ fixDeser (h1 ++ h2) = .error .value := by decide

/-- one tokenisation whatever the cut: the malformed frame, reader stopped -/
theorem C04_bytes_repaired_tokens :
    tokens PD s1 = ⟨[.bad], s1, true⟩ ∧ (tokens PD s1).extend PD s2 = ⟨[.bad], s1 ++ s2, true⟩ ∧
    tokens PD (s1 ++ s2) = ⟨[.bad], s1 ++ s2, true⟩ := by decide

/-- both schedules of both examples end the same way: nothing handed on, the reader stopped with `ValueError`, one close signal,
    the buffer untouched -/
theorem C04_bytes_repaired_schedules_agree :
    (Framing.run PD [.data s1, .tick, .data s2, .tick]).out = [] ∧
    (Framing.run PD [.data s1, .data s2, .tick, .tick]).out = [] ∧
    (Framing.run PD [.data s1, .tick, .data s2, .tick]).failed = some .value ∧
    (Framing.run PD [.data s1, .data s2, .tick, .tick]).failed = some .value ∧
    (Framing.run PD [.data s1, .tick, .data s2, .tick]).buf = s1 ++ s2 ∧
    (Framing.run PD [.data s1, .data s2, .tick, .tick]).buf = s1 ++ s2 ∧
    (Framing.run PD [.data h1, .tick, .data h2, .tick]).stopped = true ∧
    (Framing.run PD [.data h1, .data h2, .tick, .tick]).stopped = true ∧
    (Framing.run PD [.data h1, .tick, .data h2, .tick]).closeSignals = 1 ∧
    (Framing.run PD [.data h1, .data h2, .tick, .tick]).closeSignals = 1 := by decide

end NasdaqModel.Witness.C04Bytes
