import NasdaqModel.Model.HeapD
/-
C18, declared defaults - the ONE-LEVEL copy, as decided counterexamples.

(1) A declared default on a record-typed field honoured by `field.type(dict(field.default_value.values))`: every instance gets a record
    of its own, but the lists and records held INSIDE the default record are the class-level objects themselves.  The state after two
    `Book()` is written out cell by cell below; the operations are those of `Model/Heap.lean`.  `m1.top.sizes.append(9)` is about
    instance 0 and changes what instance 1 reads and encodes.
(2) `get_field_value` handing out `list(default)` for a two-dimensional array default (the code before /repo c3c2285,
    fixes/C18-nested-list-default.md): the outer list is new on every read, the ROWS are the class-level row objects.
    `a.cells[0].append(9)` changes what every instance, existing or created later, reads.
Under the deep copy of the code as it is both histories change nobody: `Props/C18Defaults.lean` (`C18D_frame`,
`C18D_temporary_is_nobodys`), shown here on the same histories.  The histories are `corpus/C18/declared-record-default.json` and
`corpus/C18/declared-2d-default-rows.json`, replayed on the implementation first in every run.
-/
namespace NasdaqModel.Witness.C18Defaults
open NasdaqModel Heap HeapD

/-! ### (1) one-level copy of a record default -/

/-- class 0 `Depth` (price: int_4, sizes: array of int_4), class 1 message `Book` 'B' (book: int_4, top: Depth) -/
def S1 : Schema :=
  ⟨true, [.binRec Option.none [.int ⟨4, true, false⟩ Option.none, .arr (.int ⟨4, true, false⟩) ⟨2, false, false⟩],
          .binRec (some 66) [.int ⟨4, true, false⟩ Option.none, .recd 0]]⟩

/-- after `m1, m2 = Book(), Book()` with `top` built as `Depth(dict(DEFAULT.values))`, DEFAULT = `Depth({'price': 5, 'sizes': [1, 2]})`:
    cell 1 is the class-level list `[1, 2]`, cell 2 the class-level default record; cells 3/4 and 5/6 are the `top` record and the body
    of instance 0 and of instance 1 - both `top` records hold the reference to cell 1 -/
def shallowState : Heap :=
  { cells := [⟨.cls, .list []⟩,
              ⟨.cls, .list [.int 1, .int 2]⟩,
              ⟨.cls, .obj 0 [(0, .int 5), (1, .ref 1)]⟩,
              ⟨.inst 0, .obj 0 [(0, .int 5), (1, .ref 1)]⟩, ⟨.inst 0, .obj 1 [(1, .ref 3)]⟩,
              ⟨.inst 1, .obj 0 [(0, .int 5), (1, .ref 1)]⟩, ⟨.inst 1, .obj 1 [(1, .ref 5)]⟩],
    insts := [(1, 4), (1, 6)], bufs := [] }

def badOp : Op := .append 0 [.fld 1, .fld 1] (.int 9)          -- m1.top.sizes.append(9)

theorem C18_witness_record_default_target : badOp.target shallowState = 0 := by decide

/-- plain assignment through the nested record stays private (the record itself was copied) … -/
theorem C18_witness_record_default_scalar_private :
    encodeInst S1 (stepK S1 shallowState (.assign 0 [.fld 1] 0 (.int 77))) 1 = encodeInst S1 shallowState 1 := by decide

/-- … the in-place change of the list inside it is not: it writes into a class-level cell, instance 1 encodes `sizes = [1, 2, 9]` -/
theorem C18_witness_record_default_shared :
    writeOwner S1 shallowState badOp = some Owner.cls ∧
    encodeInst S1 shallowState 1 = .ok [66, 0, 0, 0, 0, 5, 0, 0, 0, 2, 0, 1, 0, 0, 0, 2, 0, 0, 0] ∧
    encodeInst S1 (stepK S1 shallowState badOp) 1 = .ok [66, 0, 0, 0, 0, 5, 0, 0, 0, 3, 0, 1, 0, 0, 0, 2, 0, 0, 0, 9, 0, 0, 0] := by
  decide

/-- the code as it is ignores the default of a record-typed field: every `Book()` has a new, empty `Depth`; `sizes` of it was never
    assigned, what it reads as is the caller's own list, and the same operation changes NO instance -/
theorem C18_witness_record_default_as_is :
    let H := run S1 init [.new 1, .new 1]
    encodeInst S1 (stepK S1 H badOp) 1 = encodeInst S1 H 1 ∧ encodeInst S1 (stepK S1 H badOp) 0 = encodeInst S1 H 0 ∧
    encodeInst S1 H 1 = .ok [66, 0, 0, 0, 0, 0, 0, 0, 0, 0, 0] := by
  decide

/-! ### (2) one-level copy of a list default with rows -/

/-- the class-level default `[[1, 2], [3]]` as cells: the rows are cells 1 and 2, the outer list cell 3 -/
def rowCells : Cells :=
  [⟨.cls, .list []⟩, ⟨.cls, .list [.int 1, .int 2]⟩, ⟨.cls, .list [.int 3]⟩, ⟨.cls, .list [.ref 1, .ref 2]⟩]

/-- `list(default)`: what a read of the never-assigned field hands out - a new outer list (a value of the caller) holding the very
    row objects of the class-level default -/
def shallowRead (h : Cells) : List Val :=
  match h[3]? with
  | some c => (match c.body with
    | .list rows => rows
    | _ => [])
  | Option.none => []

mutual
/-- an observation written out as a list of numbers (`DVal` has no decidable equality of its own) -/
def flat : DVal → List Int
  | .int i => [0, i]
  | .str s => [1, (s.length : Int)] ++ s.map Int.ofNat
  | .none => [2]
  | .list xs => 3 :: flatL xs ++ [-3]
  | .obj c sk sv dk dv => [4, (c : Int)] ++ sk.map Int.ofNat ++ flatL sv ++ [5] ++ dk.map Int.ofNat ++ flatL dv ++ [-4]
  | .bytes bs => 6 :: bs.map Int.ofNat
  | .cut => [7]
def flatL : List DVal → List Int
  | [] => []
  | x :: xs => flat x ++ flatL xs
end

/-- what ANY instance, existing or created later, reads for the field -/
def readsRows (h : Cells) : List Int := flatL ((shallowRead h).map (deref S1 3 h))

/-- `x = a.cells; x[i].append(v)` -/
def appendToRow (h : Cells) (i : Nat) (v : Val) : Cells :=
  match (shallowRead h)[i]? with
  | some (.ref r) =>
    (match h[r]? with
     | some c => (match c.body with
       | .list xs => setBody h r (.list (xs ++ [v]))
       | _ => h)
     | Option.none => h)
  | _ => h

theorem C18_witness_rows_shared :
    readsRows rowCells = flatL [.list [.int 1, .int 2], .list [.int 3]] ∧
    readsRows (appendToRow rowCells 0 (.int 9)) = flatL [.list [.int 1, .int 2, .int 9], .list [.int 3]] := by decide

/-- the deep copy of the code as it is (`Model/HeapD.lean`): the same history leaves the state as it was, and the next read of any
    instance sees the declared default -/
def S2 : Schema := ⟨true, [.binRec (some 65) [.int ⟨2, false, false⟩ Option.none, .arr (.int ⟨4, true, false⟩) ⟨2, false, false⟩]]⟩
def D2 : Defaults := ⟨[((0, 1), .list [.list [.int 1, .int 2], .list [.int 3]])]⟩
def rowOps : List Op := [.new 0, .new 0, .append 0 [.fld 1, .idx 0] (.int 9), .new 0]

def viewsD (H : Heap) : List (Option (List Int)) := [0, 1, 2].map (fun i => (viewD S2 D2 4 H i).map flat)

theorem C18_witness_rows_deep_copy :
    viewsD (runD S2 D2 init rowOps) = viewsD (runD S2 D2 init [.new 0, .new 0, .new 0]) ∧
    (viewD S2 D2 4 (runD S2 D2 init rowOps) 1).map flat =
      some (flat (.obj 0 [] [] [0, 1] [.int 0, .list [.list [.int 1, .int 2], .list [.int 3]]])) ∧
    (match targetD S2 D2 (runD S2 D2 init rowOps) 1 [.fld 1, .idx 0] with
     | .ok (.tmp (.list [.int 1, .int 2])) => true
     | _ => false) = true := by decide

end NasdaqModel.Witness.C18Defaults
