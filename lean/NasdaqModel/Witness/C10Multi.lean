import NasdaqModel.Model.SeqMulti
/-
C10, several sessions — what goes wrong when the sessions are NOT a product: the semantics `SeqNum.shStep` (Model/SeqMulti.lean; one
default `itertools.count(1)` created at class definition and shared by every FIX session whose logon states no MsgSeqNum) on the
history `SeqNum.witnessShared`: two sessions created without `sequence=` log on without stating a number and send alternately.
The driver prints this very term (`witness C10Multi`) and the harness replays it on the real sessions every run: the code as it is
writes 0, 1, 2 on the first and 0, 1 on the second connection.
-/
namespace NasdaqModel.Witness.C10Multi
open NasdaqModel SeqNum

/-- two sessions created without `sequence=`; the class-level counter yields 1 next -/
def shared2 : ShWorld := { shared := 1, sess := [shNew none, shNew none] }

/-- the frames on the two connections carry 1, 3, 5 and 2, 4: every message of one session makes the other skip a number -/
theorem C10Multi_witness_shared_gap :
    (shWorldRun shared2 witnessShared).sess.map (·.frames) = [[1, 3, 5], [2, 4]] := by decide

/-- hence "the k-th frame after the logon carries the logon's number + k" is false of session 0 (logon carried 1, next frame 3) … -/
theorem C10Multi_witness_shared_kth_fails :
    ¬ (∀ s ∈ (shWorldRun shared2 witnessShared).sess, ∀ k, (hk : k < s.frames.length) → s.frames[k] = s.frames[0]! + k) := by
  intro h
  have := h ⟨.shared, true, [1, 3, 5]⟩ (by decide) 1 (by decide)
  revert this
  decide

/-- … although each of the two sessions ALONE numbers its frames contiguously under the same semantics (which is why no
    single-session history, whatever its sends and heartbeats, shows the difference) -/
theorem C10Multi_witness_shared_alone_contiguous :
    (shWorldRun shared2 (witnessShared.filter (·.1 == 0))).sess.map (·.frames) = [[1, 2, 3], []] ∧
    (shWorldRun shared2 (witnessShared.filter (·.1 == 1))).sess.map (·.frames) = [[], [1, 2]] := by decide

/-- the shared semantics is not a product: what session 0 writes depends on whether session 1's operations happen in between
    (for the code as it is this is `C10Multi_projection`) -/
theorem C10Multi_witness_shared_not_a_product :
    ((shWorldRun shared2 witnessShared).sess[0]?).map (·.frames)
      ≠ ((shWorldRun shared2 (witnessShared.filter (·.1 == 0))).sess[0]?).map (·.frames) := by decide

/-- sessions whose logon states a number, or that were created with `sequence=n`, are untouched by the shared default — the
    difference needs both ingredients on at least two sessions -/
theorem C10Multi_witness_shared_needs_unstated :
    (shWorldRun shared2 [(0, .login (some 5) ⟨true, true⟩), (1, .login none ⟨true, true⟩), (0, .send ⟨true, true⟩),
      (1, .send ⟨true, true⟩), (0, .send ⟨true, true⟩)]).sess.map (·.frames) = [[5, 6, 7], [1, 2]] ∧
    (shWorldRun { shared := 1, sess := [shNew (some 100), shNew none] }
      [(0, .login none ⟨true, true⟩), (1, .login none ⟨true, true⟩), (0, .send ⟨true, true⟩),
       (1, .send ⟨true, true⟩), (0, .send ⟨true, true⟩)]).sess.map (·.frames) = [[100, 101, 102], [1, 2]] := by decide

/-- the code as it is (the product of `Model/Seq` states; a logon without a number reads 0) on the same history: 0, 1, 2 and 0, 1 -/
theorem C10Multi_witness_code_contiguous :
    worldRun [.fix fixInit, .fix fixInit] (witnessShared.map fun ev => (ev.1, ev.2.toOp))
      = [.fix ⟨some 3, [0, 1, 2]⟩, .fix ⟨some 2, [0, 1]⟩] := by decide

end NasdaqModel.Witness.C10Multi
