import NasdaqModel.Lemmas.GenFixLoad
/-
C16 — former known finding (DESIGN §6 #13, /verif/fixes/C16-fix42.md), repaired by /repo commit b154f58: a valid FIX 4.2
dictionary could not be generated (`Definitions._client_session` raised `ValueError('Version 4.2 is not supported')`; the model
then had `gen dict42 = .error .value` and `d.version = .v42 → gen d ≠ .ok m`).  The counterexample is kept, inverted, as a
regression: it must generate, import, and derive its session from `Fix42Session`.
-/
namespace NasdaqModel.Witness.C16
open NasdaqModel Py GenFix Spec.FixDict

/-- the smallest interesting 4.2 dictionary: one message, one field -/
def dict42 : Dict :=
  ⟨.v42, [.messages [⟨lit "Heartbeat", lit "0", lit "admin", [.field (lit "TestReqID") (some (lit "N"))]⟩],
          .fields [⟨lit "112", lit "TestReqID", lit "STRING", []⟩]]⟩

theorem C16_regression_fix42_valid : wfDict dict42 = true := by decide

theorem C16_regression_fix42_generates : (gen dict42).toBool = true := by decide

theorem C16_regression_fix42_session : (genLoad dict42).toOption.map (·.session) = some .Fix42Session := by decide

/-- the only way `_client_session` can still fail is a version `parse` has already refused -/
theorem C16_regression_client_session (v : Version) (h : supportedVersion v = true) : ∃ s, clientSession v = .ok s := by
  cases v <;> simp_all [supportedVersion, clientSession]

end NasdaqModel.Witness.C16
