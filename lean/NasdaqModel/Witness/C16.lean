import NasdaqModel.Lemmas.GenFixLoad
/-
C16 — known finding (DESIGN §6 #13, /verif/fixes/C16-fix42.md): a valid FIX 4.2 dictionary cannot be generated.
`parse` accepts it (`version_types.py` has a 4.2 table, the CLI offers `--fix-version 4.2`) and `Definitions._client_session`
then raises `ValueError('Version 4.2 is not supported')` because `fix/session.py` has no 4.2 session class.
-/
namespace NasdaqModel.Witness.C16
open NasdaqModel Py GenFix Spec.FixDict

/-- the smallest interesting 4.2 dictionary: one message, one field -/
def dict42 : Dict :=
  ⟨.v42, [.messages [⟨lit "Heartbeat", lit "0", lit "admin", [.field (lit "TestReqID") (some (lit "N"))]⟩],
          .fields [⟨lit "112", lit "TestReqID", lit "STRING", []⟩]]⟩

/-- it is a valid dictionary (inside the property's quantifier) … -/
theorem C16_witness_fix42_valid : wfDict dict42 = true := by decide

/-- … `parse` accepts it … -/
theorem C16_witness_fix42_parses : (parse dict42).toBool = true := by decide

/-- … and generation fails with `ValueError` -/
theorem C16_witness_fix42 : gen dict42 = .error .value := by decide

/-- and so does it for every 4.2 dictionary whatsoever: nothing is ever generated -/
theorem C16_witness_fix42_never (d : Dict) (h : d.version = .v42) (m : Module) : gen d ≠ .ok m := by
  intro hg
  obtain ⟨sess, hs⟩ := gen_ok_version hg
  rw [h] at hs
  simp [clientSession] at hs

end NasdaqModel.Witness.C16
