import NasdaqModel.Props.C01Reenc
/-
C01, message objects over time - the variant that does NOT round-trip, as decided counterexamples.

If `CommonMessage.to_bytes` keeps the packed bytes together with a (shallow) copy of the body's `values` dict and packs again only
when the dict differs from that copy, then a change made INSIDE a value the dict holds by reference - a field of a nested record,
an optional record that becomes present, a list that grows, a field of a record in a list - is a change of the copy as well:
the comparison finds nothing and the bytes of the first packing are returned.  They decode to what the message held THEN, not to
what it holds now.  An assignment on the body itself is noticed and repairs everything.  The same message and the same histories are
`corpus/C01/r-reenc-*.json` and run first against the implementation in every C01 run.
-/
namespace NasdaqModel.Witness.C01Reenc
open NasdaqModel BinCodec BinObj NasdaqModel.Props.C01Reenc

/-- the field read at `p` after decoding what the `i`-th `to_bytes()` of a list of results returned -/
def readBack (rs : List (Except Err (Nat × Bytes))) (i : Nat) (p : List Step) : Option Obs :=
  match rs[i]? with
  | some (.ok (_, bs)) =>
    match decodeMsg [quote] bs with
    | .ok (_, _, v') => some (read (.record quote.fs) v' p)
    | .error _ => none
  | _ => none

/-- `msg.leg.price = 0xFFFFFFFF` after a first packing -/
def nested : List Op := [.toBytes, .change [.field 2] (.set 1 (.int 4294967295)), .toBytes]

/-- the code as it is: the second encoding reads back the new price … -/
theorem C01_witness_fresh_nested : readBack (run quote quote0 nested) 1 [.field 2, .field 1] = some (.int 4294967295) := by decide

/-- … the remembering variant returns the first packing again: the message holds 4294967295, its encoding says 100 -/
theorem C01_witness_stale_nested :
    readBack (runCached quote quote0 none false nested) 1 [.field 2, .field 1] = some (.int 100) ∧
    (runCached quote quote0 none false nested)[1]? = (runCached quote quote0 none false nested)[0]? := by decide

/-- an optional record that becomes present is still encoded absent -/
theorem C01_witness_stale_optional :
    readBack (runCached quote quote0 none false [.toBytes, .change [.field 3] (.set 1 (.str [104, 105])), .toBytes]) 1 [.field 3, .field 1]
      = some .absent ∧
    readBack (run quote quote0 [.toBytes, .change [.field 3] (.set 1 (.str [104, 105])), .toBytes]) 1 [.field 3, .field 1]
      = some (.text [104, 105]) := by decide

/-- a list grown in place keeps its old length on the wire -/
theorem C01_witness_stale_append :
    readBack (runCached quote quote0 none false [.toBytes, .change [.field 4] (.append (.int 255)), .toBytes]) 1 [.field 4] = some (.len 2) ∧
    readBack (run quote quote0 [.toBytes, .change [.field 4] (.append (.int 255)), .toBytes]) 1 [.field 4] = some (.len 3) := by decide

/-- a field of a record inside a list -/
theorem C01_witness_stale_element :
    readBack (runCached quote quote0 none false [.toBytes, .change [.field 5, .idx 0] (.set 2 (.str [90, 90])), .toBytes]) 1
      [.field 5, .idx 0, .field 2] = some (.text [88]) ∧
    readBack (run quote quote0 [.toBytes, .change [.field 5, .idx 0] (.set 2 (.str [90, 90])), .toBytes]) 1
      [.field 5, .idx 0, .field 2] = some (.text [90, 90]) := by decide

/-- an assignment on the body itself afterwards is noticed: the next packing shows BOTH changes, the nested one too -/
theorem C01_witness_repaired_by_body_assignment :
    (runCached quote quote0 none false (nested ++ [.change [] (.set 1 (.int 8)), .toBytes]))[2]?
      = (run quote quote0 (nested ++ [.change [] (.set 1 (.int 8)), .toBytes]))[2]? ∧
    readBack (runCached quote quote0 none false (nested ++ [.change [] (.set 1 (.int 8)), .toBytes])) 2 [.field 2, .field 1]
      = some (.int 4294967295) := by decide

/-- without a packing before the change nothing is remembered yet: the variant is right -/
theorem C01_witness_no_first_packing :
    runCached quote quote0 none false [.change [.field 2] (.set 1 (.int 4294967295)), .toBytes]
      = run quote quote0 [.change [.field 2] (.set 1 (.int 4294967295)), .toBytes] := by decide

/-- the hypothesis of `C01_reenc_cached_partial` fails on the history above, and only there -/
theorem C01_witness_nested_not_body_only : nested.all bodyOnly = false := by decide

end NasdaqModel.Witness.C01Reenc
