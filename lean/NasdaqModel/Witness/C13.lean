import NasdaqModel.Props.C13
/-
C13 — machine-checked counterexample to "the decoded message compares equal to the original" under the order-sensitive
group equality the code had before /repo 02aab28 (finding C13-group-eq-order, fixes/C13-group-eq-order.md, now `fixed`), and
the same history under the equality the code has now — a regression that the harness replays on the implementation every run.  `witnessDef` / `witnessMsg` are defined in
Model/Fix.lean; the driver prints the same terms (`fix.witness`) and the harness replays them on the implementation.
-/
namespace NasdaqModel.Witness.C13
open NasdaqModel Py Fix Props.C13

/-- encode, decode through the registry, compare with `eq` — `none` if anything raises -/
def roundTripEq (eq : Msg → Msg → Bool) (reg : List MsgDef) (d : MsgDef) (m : Msg) : Option Bool :=
  match encMsg d m with
  | .ok bs =>
    match decodeMsg reg bs with
    | .ok r => some (eq r.2.2 m)
    | .error _ => none
  | .error _ => none

/-- the witness is inside the property's quantifier: distinct tags, valid values, instance contains its first field -/
theorem C13_witness_wf : wfDef witnessDef = true ∧ wfMsg witnessDef witnessMsg = true := by decide

/-- a group instance assigned `102` then `101` is written in dictionary order, decodes, and the decoded message is
    **not** `==` the original (`Message.__eq__` → `OrderedDict.__eq__`, order sensitive) -/
theorem C13_witness_eq_order : roundTripEq pyEq [witnessDef] witnessDef witnessMsg = some false := by decide +kernel

/-- with group instances compared as plain dicts (the code as it is now) the same round trip compares equal -/
theorem C13_witness_eq_repaired : roundTripEq pyEqDict [witnessDef] witnessDef witnessMsg = some true := by decide +kernel

end NasdaqModel.Witness.C13
