import NasdaqModel.Lemmas.SessionLemmas3
/-
C04 — known finding, machine-checked on the model and replayed on the implementation by harness/c04.py
(corpus/C04/late-cancel.json): a receive that is cancelled *after* its helper task already took the message off the
queue, but before the caller resumed, reports the cancellation — and the message is lost.
-/
namespace NasdaqModel.Witness.C04
open NasdaqModel Sess

def cfg : Cfg :=
  { msgBeh := fun _ => .ret, cbBeh := .ret, hasCb := false, dispatchOnConnect := false, hasMsgCb := false, fixLogin := false }

/-- receive blocks; message 5 arrives; the helper task takes it; the caller is cancelled before it resumes -/
def history : List Ev :=
  [.connect, .callRecv 1, .run .V, .data [.msg 5], .run .R, .run .V, .cancel 1, .run (.U 1), .callRecvNowait 2]

theorem C04_witness_late_cancel_loses_message :
    (runEvs cfg {} history).trace = [.ret 1 .cancelled, .ret 2 .none] ∧
    (runEvs cfg {} history).lost = [5] ∧
    msgsOf (runEvs cfg {} history).wire = [5] ∧
    (runEvs cfg {} history).queue = [] ∧ (runEvs cfg {} history).vres = none ∧
    (runEvs cfg {} history).closed = false := by decide

/-- hence the unconditional prefix statement of C04 is false of the model (and of the code): the consumer's next
    receive finds nothing although message 5 was fully received and never delivered -/
theorem C04_witness_not_all_delivered :
    delivered (runEvs cfg {} history).trace ++ (runEvs cfg {} history).queue ≠ msgsOf (runEvs cfg {} history).wire := by decide

end NasdaqModel.Witness.C04
