import NasdaqModel.Model.BinCodec
/-
C01 — regressions.  These inputs violated the property before the repairs c9480ef (fixed strings truncated to their width, an
empty char padded), 2761a7d (fixed-width decode strips only the pad character) and 8ed2437 (a record without fields encodes to
zero bytes) in /repo; the theorems pin what the repaired code — the model transcribes it — does with them now.  The same inputs
are in `corpus/C01/` and run first on the implementation on every check.
-/
namespace NasdaqModel.Witness.C01
open NasdaqModel BinCodec

/-- what a read at `p` observes after encoding `v` and decoding the bytes again -/
def readBack (t : Ty) (v : Val) (p : List Step) : Option Obs :=
  match encode t v with
  | .ok (_, bs) =>
    match decode t bs with
    | .ok (_, v') => some (read t v' p)
    | .error _ => none
  | .error _ => none

/-- `FixedAsciiString(3).to_bytes('abcd')` was `(3, b'abcd')`; now three bytes are reported and produced -/
theorem C01_regression_fixed_overlong :
    encode (.fixed false 3 false) (.str [97, 98, 99, 100]) = .ok (3, [97, 98, 99]) := by decide

/-- the field after an over-long fixed string is no longer misaligned: 0x4142 written, 0x4142 read -/
theorem C01_regression_fixed_overlong_neighbour :
    readBack (.record (.cons 1 (.fixed false 3 false) .none (.cons 2 (.int 2 false true) .none .nil)))
      (.recd [(1, .str [97, 98, 99, 100]), (2, .int 0x4142)]) [.field 2] = some (.int 0x4142) := by decide

/-- `CharAscii.to_bytes('')` was `(1, b'')`; now one byte (a space) -/
theorem C01_regression_char_empty : encode (.char false) (.str []) = .ok (1, [32]) := by decide

/-- `'a\xa0'` in a `FixedIsoString(3)` was read back as `'a'`; now unchanged -/
theorem C01_regression_fixed_strip :
    readBack (.fixed true 3 false) (.str [97, 160]) [] = some (.text [97, 160]) := by decide

/-- the same in ASCII with a control character (`'\x1f'`), right-justified field -/
theorem C01_regression_fixed_strip_ascii :
    readBack (.fixed false 4 true) (.str [31, 65]) [] = some (.text [31, 65]) := by decide

/-- a record (message body) without fields raised IndexError; now it is zero bytes and the message is its id byte -/
theorem C01_regression_record_empty :
    encode (.record .nil) (.recd []) = .ok (0, []) ∧ encodeMsg { ind := 1, cls := 0, fs := .nil } (.recd []) = .ok (1, [1]) := by
  decide

end NasdaqModel.Witness.C01
