import NasdaqModel.Model.BinCodec
/-
C01 — machine-checked counterexamples: where the code *as it is* (the model transcribes it) violates the full statements
`C01_len_is_len`, `C01_fixed_width` and the round trip, i.e. why `Props/C01.lean` carries `…_partial` theorems and why `wf`
excludes these values.  Each witness is also in `corpus/C01/` and replayed on the implementation on every run.
-/
namespace NasdaqModel.Witness.C01
open NasdaqModel BinCodec

/-- what a read at `p` observes after encoding `v` and decoding the bytes again -/
def readBack (t : Ty) (v : Val) (p : List Step) : Option Obs :=
  match encode t v with
  | .ok (_, bs) =>
    match decode t bs with
    | .ok (_, v') => some (read t v' p)
    | .error _ => none
  | .error _ => none

/-- `FixedAsciiString(3).to_bytes('abcd') = (3, b'abcd')`: reported length 3, four bytes produced, width exceeded. -/
theorem C01_witness_fixed_overlong :
    encode (.fixed false 3 false) (.str [97, 98, 99, 100]) = .ok (3, [97, 98, 99, 100]) := by decide

/-- …so the full statements are false of the code as it is. -/
theorem C01_witness_len_is_len_false : ¬ (∀ t v n bs, encode t v = .ok (n, bs) → n = bs.length) := by
  intro h
  have := h _ _ _ _ C01_witness_fixed_overlong
  exact absurd this (by decide)

theorem C01_witness_fixed_width_false :
    ¬ (∀ iso k rj v n bs, encode (.fixed iso k rj) v = .ok (n, bs) → bs.length = k) := by
  intro h
  have := h _ _ _ _ _ _ C01_witness_fixed_overlong
  exact absurd this (by decide)

/-- the field after an over-long fixed string decodes misaligned: 0x4142 written, 0x6441 read -/
theorem C01_witness_fixed_overlong_misaligns :
    readBack (.record (.cons 1 (.fixed false 3 false) .none (.cons 2 (.int 2 false true) .none .nil)))
      (.recd [(1, .str [97, 98, 99, 100]), (2, .int 0x4142)]) [.field 2] = some (.int 0x6441) := by decide

/-- `CharAscii.to_bytes('') = (1, b'')`: one byte reported, none produced. -/
theorem C01_witness_char_empty : encode (.char false) (.str []) = .ok (1, []) := by decide

/-- `FixedIsoString(3)`: `'a\xa0'` is within the width and the charset and has no pad character at its ends, but reads back
    as `'a'` — `str.strip()` removes more than the padding. -/
theorem C01_witness_fixed_strip :
    readBack (.fixed true 3 false) (.str [97, 160]) [] = some (.text [97])
    ∧ read (.fixed true 3 false) (.str [97, 160]) [] = .text [97, 160] := by decide

/-- the same in ASCII with a control character (`'\x1f'`), right-justified field -/
theorem C01_witness_fixed_strip_ascii :
    readBack (.fixed false 4 true) (.str [31, 65]) [] = some (.text [65]) := by decide

/-- a record (message body) without fields cannot be encoded: `segments[0]` raises IndexError; decoding it is fine -/
theorem C01_witness_record_empty :
    encode (.record .nil) (.recd []) = .error .index ∧ encodeMsg { ind := 1, cls := 0, fs := .nil } (.recd []) = .error .index := by
  decide

end NasdaqModel.Witness.C01
