import NasdaqModel.Model.GenReuse
/-
C17 / C16 — one parsed dictionary handed to several generators: what the model exhibits when every parsed `Group` object keeps
the codegen context it computed the first time (`memo := true` in Model/GenReuse.lean — the semantics of seeded change C16l:
`Group.get_codegen_context` returns `self._context` and appends to `Group.Contexts` only when it computes it) while
`Definitions.get_codegen_context()` still starts every generation from an empty `Group.Contexts`.

The FIRST generator constructed on a parsed dictionary is fine (even tidier: a nested group gets one class instead of two);
every LATER generator on the same object gets an empty groups module while its bodies module still asks for the group classes:
the second package of a valid dictionary does not import.  Parsing the file again for the second generator hides it, and so
does every history of whole invocations.  For the library as it is (`memo := false`) the same histories give the fresh files —
Props/C17Reuse.lean proves that for all histories.
The histories (`histories`) are replayed on the implementation by harness/c17.py on every run (driver op `witness C17Reuse`).
-/
namespace NasdaqModel.Witness.C17Reuse
open NasdaqModel GenHistory GenReuse

def optsG (d : Nat) : GenOpts := ⟨[103], [], true, .out d, true⟩        -- app "g"
def optsH (d : Nat) : GenOpts := ⟨[104], [], true, .out d, true⟩        -- app "h"
def optsS (d : Nat) : GenOpts := ⟨[115], [112], false, .out d, true⟩    -- app "s", prefix "p", no __init__.py
def fixA : FixSpec := ⟨1, 44, [1, 2], [1], [.mk 1 [2] [.mk 2 [1] []]], [1, 2]⟩     -- NoG1 [F2, NoG2 [F1]]
def fixB : FixSpec := ⟨2, 44, [3], [3], [.mk 1 [3] []], [1]⟩                        -- NoG1 [F3]
def fixN : FixSpec := ⟨3, 50, [1], [1], [], []⟩                                      -- no groups
def soupA : SoupSpec := ⟨1, some [(1, 0), (2, 1)], [1, 2], [65, 66]⟩
def groupsG : Str := [102, 105, 120, 95, 103, 95, 103, 114, 111, 117, 112, 115, 46, 112, 121]   -- "fix_g_groups.py"
def groupsH : Str := [102, 105, 120, 95, 104, 95, 103, 114, 111, 117, 112, 115, 46, 112, 121]   -- "fix_h_groups.py"
def mpG : Str := [102, 105, 120, 95, 103]                                                        -- "fix_g"
def mpH : Str := [102, 105, 120, 95, 104]                                                        -- "fix_h"

/-- parse once; a client package; then a server package from the same object -/
def hOneAfterTheOther : List REv :=
  [.parse 0 (.fix fixA), .constructOn 0 0 .itch (optsG 1), .old (.generate 0), .constructOn 1 0 .itch (optsH 2), .old (.generate 1)]
/-- both generators prepared, then written -/
def hPrepareThenWrite : List REv :=
  [.parse 0 (.fix fixA), .constructOn 0 0 .itch (optsG 1), .constructOn 1 0 .itch (optsH 2), .old (.generate 1), .old (.generate 0)]
/-- another dictionary generated in between, a third generator on the first object, into the first one's directory -/
def hOtherBetween : List REv :=
  [.parse 0 (.fix fixA), .constructOn 0 0 .itch (optsG 1), .old (.generate 0), .old (.inv (.fix fixB (optsH 3))),
   .constructOn 1 0 .itch (optsS 2), .old (.generate 1), .constructOn 2 0 .itch (optsG 1), .old (.generate 2)]
/-- a dictionary without groups: nothing to remember -/
def hNoGroups : List REv :=
  [.parse 0 (.fix fixN), .constructOn 0 0 .itch (optsG 1), .old (.generate 0), .constructOn 1 0 .itch (optsH 2), .old (.generate 1)]
/-- soup-app: one `Parser.parse` result, an OUCH and an ITCH generator -/
def hSoup : List REv :=
  [.parse 0 (.soup soupA true), .constructOn 0 0 .ouch (optsG 1), .old (.generate 0), .constructOn 1 0 .itch (optsS 2),
   .old (.generate 1), .old (.generate 0)]

def histories : List (String × List REv) :=
  [("witness-reuse-one-after-the-other", hOneAfterTheOther), ("witness-reuse-prepare-then-write", hPrepareThenWrite),
   ("witness-reuse-other-between", hOtherBetween), ("witness-reuse-no-groups", hNoGroups), ("witness-reuse-soup", hSoup)]

/-- **The second package does not import.**  With remembered contexts generator 1 (same parsed dictionary, app "h", directory 2)
    writes an EMPTY groups module; its bodies module refers to `NoG1_1_List`: AttributeError.  The library as it is writes the
    three classes the invocation writes alone, and the package imports. -/
theorem C17_witness_memo_second_package_has_no_groups :
    let rw := runR current true rw0 (hOneAfterTheOther.take 4)
    (generateR current rw 1).2 = .ok ()
    ∧ read (generateR current rw 1).1.w.fs (.out 2, groupsH) = some [.fixGroups mpH []]
    ∧ importAfterGenerate current rw.w 1 = .error .attr
    ∧ read (generateR current (runR current false rw0 (hOneAfterTheOther.take 4)) 1).1.w.fs (.out 2, groupsH)
        = some [.fixGroups mpH [⟨2, 1, [.field 1]⟩, ⟨2, 2, [.field 1]⟩, ⟨1, 1, [.field 2, .group 2 2]⟩]]
    ∧ read (invoke current w0 (.fix fixA (optsH 2))).1.fs (.out 2, groupsH)
        = some [.fixGroups mpH [⟨2, 1, [.field 1]⟩, ⟨2, 2, [.field 1]⟩, ⟨1, 1, [.field 2, .group 2 2]⟩]]
    ∧ importAfterGenerate current (runR current false rw0 (hOneAfterTheOther.take 4)).w 1 = .ok () := by decide

/-- The FIRST package is importable but not the fresh one either: one class per nested group instead of two (`NoG2_1` only), so
    the group classes are named differently (what the C16 correspondence notices; the entries reached through them agree). -/
theorem C17_witness_memo_first_package_other_names :
    let rw := runR current true rw0 (hOneAfterTheOther.take 2)
    read (generateR current rw 0).1.w.fs (.out 1, groupsG) = some [.fixGroups mpG [⟨2, 1, [.field 1]⟩, ⟨1, 1, [.field 2, .group 2 1]⟩]]
    ∧ importAfterGenerate current rw.w 0 = .ok ()
    ∧ read (invoke current w0 (.fix fixA (optsG 1))).1.fs (.out 1, groupsG)
        = some [.fixGroups mpG [⟨2, 1, [.field 1]⟩, ⟨2, 2, [.field 1]⟩, ⟨1, 1, [.field 2, .group 2 2]⟩]] := by decide

/-- It does not matter whether the first generator has written: the context is evaluated when the generator is constructed. -/
theorem C17_witness_memo_prepare_then_write :
    let rw := runR current true rw0 (hPrepareThenWrite.take 3)
    read (generateR current rw 1).1.w.fs (.out 2, groupsH) = some [.fixGroups mpH []]
    ∧ importAfterGenerate current rw.w 1 = .error .attr := by decide

/-- Hidden from every history of whole invocations and from a second parse of the same file: each parse makes new `Group`
    objects.  (`construct k i` of Model/GenHistory.lean is `parse k; constructOn k k`.) -/
theorem C17_witness_memo_hidden_by_a_second_parse :
    let evs : List REv := [.parse 0 (.fix fixA), .constructOn 0 0 .itch (optsG 1), .old (.generate 0),
                           .parse 1 (.fix fixA), .constructOn 1 1 .itch (optsH 2)]
    importAfterGenerate current (runR current true rw0 evs).w 1 = .ok ()
    ∧ read (generateR current (runR current true rw0 evs) 1).1.w.fs (.out 2, groupsH)
        = some [.fixGroups mpH [⟨2, 1, [.field 1]⟩, ⟨1, 1, [.field 2, .group 2 1]⟩]] := by decide

/-- …and from dictionaries without groups and from the soup-app generators (their parsed definitions hold no such state). -/
theorem C17_witness_memo_no_groups_and_soup_unaffected :
    (runR current true rw0 hNoGroups).w.fs = (runR current false rw0 hNoGroups).w.fs
    ∧ (runR current true rw0 hSoup).w.fs = (runR current false rw0 hSoup).w.fs := by decide

/-- the parsed object IS changed by a construction under `memo` (the step lemma of Props/C17Reuse.lean fails) -/
theorem C17_witness_memo_changes_the_parsed_object :
    (match getP (runR current true rw0 (hOneAfterTheOther.take 2)).parsed 0 with
      | some (.fix _ _ rendered) => rendered | _ => none) = some [(1, 1)]
    ∧ (match getP (runR current false rw0 (hOneAfterTheOther.take 2)).parsed 0 with
      | some (.fix _ _ rendered) => rendered | _ => some []) = none := by decide

end NasdaqModel.Witness.C17Reuse
