import NasdaqModel.Model.HeapCut
/-
C18, short frames — machine-checked counterexample for the semantics of seeded change C18k (`HeapCut.decodeShared`:
`Array.from_bytes` hands out the class-level list `Array.default_value` when no byte of the frame is left for the array field),
on the schema and the history of the demonstration: a frame of message 81 that ends right after its 4-byte int.

  * the decoded message's array IS the class-level cell (`C18S_witness_decoded_holds_class_cell`);
  * appending to it is an operation about the decoded message, yet it writes into a class-level cell
    (`C18S_witness_append_writes_class_cell`) — the list every never-assigned array field of every instance of every type is copied
    from now holds the two items (`C18S_witness_class_level_list_poisoned`), while with the decoder of the library it stays empty;
  * a second decode of the same short frame, an instance nobody touched, encodes the two items
    (`C18S_witness_second_decode_changed`): the frame statement of `Props/C18Short.lean` is false of this variant
    (`C18S_witness_frame_false_with_shared_short_decode`).
The same history is corpus/C18/short-frame-before-trailing-array.json, replayed on the implementation on every run (where the
decoded message must hold a list of its own, and does).
-/
namespace NasdaqModel.Witness.C18Short
open NasdaqModel Heap HeapD HeapCut

/-- message 81: a 4-byte int and an array of 4-byte ints (2-byte count); message 84: a 2-byte int and an array of 2-byte ints -/
def S : Schema :=
  ⟨true, [.binRec (some 81) [.int ⟨4, false, false⟩ Option.none, .arr (.int ⟨4, false, false⟩) ⟨2, false, false⟩],
          .binRec (some 84) [.int ⟨2, false, false⟩ Option.none, .arr (.int ⟨2, false, false⟩) ⟨2, false, false⟩]]⟩
def D : Defaults := ⟨[]⟩

/-- an instance with `order_book = 5`, encoded; buffer 1 = the first 5 bytes of the frame (id byte + int: nothing left for the array) -/
def prefixOps : List OpC := [.op (.new 0), .op (.assign 0 [] 0 (.int 5)), .op (.mkbuf 0), .cut 0 5]
def H0 : Heap := runC S D init prefixOps

def okOr (H : Heap) (r : Except Err Heap) : Heap :=
  match r with
  | .ok H' => H'
  | .error _ => H

/-- the short frame decoded twice by the seeded decoder: instances 1 and 2 -/
def H1 : Heap := okOr H0 (decodeShared S H0 0 1)
def H2 : Heap := okOr H1 (decodeShared S H1 0 1)
def badOp1 : Op := .append 1 [.fld 1] (.int 7)
def badOp2 : Op := .append 1 [.fld 1] (.int 8)
/-- `decoded.levels.append(7); decoded.levels.append(8)` on instance 1 -/
def H3 : Heap := stepK S (stepK S H2 badOp1) badOp2

theorem C18S_witness_decodes_succeed :
    (decodeShared S H0 0 1).toOption.isSome = true ∧ (decodeShared S H1 0 1).toOption.isSome = true ∧ H2.insts.length = 3 := by
  decide

/-- the array field of the decoded message is a reference to cell 0, the class-level list -/
theorem C18S_witness_decoded_holds_class_cell :
    mutTarget S H2 1 [.fld 1] = .ok (some 0) ∧ (H2.cells[0]?).map (·.own) = some Owner.cls := by
  decide

/-- the append is about instance 1 and writes into a class-level cell (with the decoder of the library no operation ever does:
    `classSafe_of_fresh`) -/
theorem C18S_witness_append_writes_class_cell :
    badOp1.target H2 = 1 ∧ classSafe S H2 badOp1 = false ∧ writeOwner S H2 badOp1 = some Owner.cls := by
  decide

/-- the class-level list now holds the two items -/
theorem C18S_witness_class_level_list_poisoned :
    H2.cells[0]? = some ⟨Owner.cls, .list []⟩ ∧ H3.cells[0]? = some ⟨Owner.cls, .list [.int 7, .int 8]⟩ := by
  decide

/-- instance 2 — the second decode of the same short frame, which no operation was about — encodes them -/
theorem C18S_witness_second_decode_changed :
    encodeInst S H2 2 = .ok [81, 5, 0, 0, 0, 0, 0] ∧ encodeInst S H3 2 = .ok [81, 5, 0, 0, 0, 2, 0, 7, 0, 0, 0, 8, 0, 0, 0] := by
  decide

/-- the frame statement is false of the variant: an operation about instance 1 changed what instance 2 encodes -/
theorem C18S_witness_frame_false_with_shared_short_decode :
    ¬ (∀ (b : Nat), b ≠ badOp1.target H2 → encodeInst S (stepK S H2 badOp1) b = encodeInst S H2 b) := by
  intro h
  have := h 2 (by decide)
  revert this
  decide

/-- the decoder of the library on the same history: the decoded messages hold lists of their own, the class-level list stays empty
    and the second decode is unchanged -/
def good : Heap :=
  runC S D init (prefixOps ++ [.op (.decode 0 1), .op (.decode 0 1), .op badOp1, .op badOp2])

theorem C18S_witness_library_decoder_is_fine :
    good.cells[0]? = some ⟨Owner.cls, .list []⟩ ∧ encodeInst S good 2 = .ok [81, 5, 0, 0, 0, 0, 0]
      ∧ encodeInst S good 1 = .ok [81, 5, 0, 0, 0, 2, 0, 7, 0, 0, 0, 8, 0, 0, 0] := by
  decide

end NasdaqModel.Witness.C18Short
