import NasdaqModel.Model.GenHistory
/-
C17, option changes — what the model exhibits when the type-table builders of fix/parser/version_types.py are memoised
(`functools.cache`) while the 4.4 / 5.0 / 5.0SP2 builders keep updating the dict they get from the 4.2 builder in place
(`cachedTypes`: `current` with `freshTypeTables := false`).  Every single generation, every repetition of one version and every
ascending order of versions is as documented; a LOWER version generated after a higher one in the same process sees the higher
version's table.  These are the negations of the conclusions of `Props.C17Opts` on concrete histories; the same histories
(`histories`) are replayed on the implementation by harness/c17.py on every run, where they must come out as the fresh runs do.
-/
namespace NasdaqModel.Witness.C17Opts
open NasdaqModel GenHistory

/-- the library with memoised type-table builders -/
def cachedTypes : Semantics := { current with freshTypeTables := false }

def optsG (d : Nat) : GenOpts := ⟨[103], [], true, .out d, true⟩   -- app "g"
/-- field `F20` is declared LOCALMKTDATE (String up to 5.0, LocalMktDate in 5.0SP2); `F36` is declared SEQNUM (unknown to 4.2) -/
def dictSP2 : FixSpec := ⟨1, 502, [1, 20], [20], [], []⟩
def dict44 : FixSpec := ⟨2, 44, [1, 20], [20], [], []⟩
def dict42seq : FixSpec := ⟨3, 42, [2, 36], [2], [], []⟩
def dict42grp : FixSpec := ⟨4, 42, [1], [1], [.mk 1 [1] []], [1]⟩    -- a group count field: NUMINGROUP, unknown to 4.2
def dict50 : FixSpec := ⟨5, 50, [1, 20], [20], [], []⟩
def fieldsG : Str := [102, 105, 120, 95, 103, 95, 102, 105, 101, 108, 100, 115, 46, 112, 121]   -- "fix_g_fields.py"

example : declTy 20 = GenFix.lit "LOCALMKTDATE" ∧ declTy 36 = GenFix.lit "SEQNUM" ∧ declTy 1 = GenFix.lit "INT"
    ∧ declTy 2 = GenFix.lit "STRING" := by decide

/-- (what ran before, the invocation under test) -/
def hLocalMktDate : List Ev × Inv := ([.inv (.fix dictSP2 (optsG 1))], .fix dict44 (optsG 2))
def hSeqNum42 : List Ev × Inv := ([.inv (.fix dict44 (optsG 1))], .fix dict42seq (optsG 2))
def hNumInGroup42 : List Ev × Inv := ([.inv (.fix dict50 (optsG 1))], .fix dict42grp (optsG 2))
def hAscending : List Ev × Inv := ([.inv (.fix dict44 (optsG 1)), .inv (.fix dict50 (optsG 2))], .fix dictSP2 (optsG 3))
def hSameDirOtherVersion : List Ev × Inv := ([.inv (.fix dictSP2 (optsG 1))], .fix dict50 (optsG 1))

def histories : List (String × List Ev) :=
  [("witness-types-localmktdate", hLocalMktDate), ("witness-types-seqnum-42", hSeqNum42),
   ("witness-types-numingroup-42", hNumInGroup42), ("witness-types-ascending", hAscending),
   ("witness-types-same-dir-other-version", hSameDirOtherVersion)].map fun x => (x.1, x.2.1 ++ [.inv x.2.2])

theorem C17_witness_cached_types_not_pure : pureGen cachedTypes = false ∧ pureGen current = true := by decide

/-- the first table asked for in a process is the documented one, whichever version it is: single generations (all the
    suite does) cannot see the memoisation -/
theorem C17_witness_cached_first_call_documented :
    (typesFor cachedTypes st0.types 42).2 = tableOf 42 ∧ (typesFor cachedTypes st0.types 44).2 = tableOf 44
    ∧ (typesFor cachedTypes st0.types 50).2 = tableOf 50 ∧ (typesFor cachedTypes st0.types 502).2 = tableOf 502 := by decide

/-- **LOCALMKTDATE.**  A 4.4 dictionary generated after a 5.0SP2 dictionary in one process: its field `F20` (LOCALMKTDATE) is
    given `FixLocalMktDate`; generated alone it is `FixString`. -/
theorem C17_witness_cached_types_localmktdate :
    let w := run cachedTypes w0 hLocalMktDate.1
    read (invoke cachedTypes w hLocalMktDate.2).1.fs (.out 2, fieldsG) = some [.fixFields 2 [1, 20] [] [.FixInt, .FixLocalMktDate]]
    ∧ read (invoke cachedTypes w0 hLocalMktDate.2).1.fs (.out 2, fieldsG) = some [.fixFields 2 [1, 20] [] [.FixInt, .FixString]]
    -- the library as it is: the fresh file in both cases
    ∧ read (invoke current (run current w0 hLocalMktDate.1) hLocalMktDate.2).1.fs (.out 2, fieldsG)
        = some [.fixFields 2 [1, 20] [] [.FixInt, .FixString]] := by decide

/-- the conclusion of `C17_no_leak_between_specs` / `C17_no_leak_between_option_changes` fails for `cachedTypes` -/
theorem C17_witness_cached_types_no_leak_false :
    ¬ (∀ n, n ∈ targetNames hLocalMktDate.2 →
        read (invoke cachedTypes (run cachedTypes w0 hLocalMktDate.1) hLocalMktDate.2).1.fs (hLocalMktDate.2.dir, n)
          = read (invoke cachedTypes w0 hLocalMktDate.2).1.fs (hLocalMktDate.2.dir, n)) := by
  intro h
  have := h fieldsG (by decide)
  revert this
  decide

/-- **Accepted type names.**  A 4.2 dictionary that declares a SEQNUM field, or a group (count field: NUMINGROUP), fails alone
    with KeyError; after a 4.4 / 5.0 generation in the same process it "succeeds". -/
theorem C17_witness_cached_types_outcome :
    (invoke cachedTypes w0 hSeqNum42.2).2 = .error .key
    ∧ (invoke cachedTypes (run cachedTypes w0 hSeqNum42.1) hSeqNum42.2).2 = .ok ()
    ∧ (invoke cachedTypes w0 hNumInGroup42.2).2 = .error .key
    ∧ (invoke cachedTypes (run cachedTypes w0 hNumInGroup42.1) hNumInGroup42.2).2 = .ok ()
    -- the library as it is: KeyError in every history
    ∧ (invoke current (run current w0 hSeqNum42.1) hSeqNum42.2).2 = .error .key
    ∧ (invoke current (run current w0 hNumInGroup42.1) hNumInGroup42.2).2 = .error .key := by decide

/-- Versions in ascending order are not exposed: each table is still the documented one when it is first used. -/
theorem C17_witness_cached_types_ascending_hidden :
    let w := run cachedTypes w0 hAscending.1
    (invoke cachedTypes w hAscending.2).2 = .ok ()
    ∧ read (invoke cachedTypes w hAscending.2).1.fs (.out 3, fieldsG) = read (invoke cachedTypes w0 hAscending.2).1.fs (.out 3, fieldsG) := by
  decide

/-- …and a separate process hides it as well. -/
theorem C17_witness_cached_types_separate_process :
    let w := run cachedTypes w0 (hLocalMktDate.1 ++ [.newProcess])
    read (invoke cachedTypes w hLocalMktDate.2).1.fs (.out 2, fieldsG) = read (invoke cachedTypes w0 hLocalMktDate.2).1.fs (.out 2, fieldsG) := by
  decide

end NasdaqModel.Witness.C17Opts
