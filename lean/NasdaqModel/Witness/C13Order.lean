import NasdaqModel.Props.C13Order
/-
C13 — machine-checked counterexample for an encoder the library does NOT have (a seeded change introduced it, seeded/C13i): `Message.to_bytes`
writing the trailer with CheckSum (tag 10) LAST whatever the assignment order (`encMsgChecksumLast`), everything else unchanged.  On the
message of `Props/C13Order.lean` (CheckSum assigned first in the trailer) the bytes still decode, every byte is consumed, the field values
are the same and re-encoding is identical — but the decoded trailer is `[93, 89, 10]`, the original's `[10, 93, 89]`, and `Message.__eq__`
(`pyEqDict`, OrderedDict comparison of the segments) is false: "compares equal to the original" fails.  With the library's encoder the same
message round-trips (`Props.C13Order.C13Order_standard_trailer_roundtrip`).  The harness replays the message on the implementation
(corpus/C13/trailer-checksum-assigned-first.json) and generates dictionaries with the standard trailer on every run.
-/
namespace NasdaqModel.Witness.C13Order
open NasdaqModel Py Fix Props.C13 Props.C13Order

/-- `sorted(trailer.values.items(), key=lambda kv: kv[0] == 10)`: a stable sort that moves tag 10 to the end -/
def checksumLast (s : Seg) : Seg := s.filter (fun p => p.1 != 10) ++ s.filter (fun p => p.1 == 10)

/-- `Message.to_bytes` with the trailer written CheckSum-last -/
def encMsgChecksumLast (d : MsgDef) (m : Msg) : Except Err Bytes := encMsg d { m with trl := checksumLast m.trl }

/-- encode with `enc`, decode with the model's decoder: (every byte consumed, same values as a plain dict per segment, `==`) -/
def observe (enc : MsgDef → Msg → Except Err Bytes) (d : MsgDef) (m : Msg) : Except Err (Bool × Bool × Bool × List Nat) :=
  match enc d m with
  | .ok bs =>
    match decodeMsg [d] bs with
    | .ok r => .ok (r.1 == bs.length,
                    decide (r.2.2.trl.length = m.trl.length) && subDictD r.2.2.trl m.trl && pyEqDict { r.2.2 with trl := m.trl } m,
                    pyEqDict r.2.2 m, keysOf r.2.2.trl)
    | .error e => .error e
  | .error e => .error e

/-- the witness is inside the property's quantifier -/
theorem C13Order_witness_wf :
    wfDef orderDef = true ∧ wfMsg orderDef orderMsg = true ∧ lookupV orderMsg.hdr 35 = some (.str orderDef.type) := by
  refine ⟨by decide, by decide, rfl⟩

/-- CheckSum-last encoder: decodes, all bytes consumed, same field values — and NOT equal to the original (trailer order `[93, 89, 10]`) -/
theorem C13Order_witness_checksum_last_not_equal :
    observe encMsgChecksumLast orderDef orderMsg = .ok (true, true, false, [93, 89, 10]) := by decide +kernel

/-- the library's encoder (insertion order): equal, trailer order as assigned -/
theorem C13Order_witness_insertion_order_equal :
    observe encMsg orderDef orderMsg = .ok (true, true, true, [10, 93, 89]) := by decide +kernel

/-- when CheckSum was assigned last the two encoders write the same bytes: only the assignment order exposes the difference -/
theorem C13Order_witness_agree_when_last :
    encMsgChecksumLast orderDef { orderMsg with trl := [(93, .int 2), (89, .str [122, 122]), (10, .str [48, 48, 55])] } =
    encMsg orderDef { orderMsg with trl := [(93, .int 2), (89, .str [122, 122]), (10, .str [48, 48, 55])] } := by decide +kernel

end NasdaqModel.Witness.C13Order
