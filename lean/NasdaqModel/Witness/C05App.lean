import NasdaqModel.Model.AppSession
/-
C05, application sessions — machine-checked histories, replayed on the implementation every run by harness/app_sessions.py
(`app.witness <name>` prints these very event lists).

(A) `close()` awaited from the application-level message callback (the repaired finding C05-app-close-from-message-callback):
    the close is carried out by the calling task — the second dispatcher `D2` — which stops the soup session's tasks, closes the
    transport, runs `_on_soup_close` (queue stopped without cancelling itself, `closed`, the user's close callback, event set);
    `close()` returns normally to the callback, the callback returns, no further message callback starts, the session is closed
    completely.  `Witness/C05AppOld.lean` decides that the transition relation before the repair ends the same call with
    `CancelledError` on the recorded history.
(B) regression of /repo 7eb8348: a message callback whose cancellation clean-up awaits `close()`: with the order of
    `_on_soup_close` as it is (`closed = True` first) the call returns at once through the guard.  With the old order
    (`closedFirst := false`) it used to deadlock (`Witness/C05AppOld.lean`: old `close()`); since the repair of (A) it does not
    any more even with the old order: the clean-up's `close()` runs on the dispatcher, finds the soup session closed and returns.
(C) the race of (A) with a close that another task has already started: the callback's `close()` returns at once (soup session
    already closing: `AsyncSession.close()`'s guard), the dispatcher goes on — the next callback may start — until the other
    closer reaches `_on_soup_close`, stops the dispatcher (the callback in flight is abandoned) and sets the event.
-/
namespace NasdaqModel.Witness.C05App
open NasdaqModel App

def login : List Ev :=
  [.inner .connect, .inner (.callLogin 1), .inner (.run .V), .inner (.data [.msg 0]), .inner (.run .R), .inner (.run .V),
   .inner (.run (.U 1))]

/-! ### (A) `close()` awaited from the message callback -/

def cfgA : ACfg :=
  { dec := fun n => if n = 0 then .skip else .val n
    hasMsgCb := true, msgBeh := fun v => if v = 3 then .close else .ret, hasCb := true, cbBeh := .ret, closedFirst := true }

/-- messages 3 and 4 arrive; the callback for 3 awaits `app.close()`: event created, `D2` enters `soup_session.close()` and stops
    the soup session's dispatcher, monitors and reader one after the other (each `run D2` is a step of the inner task `U 0`),
    closes the transport, runs `_on_soup_close` and returns into the callback -/
def historyA : List Ev := login ++
  [.run .D2, .inner (.run .D), .inner (.data [.msg 3, .msg 4]), .inner (.run .R), .inner (.run .R),
   .inner (.run .D), .inner (.run .D), .inner (.run .D), .run .D2,
   .inner (.run .D), .run .D2, .inner (.run .L), .run .D2, .inner (.run .M), .run .D2, .inner (.run .R), .run .D2]

set_option maxRecDepth 100000 in
/-- the `close()` call of the handler returns normally after the close callback, the handler returns … -/
theorem C05App_witness_close_from_handler_returns :
    (runEvs cfgA {} historyA).trace2 =
      [.msgEnter 3, .cbEnter, .cbExit, .closeRet (.handler 3) .ok, .msgExit 3] := by decide

set_option maxRecDepth 100000 in
/-- … and the session is closed completely: soup close finished, `_on_soup_close` returned, application session reports
    closed, queue stopped, event set, second dispatcher ended in the same step, the undelivered message 4 stays in the
    stopped queue, `_dispatcher_task` is `None` -/
theorem C05App_witness_close_from_handler_completes :
    (runEvs cfgA {} historyA).inner.cstage = .finished ∧ (runEvs cfgA {} historyA).cpc = .finished ∧
    (runEvs cfgA {} historyA).appClosed = true ∧ (runEvs cfgA {} historyA).q2Closed = true ∧
    (runEvs cfgA {} historyA).evt = some true ∧ (runEvs cfgA {} historyA).astatus .D2 = .done ∧
    (runEvs cfgA {} historyA).disp2Set = false ∧ (runEvs cfgA {} historyA).q2 = [4] := by decide

set_option maxRecDepth 100000 in
/-- while the close is under way `D2` is inside `soup_session.close()`, runnable exactly when its inner alias is -/
theorem C05App_witness_close_from_handler_midway :
    (runEvs cfgA {} (historyA.take 16)).astatus .D2 = .inSoup ∧ (runEvs cfgA {} (historyA.take 16)).aprog .D2 = .handlerClose 3 ∧
    (runEvs cfgA {} (historyA.take 16)).inner.closed = true ∧ (runEvs cfgA {} (historyA.take 16)).evt = some false ∧
    (runEvs cfgA {} (historyA.take 16)).inner.status (.U d2u) = .waitT .D ∧
    (runEvs cfgA {} (historyA.take 16)).cpc = .idle ∧ (runEvs cfgA {} (historyA.take 16)).appClosed = false := by decide

/-- a user task calls `close()` while the handler's close is under way (inserted after step 16 of `historyA`): the event exists, the
    guard returns at once -/
def historyA2 : List Ev := historyA.take 16 ++ [.appClose 7] ++ historyA.drop 16

set_option maxRecDepth 100000 in
theorem C05App_witness_close_from_handler_second_caller :
    (runEvs cfgA {} historyA2).trace2 =
      [.msgEnter 3, .closeRet (.user 7) .ok, .cbEnter, .cbExit, .closeRet (.handler 3) .ok, .msgExit 3] := by decide

/-! ### (B) `close()` awaited in the cancellation clean-up of a message callback -/

def cfgB (closedFirst : Bool) : ACfg :=
  { dec := fun n => if n = 0 then .skip else .val n
    hasMsgCb := true, msgBeh := fun _ => .awaitCC 5, hasCb := true, cbBeh := .ret, closedFirst := closedFirst }

/-- message 3 is being handled when the peer disconnects; the closing task stops the soup session, enters `_on_soup_close` and
    cancels the second dispatcher; the callback's clean-up awaits `app.close()` -/
def historyB : List Ev := login ++
  [.run .D2, .inner (.run .D), .inner (.data [.msg 3]), .inner (.run .R), .inner (.run .D), .inner (.run .D),
   .run .D2, .run .D2, .inner .eof,
   .inner (.run .C), .inner (.run .D), .inner (.run .C), .inner (.run .L), .inner (.run .C), .inner (.run .M), .inner (.run .C),
   .inner (.run .R), .inner (.run .C), .run .D2]

set_option maxRecDepth 100000 in
/-- the order as it is (/repo 7eb8348): `closed` is already true, the clean-up's `close()` returns at once through its guard, the
    dispatcher ends, the closer goes on and the close completes -/
theorem C05App_witness_cleanup_close_repaired :
    (runEvs (cfgB true) {} (historyB ++ [.inner (.run .C)])).trace2 =
      [.msgEnter 3, .closeRet (.handler 3) .ok, .msgAbandon 3, .cbEnter, .cbExit] ∧
    (runEvs (cfgB true) {} (historyB ++ [.inner (.run .C)])).inner.cstage = .finished ∧
    (runEvs (cfgB true) {} (historyB ++ [.inner (.run .C)])).cpc = .finished ∧
    (runEvs (cfgB true) {} (historyB ++ [.inner (.run .C)])).appClosed = true := by decide

set_option maxRecDepth 100000 in
/-- the old order with the repaired `close()`: past the guard the call runs on the dispatcher, finds the soup session closed and
    returns at once; the event it created is set at the end of `_on_soup_close` -/
theorem C05App_witness_cleanup_close_old_order_no_deadlock :
    (runEvs (cfgB false) {} (historyB ++ [.inner (.run .C)])).trace2 =
      [.msgEnter 3, .closeRet (.handler 3) .ok, .msgAbandon 3, .cbEnter, .cbExit] ∧
    (runEvs (cfgB false) {} (historyB ++ [.inner (.run .C)])).inner.cstage = .finished ∧
    (runEvs (cfgB false) {} (historyB ++ [.inner (.run .C)])).cpc = .finished ∧
    (runEvs (cfgB false) {} (historyB ++ [.inner (.run .C)])).evt = some true ∧
    (runEvs (cfgB false) {} (historyB ++ [.inner (.run .C)])).appClosed = true := by decide

/-! ### (C) the callback's `close()` races with a close another task has started -/

def cfgC : ACfg :=
  { dec := fun n => if n = 0 then .skip else .val n
    hasMsgCb := true, msgBeh := fun v => if v = 3 then .awaitClose 0 else .await 5, hasCb := true, cbBeh := .ret,
    closedFirst := true }

/-- the callback for 3 is in flight (4 is queued behind it) when the peer disconnects; the closing task enters the close body
    (soup session closed, its dispatcher cancelled); now the callback calls `close()`: returns at once; the callback returns, the
    dispatcher takes 4; the closing task goes on, reaches `_on_soup_close`, cancels the dispatcher: the callback for 4 is
    abandoned; close callback, event set -/
def historyC : List Ev := login ++
  [.run .D2, .inner (.run .D), .inner (.data [.msg 3, .msg 4]), .inner (.run .R), .inner (.run .R),
   .inner (.run .D), .inner (.run .D), .inner (.run .D), .run .D2,
   .inner .eof, .inner (.run .C),
   .run .D2, .run .D2,
   .inner (.run .D), .inner (.run .C), .inner (.run .L), .inner (.run .C), .inner (.run .M), .inner (.run .C),
   .inner (.run .R), .inner (.run .C), .run .D2, .inner (.run .C)]

set_option maxRecDepth 100000 in
theorem C05App_witness_close_from_handler_race :
    (runEvs cfgC {} historyC).trace2 =
      [.msgEnter 3, .closeRet (.handler 3) .ok, .msgExit 3, .msgEnter 4, .msgAbandon 4, .cbEnter, .cbExit] ∧
    (runEvs cfgC {} historyC).inner.cstage = .finished ∧ (runEvs cfgC {} historyC).cpc = .finished ∧
    (runEvs cfgC {} historyC).appClosed = true ∧ (runEvs cfgC {} historyC).evt = some true ∧
    (runEvs cfgC {} historyC).astatus .D2 = .done := by decide

end NasdaqModel.Witness.C05App
