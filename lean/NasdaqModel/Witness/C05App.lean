import NasdaqModel.Model.AppSession
/-
C05, application sessions — machine-checked histories, replayed on the implementation every run by harness/app_sessions.py
(`app.witness <name>` prints these very event lists).

(A) the known finding C05-app-close-from-message-callback: `close()` awaited from the application-level message callback gets
    `CancelledError` (the dispatcher task running the callback is cancelled by the very close it is waiting for) — and the
    session still closes completely: close callback entered and left once, event set, everything reports closed.
(B) regression of /repo 7eb8348: with the old order in `_on_soup_close` (`closedFirst := false`: `closed = True` only after
    `await self._message_queue.stop()`) a message callback whose cancellation clean-up awaits `close()` deadlocks the whole
    close; with the repaired order the same history closes completely.
-/
namespace NasdaqModel.Witness.C05App
open NasdaqModel App

def login : List Ev :=
  [.inner .connect, .inner (.callLogin 1), .inner (.run .V), .inner (.data [.msg 0]), .inner (.run .R), .inner (.run .V),
   .inner (.run (.U 1))]

/-! ### (A) `close()` awaited from the message callback -/

def cfgA : ACfg :=
  { dec := fun n => if n = 0 then .skip else .val n
    hasMsgCb := true, msgBeh := fun v => if v = 3 then .close else .ret, hasCb := true, cbBeh := .ret, closedFirst := true }

/-- messages 3 and 4 arrive; the callback for 3 awaits `app.close()`: event created, closing task started, the callback waits;
    the closing task stops the soup session, enters `_on_soup_close`, cancels the second dispatcher — i.e. the waiting callback —
    and completes the close -/
def historyA : List Ev := login ++
  [.run .D2, .inner (.run .D), .inner (.data [.msg 3, .msg 4]), .inner (.run .R), .inner (.run .R),
   .inner (.run .D), .inner (.run .D), .inner (.run .D), .run .D2,
   .inner (.run .C), .inner (.run .D), .inner (.run .C), .inner (.run .L), .inner (.run .C), .inner (.run .M), .inner (.run .C),
   .inner (.run .R), .inner (.run .C), .run .D2, .inner (.run .C)]

set_option maxRecDepth 100000 in
/-- the `close()` call of the handler ends with `CancelledError`, the handler is abandoned … -/
theorem C05App_witness_close_from_handler_cancelled :
    (runEvs cfgA {} historyA).trace2 =
      [.msgEnter 3, .closeRet (.handler 3) .cancelled, .msgAbandon 3, .cbEnter, .cbExit] := by decide

set_option maxRecDepth 100000 in
/-- … and the session still closes completely: soup close finished, `_on_soup_close` returned, application session reports
    closed, queue stopped, event set, second dispatcher ended, the undelivered message 4 stays in the stopped queue -/
theorem C05App_witness_close_from_handler_completes :
    (runEvs cfgA {} historyA).inner.cstage = .finished ∧ (runEvs cfgA {} historyA).cpc = .finished ∧
    (runEvs cfgA {} historyA).appClosed = true ∧ (runEvs cfgA {} historyA).q2Closed = true ∧
    (runEvs cfgA {} historyA).evt = some true ∧ (runEvs cfgA {} historyA).astatus .D2 = .done ∧
    (runEvs cfgA {} historyA).q2 = [4] := by decide

/-! ### (B) `close()` awaited in the cancellation clean-up of a message callback -/

def cfgB (closedFirst : Bool) : ACfg :=
  { dec := fun n => if n = 0 then .skip else .val n
    hasMsgCb := true, msgBeh := fun _ => .awaitCC 5, hasCb := true, cbBeh := .ret, closedFirst := closedFirst }

/-- message 3 is being handled when the peer disconnects; the closing task stops the soup session, enters `_on_soup_close` and
    cancels the second dispatcher; the callback's clean-up awaits `app.close()` -/
def historyB : List Ev := login ++
  [.run .D2, .inner (.run .D), .inner (.data [.msg 3]), .inner (.run .R), .inner (.run .D), .inner (.run .D),
   .run .D2, .run .D2, .inner .eof,
   .inner (.run .C), .inner (.run .D), .inner (.run .C), .inner (.run .L), .inner (.run .C), .inner (.run .M), .inner (.run .C),
   .inner (.run .R), .inner (.run .C), .run .D2]

def innerTasks : List Sess.Tid := [.R, .D, .L, .M, .C, .V, .U 1]
def appTasks : List ATid := [.D2, .V2]

set_option maxRecDepth 100000 in
/-- old order: the clean-up's `close()` creates the event and waits; the closer waits for the dispatcher: nothing can run, the
    close callback is never entered, the application session never reports closed -/
theorem C05App_witness_cleanup_close_deadlock :
    (runEvs (cfgB false) {} historyB).inner.closed = true ∧
    (runEvs (cfgB false) {} historyB).inner.cstage = .cb .C 0 .closingTail ∧
    (runEvs (cfgB false) {} historyB).cpc = .waitD2 ∧
    (runEvs (cfgB false) {} historyB).astatus .D2 = .waitE ∧ (runEvs (cfgB false) {} historyB).evt = some false ∧
    (runEvs (cfgB false) {} historyB).appClosed = false ∧
    (runEvs (cfgB false) {} historyB).trace2 = [.msgEnter 3] ∧
    innerTasks.all (fun t => !runnableI (runEvs (cfgB false) {} historyB) t) = true ∧
    appTasks.all (fun t => !runnable2 (runEvs (cfgB false) {} historyB) t) = true := by decide

set_option maxRecDepth 100000 in
/-- repaired order (/repo 7eb8348): `closed` is already true, the clean-up's `close()` returns at once, the dispatcher ends, the
    closer goes on and the close completes -/
theorem C05App_witness_cleanup_close_repaired :
    (runEvs (cfgB true) {} (historyB ++ [.inner (.run .C)])).trace2 =
      [.msgEnter 3, .closeRet (.handler 3) .ok, .msgAbandon 3, .cbEnter, .cbExit] ∧
    (runEvs (cfgB true) {} (historyB ++ [.inner (.run .C)])).inner.cstage = .finished ∧
    (runEvs (cfgB true) {} (historyB ++ [.inner (.run .C)])).cpc = .finished ∧
    (runEvs (cfgB true) {} (historyB ++ [.inner (.run .C)])).appClosed = true := by decide

end NasdaqModel.Witness.C05App
