import NasdaqModel.Model.SyncFacade
/-
C20 — the semantics seeded change C20j gave `_wait_for`, and why it is not the code's:

    except concurrent.futures.TimeoutError:
        if future.done():
            continue          # was: raise   ("completed between the expiry of this slice and the check: pick the outcome up
                              #               on the next pass")

`passStepJ` is `passStep` with that one line changed.  With a coroutine that ends with its OWN TimeoutError the next pass's
`future.result()` raises it again, the same clause catches it, the future is done: the loop never ends, however many passes
the environment grants (`C20_witness_j_spins`), while the code's loop ends in the first such pass
(`C20_witness_code_ends`, instance of `Props/C20Raise.C20_wait_leaves_loop_when_future_completes`).
-/
namespace NasdaqModel.Witness.C20Raise
open NasdaqModel.SyncFacade

def passStepJ (fin : Fin) (p : Pass) : Option Res :=
  let r : Res := if p.completes then deliver fin else .raised .expiry
  match r with
  | .returned => some .returned
  | .raised e =>
    if e.isTimeout then
      if p.completes || p.doneAtCheck then none                                    -- if future.done(): continue
      else if p.deadline then some (.raised e)
      else if !p.alive && !p.doneAtCheck2 then some (.raised .state)
      else none
    else some (.raised e)

def waitForJ (fin : Fin) : List Pass → Option Res
  | [] => none
  | p :: ps =>
    match passStepJ fin p with
    | some r => some r
    | none => waitForJ fin ps

/-- the future is done: every pass from now on looks like this -/
def donePass : Pass := { completes := true, doneAtCheck := true, deadline := false, alive := true, doneAtCheck2 := true }

/-- with `continue`, a coroutine that ended with its own TimeoutError keeps the caller in the loop for ever -/
theorem C20_witness_j_spins (n : Nat) : waitForJ (.raised .timeout) (List.replicate n donePass) = none := by
  induction n with
  | zero => rfl
  | succ k ih => simp only [List.replicate_succ, waitForJ]; exact ih

/-- … the same for every subclass of TimeoutError, and even with a caller-side deadline long past -/
theorem C20_witness_j_spins_sub_deadline (n : Nat) :
    waitForJ (.raised .timeoutSub) (List.replicate n { donePass with deadline := true }) = none := by
  induction n with
  | zero => rfl
  | succ k ih => simp only [List.replicate_succ, waitForJ]; exact ih

/-- the code (`raise`) leaves the loop in the first pass that finds the future done -/
theorem C20_witness_code_ends (n : Nat) :
    waitFor (.raised .timeout) (List.replicate (n + 1) donePass) = some (.raised .timeout) := by
  simp [List.replicate_succ, waitFor, passStep, donePass, deliver, Exc.isTimeout]

/-- any other exception is not affected by the change -/
theorem C20_witness_j_other : waitForJ (.raised .eoq) [donePass] = some (.raised .eoq) := by decide

end NasdaqModel.Witness.C20Raise
