import NasdaqModel.Model.SyncFacade
/-
C20 — the semantics seeded change C20j gave `_wait_for`, and why it is not the code's:

    except concurrent.futures.TimeoutError:
        if future.done():
            continue          # was: raise   ("completed between the expiry of this slice and the check: pick the outcome up
                              #               on the next pass")

`passStepJ` is the pre-repair `passStep` (`passStepRaise` below) with that one line changed.  With a coroutine that ends with its OWN TimeoutError the next pass's
`future.result()` raises it again, the same clause catches it, the future is done: the loop never ends, however many passes
the environment grants (`C20_witness_j_spins`), while the code's loop ends in the first such pass
(`C20_witness_code_ends`, instance of `Props/C20Raise.C20_wait_leaves_loop_when_future_completes`).
-/
namespace NasdaqModel.Witness.C20Raise
open NasdaqModel.SyncFacade

def passStepJ (fin : Fin) (p : Pass) : Option Res :=
  let r : Res := if p.completes then deliver fin else .raised .expiry
  match r with
  | .returned => some .returned
  | .raised e =>
    if e.isTimeout then
      if p.completes || p.doneAtCheck then none                                    -- if future.done(): continue
      else if p.deadline then some (.raised e)
      else if !p.alive && !p.doneAtCheck2 then some (.raised .state)
      else none
    else some (.raised e)

def waitForJ (fin : Fin) : List Pass → Option Res
  | [] => none
  | p :: ps =>
    match passStepJ fin p with
    | some r => some r
    | none => waitForJ fin ps

/-- the future is done: every pass from now on looks like this -/
def donePass : Pass := { completes := true, doneAtCheck := true, deadline := false, alive := true, doneAtCheck2 := true }

/-- with `continue`, a coroutine that ended with its own TimeoutError keeps the caller in the loop for ever -/
theorem C20_witness_j_spins (n : Nat) : waitForJ (.raised .timeout) (List.replicate n donePass) = none := by
  induction n with
  | zero => rfl
  | succ k ih => simp only [List.replicate_succ, waitForJ]; exact ih

/-- … the same for every subclass of TimeoutError, and even with a caller-side deadline long past -/
theorem C20_witness_j_spins_sub_deadline (n : Nat) :
    waitForJ (.raised .timeoutSub) (List.replicate n { donePass with deadline := true }) = none := by
  induction n with
  | zero => rfl
  | succ k ih => simp only [List.replicate_succ, waitForJ]; exact ih

/-- the code (`raise`) leaves the loop in the first pass that finds the future done -/
theorem C20_witness_code_ends (n : Nat) :
    waitFor (.raised .timeout) (List.replicate (n + 1) donePass) = some (.raised .timeout) := by
  simp [List.replicate_succ, waitFor, passStep, donePass, deliver, Exc.isTimeout]

/-- any other exception is not affected by the change -/
theorem C20_witness_j_other : waitForJ (.raised .eoq) [donePass] = some (.raised .eoq) := by decide

/-! ### the code before /repo ea90e75 (finding F-C20-wait-for-slice-race): `if future.done(): raise`

The handler re-raised whatever TimeoutError it had caught.  When that was the EXPIRY of the slice and the future had
completed between the expiry and the `done()` check (`racePass`), a call without any timeout raised TimeoutError and the
value the coroutine had returned - for `receive()` the message it took from the queue - was dropped.  Kept here as a local
definition; the code's `passStep` hands out the future's own outcome (`Props/C20Raise.C20_untimed_value_comes_back`). -/

def passStepRaise (fin : Fin) (p : Pass) : Option Res :=
  let r : Res := if p.completes then deliver fin else .raised .expiry
  match r with
  | .returned => some .returned
  | .raised e =>
    if e.isTimeout then
      if p.completes || p.doneAtCheck then some (.raised e)                       -- if future.done(): raise
      else if p.deadline then some (.raised e)
      else if !p.alive && !p.doneAtCheck2 then some (.raised .state)
      else none
    else some (.raised e)

def waitForRaise (fin : Fin) : List Pass → Option Res
  | [] => none
  | p :: ps =>
    match passStepRaise fin p with
    | some r => some r
    | none => waitForRaise fin ps

/-- the slice expired, the coroutine returned its value before the handler looked at `future.done()` -/
def racePass : Pass := { completes := false, doneAtCheck := true, deadline := false, alive := true, doneAtCheck2 := true }
def quietPass : Pass := { completes := false, doneAtCheck := false, deadline := false, alive := true, doneAtCheck2 := false }

/-- before the repair: an untimed wait on a coroutine that RETURNED A VALUE raised the slice's TimeoutError - the result is lost -/
theorem C20_witness_raise_loses_result : waitForRaise .returned [quietPass, racePass] = some (.raised .expiry) := by decide

/-- … and any error of the coroutine was replaced by that TimeoutError too -/
theorem C20_witness_raise_masks_error : waitForRaise (.raised .eoq) [racePass] = some (.raised .expiry) := by decide

/-- the code now: the value (the error) comes out, with one more `future.result` call -/
theorem C20_witness_code_keeps_result :
    waitFor .returned [quietPass, racePass] = some .returned ∧ waitFor (.raised .eoq) [racePass] = some (.raised .eoq) ∧
    pollsUsed .returned [quietPass, racePass] = 3 := by decide

/-- outside the race window the two agree: same outcome on every pass that does not find the future done after an expiry -/
theorem C20_witness_raise_agrees_elsewhere (fin : Fin) (p : Pass) (h : p.completes = true ∨ p.doneAtCheck = false) :
    passStepRaise fin p = passStep fin p := by
  unfold passStepRaise passStep
  cases hc : p.completes
  · have hd : p.doneAtCheck = false := by rcases h with h | h <;> simp_all
    simp [hd]
  · cases fin with
    | returned => simp [deliver]
    | raised e => cases e <;> simp [deliver, Exc.isTimeout]

end NasdaqModel.Witness.C20Raise
