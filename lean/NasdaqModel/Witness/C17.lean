import NasdaqModel.Model.GenHistory
/-
C17 witnesses: the three clauses of the property were FALSE for the library before a5da5b2 / 6c43d46 / 388f25f (`actual`: files
opened with 'a', class-level generator state never reset) — kept as documentation of the repaired defects and as regressions —
and the project-tool clause is still false for `current` (`C17_witness_new_project_rerun_current`).  One concrete history per defect, each the negation of the conclusion of the
corresponding theorem of Props/C17.lean with all its other hypotheses satisfied; the same histories are replayed on the
implementation by harness/c17.py on every run (`witness_histories`).  Also: no single repair suffices (`…_needs_…`).
-/
namespace NasdaqModel.Witness.C17
open NasdaqModel GenHistory

def specA : SoupSpec := ⟨1, some [(1, 0), (2, 1)], [1, 2], [65, 66]⟩
def specC : SoupSpec := ⟨2, none, [1], [65]⟩              -- no fielddef-root, one `def=` reference: fails alone (KeyError)
def optsX (d : Nat) : GenOpts := ⟨[120], [], true, .out d, true⟩  -- app "x"
def optsY (d : Nat) : GenOpts := ⟨[121], [], true, .out d, true⟩  -- app "y"
def optsG (d : Nat) : GenOpts := ⟨[103], [], true, .out d, true⟩  -- app "g"
def fixA : FixSpec := ⟨1, 44, [1, 2], [1], [.mk 1 [2] [.mk 2 [1] []]], [1, 2]⟩
def fixB : FixSpec := ⟨2, 44, [3], [3], [.mk 1 [3] []], [1]⟩
def soupA (d : Nat) : Inv := .soup .ouch specA (optsX d)
def soupC (d : Nat) : Inv := .soup .ouch specC (optsY d)
def genA (d : Nat) : Inv := .fix fixA (optsG d)
def genB (d : Nat) : Inv := .fix fixB (optsG d)
def modX : Str := [111, 117, 99, 104, 95, 120, 46, 112, 121]                     -- "ouch_x.py"
def groupsG : Str := [102, 105, 120, 95, 103, 95, 103, 114, 111, 117, 112, 115, 46, 112, 121]   -- "fix_g_groups.py"
def oe : Str := [111, 101]
def md : Str := [109, 100]
def projA : Str := [112, 114, 111, 106, 45, 97]                                  -- "proj-a"

/-! The witness histories as data: (what ran before, the invocation under test).  `histories` is what the model driver prints
    for `witness C17` and what harness/c17.py replays on the implementation — the very terms the theorems below are about. -/
def hAppend : List Ev × Inv := ([.inv (soupA 1), .newProcess], soupA 1)
def hFixLeak : List Ev × Inv := ([.inv (genA 1)], genB 2)
def hFixRepeat : List Ev × Inv := ([.inv (genA 1)], (genA 1).retarget (.out 2))
def hFieldDef : List Ev × Inv := ([.inv (soupA 1)], soupC 2)
def hFieldDef2 : List Ev × Inv := ([.inv (soupA 1), .newProcess], soupC 2)
def hFieldDefAlone : List Ev × Inv := ([], soupC 2)
def hNewProject : List Ev × Inv :=
  ([.inv (.newProject 1 projA [(oe, .ouch)]), .newProcess], .newProject 1 projA [(oe, .ouch), (md, .itch)])

def histories : List (String × List Ev) :=
  [("witness-append-mode", hAppend), ("witness-fix-state-leak", hFixLeak), ("witness-fix-not-repeatable", hFixRepeat),
   ("witness-fielddef-leak", hFieldDef), ("witness-fielddef-separate-process", hFieldDef2),
   ("witness-fielddef-alone", hFieldDefAlone), ("witness-new-project-rerun", hNewProject)].map
    fun x => (x.1, x.2.1 ++ [.inv x.2.2])

/-- **append mode** (clause 2).  The same spec generated twice into one directory — even in two separate processes, so no
    process state is involved: the module file holds the module twice, `__init__.py` its line twice, and importing the
    package raises DuplicateMessageException; a fresh run gives one chunk and imports. -/
theorem C17_witness_append_mode :
    let w := run actual w0 hAppend.1
    (invoke actual w0 (soupA 1)).2 = .ok ()
    ∧ dirOnly w.fs (.out 1) (targetNames (soupA 1)) = true
    ∧ read (invoke actual w (soupA 1)).1.fs (.out 1, modX)
        = some [.soupModule .ouch [120] 1 [65, 66] [0, 1], .soupModule .ouch [120] 1 [65, 66] [0, 1]]
    ∧ read (invoke actual w0 (soupA 1)).1.fs (.out 1, modX) = some [.soupModule .ouch [120] 1 [65, 66] [0, 1]]
    ∧ (read (invoke actual w (soupA 1)).1.fs (.out 1, sInit ++ sPy)).map List.length = some 2
    ∧ importAfter actual w (soupA 1) = .error .dup
    ∧ importAfter actual w0 (soupA 1) = .ok () := by decide

/-- the conclusion of `C17_regenerate_in_place` fails for `actual` -/
theorem C17_witness_regenerate_in_place_false :
    ¬ (dirView (invoke actual (run actual w0 hAppend.1) hAppend.2).1.fs hAppend.2.dir
        = dirView (invoke actual w0 hAppend.2).1.fs hAppend.2.dir) := by
  intro h
  have := congrFun h modX
  revert this
  decide

/-- **FIX generator state** (clauses 1 and 3).  Dictionary B generated after dictionary A in one process, into another
    directory: B's groups module contains A's three group classes (A's nested group was even given two), B's own group is
    `NoG1_2` instead of `NoG1_1`, and the package does not import (`fields` has no `F2`); alone B imports. -/
theorem C17_witness_fix_state_leak :
    let w := run actual w0 hFixLeak.1
    (invoke actual w (genB 2)).2 = .ok ()
    ∧ dirOnly w.fs (.out 2) [] = true
    ∧ read (invoke actual w (genB 2)).1.fs (.out 2, groupsG)
        = some [.fixGroups [102, 105, 120, 95, 103]
            [⟨2, 1, [.field 1]⟩, ⟨2, 2, [.field 1]⟩, ⟨1, 1, [.field 2, .group 2 2]⟩, ⟨1, 2, [.field 3]⟩]]
    ∧ read (invoke actual w0 (genB 2)).1.fs (.out 2, groupsG) = some [.fixGroups [102, 105, 120, 95, 103] [⟨1, 1, [.field 3]⟩]]
    ∧ importAfter actual w (genB 2) = .error .attr
    ∧ importAfter actual w0 (genB 2) = .ok () := by decide

/-- the conclusion of `C17_no_leak_between_specs` (second part) fails for `actual` -/
theorem C17_witness_no_leak_false :
    ¬ (∀ n, n ∈ targetNames (genB 2) →
        read (invoke actual (run actual w0 hFixLeak.1) hFixLeak.2).1.fs (hFixLeak.2.dir, n)
          = read (invoke actual w0 hFixLeak.2).1.fs (hFixLeak.2.dir, n)) := by
  intro h
  have := h groupsG (by decide)
  revert this
  decide

/-- the conclusion of `C17_repeatable` fails for `actual`: the SAME dictionary generated twice in one process into two
    empty directories gives different directories (the second one has A's classes twice and `NoG1_2`) -/
theorem C17_witness_repeatable_false :
    dirOnly (run actual w0 hFixRepeat.1).fs (.out 2) [] = true
    ∧ ¬ (dirView (invoke actual w0 ((genA 1).retarget (.out 1))).1.fs (.out 1)
          = dirView (invoke actual (run actual w0 hFixRepeat.1) hFixRepeat.2).1.fs (.out 2)) := by
  refine ⟨by decide, ?_⟩
  intro h
  have := congrFun h groupsG
  revert this
  decide

/-- **`FieldDef.Definitions`** (clause 3).  A spec without `fielddef-root` that references `def="f1"` fails alone with
    KeyError; after spec A in the same process it "succeeds", built from A's definition of `f1` (datatype 0). -/
theorem C17_witness_fielddef_leak :
    (invoke actual (run actual w0 hFieldDefAlone.1) hFieldDefAlone.2).2 = .error .key
    ∧ (invoke actual (run actual w0 hFieldDef.1) hFieldDef.2).2 = .ok ()
    ∧ read (invoke actual (run actual w0 hFieldDef.1) hFieldDef.2).1.fs (.out 2, [111, 117, 99, 104, 95, 121, 46, 112, 121])
        = some [.soupModule .ouch [121] 2 [65] [0]]
    -- in a separate process the leak is gone
    ∧ (invoke actual (run actual w0 hFieldDef2.1) hFieldDef2.2).2 = .error .key := by decide

/-- the conclusion of `C17_outcome_depends_on_spec_only` fails for `actual` -/
theorem C17_witness_outcome_false :
    ¬ ((invoke actual (run actual w0 hFieldDef.1) hFieldDef.2).2 = (invoke actual w0 hFieldDef.2).2) := by decide

/-- **`new_project` run again** to add an application: `pyproject.toml` and `tox.ini` are the concatenation of two
    renderings (two `[project]` tables, two `[tox]` sections: neither parses). -/
theorem C17_witness_new_project_rerun :
    let w := (invoke actual (run actual w0 hNewProject.1) hNewProject.2).1
    read w.fs (.proj 1 projA, sTox) = some [.tox (srcName projA) [(oe, .ouch)], .tox (srcName projA) [(oe, .ouch), (md, .itch)]]
    ∧ read w.fs (.proj 1 projA, sPyproject) = some [.pyproject projA, .pyproject projA]
    ∧ configValid (read w.fs (.proj 1 projA, sTox)) = false
    ∧ configValid (read w.fs (.proj 1 projA, sPyproject)) = false := by decide

/-- the same history for the library as it is now (`current`: generators repaired, project tool not): still false -/
theorem C17_witness_new_project_rerun_current :
    let w := (invoke current (run current w0 hNewProject.1) hNewProject.2).1
    configValid (read w.fs (.proj 1 projA, sTox)) = false
    ∧ configValid (read w.fs (.proj 1 projA, sPyproject)) = false
    ∧ read w.fs (.proj 1 projA, sPyproject) = some [.pyproject projA, .pyproject projA] := by decide

/-! no single repair is enough -/

/-- files opened with 'w' but the class-level state kept: the FIX leak is still there -/
theorem C17_witness_needs_state_reset :
    importAfter { actual with genMode := .truncate } (run { actual with genMode := .truncate } w0 [.inv (genA 1)]) (genB 2)
      = .error .attr := by decide

/-- `UniqueNameCounter` cleared but `Group.Contexts` kept: A's classes are still in B's groups module -/
theorem C17_witness_needs_contexts_reset :
    let sem := { fixed with resetContexts := false }
    read (invoke sem (run sem w0 [.inv (genA 1)]) (genB 2)).1.fs (.out 2, groupsG)
      ≠ read (invoke sem w0 (genB 2)).1.fs (.out 2, groupsG) := by decide

/-- `Group.Contexts` emptied but the counters kept: B's group is still `NoG1_2` -/
theorem C17_witness_needs_counter_reset :
    let sem := { fixed with resetCounter := false }
    read (invoke sem (run sem w0 [.inv (genA 1)]) (genB 2)).1.fs (.out 2, groupsG)
      = some [.fixGroups [102, 105, 120, 95, 103] [⟨1, 2, [.field 3]⟩]] := by decide

/-- state reset but files still appended to: regenerating in place still doubles the module -/
theorem C17_witness_needs_truncate :
    let sem := { fixed with genMode := .append }
    importAfter sem (run sem w0 [.inv (soupA 1)]) (soupA 1) = .error .dup := by decide

end NasdaqModel.Witness.C17
