import NasdaqModel.Model.GenSoupApp
/-
C15 — the specifications that were counterexamples on the generator before the repairs
(/repo 5aeb18b array of fixed-length strings, 77e6d60 HTML escaping, 6e4eeaa quote / backslash, 8ed2437 empty record;
see /verif/fixes/C15-*.md).  They are kept as regressions: each is now well-formed, and `gen` followed by the import of
the generated module gives exactly the schema the specification denotes (computed here by `decide`, independently of the
general theorem `C15_gen_denotes`).  The driver prints these specifications (`witness C15`) and the harness runs them on
the implementation every run.
-/
namespace NasdaqModel.Witness.C15
open NasdaqModel GenSoupApp

def fld (name ty : String) : FieldEl := { name := some (cp name), ty := some (cp ty) }

/-- one message with one field -/
def oneMsg (f : FieldEl) (enums : List EnumEl := []) : Spec :=
  { enums := enums, fielddefs := [], records := [],
    messages := [⟨cp "Order", cp "65", none, some (cp "outgoing"), [fld "qty" "int_4_be", f]⟩] }

/-- `<field name="tags" type="str_ascii_n" length="3" array="true"/>` -/
def arrayOfFixed : Spec := oneMsg { fld "tags" "str_ascii_n" with length := some (cp "3"), array := some (cp "true") }

/-- now generated as `Array(FixedAsciiString(length=3), UnsignedShort)` -/
theorem C15_regress_array_of_fixed_string :
    wfSpec .itch arrayOfFixed = true
    ∧ (gen .itch (cp "app") true arrayOfFixed >>= evalModule) = denote .itch arrayOfFixed
    ∧ (∃ sch, denote .itch arrayOfFixed = .ok sch
        ∧ sch.messages.map (fun m => m.fields.map (·.ty))
          = [[.prim .int4be, .array (.fixed false (some 3)) (.prim .uint2)]]) := by
  refine ⟨by decide, by decide, ⟨_, rfl, by decide⟩⟩

def sideEnum (c : String) : EnumEl := ⟨cp "Side", some (cp "char_ascii"), [⟨cp "Buy", cp "B"⟩, ⟨cp "Odd", cp c⟩]⟩
def enumSpec (c : String) : Spec := oneMsg (fld "side" "enum:Side") [sideEnum c]

/-- `<value name="Odd">&lt;</value>`: the member's value is the character `<` -/
theorem C15_regress_html_enum_value :
    wfSpec .ouch (enumSpec "<") = true
    ∧ (gen .ouch (cp "app") true (enumSpec "<") >>= evalModule) = denote .ouch (enumSpec "<")
    ∧ (∃ sch, (gen .ouch (cp "app") true (enumSpec "<") >>= evalModule) = .ok sch
        ∧ sch.enums.map (·.members) = [[(cp "Buy", .str (cp "B")), (cp "Odd", .str (cp "<"))]]) := by
  refine ⟨by decide, by decide, ⟨_, rfl, by decide⟩⟩

def defaultSpec (d : String) : Spec := oneMsg { fld "venue" "str_iso-8859-1" with dflt := some (cp d) }

/-- `default="A&amp;B"`: the declared default is the text `A&B` -/
theorem C15_regress_html_default_value :
    wfSpec .sqf (defaultSpec "A&B") = true
    ∧ (gen .sqf (cp "app") true (defaultSpec "A&B") >>= evalModule) = denote .sqf (defaultSpec "A&B")
    ∧ (∃ sch, (gen .sqf (cp "app") true (defaultSpec "A&B") >>= evalModule) = .ok sch
        ∧ sch.messages.map (fun m => m.fields.map (·.dflt)) = [[none, some (.str (cp "A&B"))]]) := by
  refine ⟨by decide, by decide, ⟨_, rfl, by decide⟩⟩

/-- `<value name="Odd">'</value>` is generated as `Odd = '\''` and evaluates to the quote character -/
theorem C15_regress_quote :
    wfSpec .itch (enumSpec "'") = true
    ∧ (gen .itch (cp "app") true (enumSpec "'") >>= evalModule) = denote .itch (enumSpec "'")
    ∧ (∃ m, gen .itch (cp "app") true (enumSpec "'") = .ok m
        ∧ m.enums.map (·.members) = [[(cp "Buy", ⟨true, cp "B"⟩), (cp "Odd", ⟨true, cp "\\'"⟩)]]) := by
  refine ⟨by decide, by decide, ⟨_, rfl, by decide⟩⟩

/-- a backslash is generated as `Odd = '\\'` -/
theorem C15_regress_backslash :
    wfSpec .itch (enumSpec "\\") = true
    ∧ (gen .itch (cp "app") true (enumSpec "\\") >>= evalModule) = denote .itch (enumSpec "\\")
    ∧ (∃ sch, denote .itch (enumSpec "\\") = .ok sch
        ∧ sch.enums.map (·.members) = [[(cp "Buy", .str (cp "B")), (cp "Odd", .str [92])]]) := by
  refine ⟨by decide, by decide, ⟨_, rfl, by decide⟩⟩

/-- a message and a record without fields -/
def emptyFields : Spec :=
  { enums := [], fielddefs := [], records := [⟨cp "Nothing", []⟩],
    messages := [⟨cp "EndOfSnapshot", cp "G", none, some (cp "outgoing"), []⟩,
                 ⟨cp "Holder", cp "72", none, some (cp "outgoing"),
                   [{ fld "nones" "record:Nothing" with array := some (cp "true"), endian := some (cp "big") }]⟩] }

theorem C15_regress_empty_fields :
    wfSpec .sqf emptyFields = true
    ∧ (gen .sqf (cp "app") true emptyFields >>= evalModule) = denote .sqf emptyFields := by
  refine ⟨by decide, by decide⟩

end NasdaqModel.Witness.C15
