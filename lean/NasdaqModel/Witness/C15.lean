import NasdaqModel.Model.GenSoupApp
/-
C15 — machine-checked counterexamples on the unchanged generator (known findings, see /verif/fixes/C15-*.md).
Each witness is a specification that the documentation of the XML format admits, on which
`gen` followed by the import of the generated module does *not* give the schema the specification denotes.
`wfSpec` excludes exactly these shapes (second conjunct of each theorem) and nothing else about the witness
(third conjunct: the same specification without the offending attribute / character is well-formed).
-/
namespace NasdaqModel.Witness.C15
open NasdaqModel GenSoupApp

def fld (name ty : String) : FieldEl := { name := some (cp name), ty := some (cp ty) }

/-- one message with one field -/
def oneMsg (f : FieldEl) (enums : List EnumEl := []) : Spec :=
  { enums := enums, fielddefs := [], records := [],
    messages := [⟨cp "Order", cp "65", none, some (cp "outgoing"), [fld "qty" "int_4_be", f]⟩] }

/-- `<field name="tags" type="str_ascii_n" length="3" array="true"/>` -/
def arrayOfFixed : Spec := oneMsg { fld "tags" "str_ascii_n" with length := some (cp "3"), array := some (cp "true") }
def scalarFixed : Spec := oneMsg { fld "tags" "str_ascii_n" with length := some (cp "3") }

/-- the generated `Array(FixedAsciiString, UnsignedShort)(length=3)` calls an `Array` instance: the import raises `TypeError` -/
theorem C15_witness_array_of_fixed_string :
    (gen .itch (cp "app") true arrayOfFixed >>= evalModule) = .error .type
    ∧ (∃ sch, denote .itch arrayOfFixed = .ok sch)
    ∧ wfSpec .itch arrayOfFixed = false ∧ wfSpec .itch scalarFixed = true := by
  refine ⟨by decide, ⟨_, rfl⟩, by decide, by decide⟩

def sideEnum (c : String) : EnumEl := ⟨cp "Side", some (cp "char_ascii"), [⟨cp "Buy", cp "B"⟩, ⟨cp "Odd", cp c⟩]⟩
def enumSpec (c : String) : Spec := oneMsg (fld "side" "enum:Side") [sideEnum c]

/-- `<value name="Odd">&lt;</value>`: the member is generated as `Odd = '&lt;'` -/
theorem C15_witness_html_escaped_enum_value :
    (gen .ouch (cp "app") true (enumSpec "<") >>= evalModule) ≠ denote .ouch (enumSpec "<")
    ∧ (∃ sch sch', (gen .ouch (cp "app") true (enumSpec "<") >>= evalModule) = .ok sch ∧ denote .ouch (enumSpec "<") = .ok sch'
        ∧ sch.enums.map (·.members) = [[(cp "Buy", .str (cp "B")), (cp "Odd", .str (cp "&lt;"))]]
        ∧ sch'.enums.map (·.members) = [[(cp "Buy", .str (cp "B")), (cp "Odd", .str (cp "<"))]])
    ∧ wfSpec .ouch (enumSpec "<") = false ∧ wfSpec .ouch (enumSpec "S") = true := by
  refine ⟨by decide, ⟨_, _, rfl, rfl, by decide, by decide⟩, by decide, by decide⟩

def defaultSpec (d : String) : Spec := oneMsg { fld "venue" "str_iso-8859-1" with dflt := some (cp d) }

/-- `default="A&B"`: the field is generated with `default_value='A&amp;B'` -/
theorem C15_witness_html_escaped_default_value :
    (gen .sqf (cp "app") true (defaultSpec "A&B") >>= evalModule) ≠ denote .sqf (defaultSpec "A&B")
    ∧ (∃ sch, (gen .sqf (cp "app") true (defaultSpec "A&B") >>= evalModule) = .ok sch
        ∧ sch.messages.map (fun m => m.fields.map (·.dflt)) = [[none, some (.str (cp "A&amp;B"))]])
    ∧ wfSpec .sqf (defaultSpec "A&B") = false ∧ wfSpec .sqf (defaultSpec "A+B") = true := by
  refine ⟨by decide, ⟨_, rfl, by decide⟩, by decide, by decide⟩

/-- `<value name="Odd">'</value>`: generated as `Odd = '''` — the file does not compile -/
theorem C15_witness_unescaped_quote :
    (gen .itch (cp "app") true (enumSpec "'") >>= evalModule) = .error .other
    ∧ (∃ sch, denote .itch (enumSpec "'") = .ok sch)
    ∧ wfSpec .itch (enumSpec "'") = false := by
  refine ⟨by decide, ⟨_, rfl⟩, by decide⟩

/-- a backslash ends the literal's closing quote: `Odd = '\'` -/
theorem C15_witness_unescaped_backslash :
    (gen .itch (cp "app") true (enumSpec "\\") >>= evalModule) = .error .other
    ∧ (∃ sch, denote .itch (enumSpec "\\") = .ok sch)
    ∧ wfSpec .itch (enumSpec "\\") = false := by
  refine ⟨by decide, ⟨_, rfl⟩, by decide⟩

end NasdaqModel.Witness.C15
