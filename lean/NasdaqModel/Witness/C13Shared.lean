import NasdaqModel.Props.C13Shared
/-
C13, groups that reuse tags of what encloses them - the decoder variant that does NOT round-trip, as decided counterexamples.

If the instance loop of `GroupContainer.from_bytes` ends only when an instance consumes nothing (instead of at the announced count),
a field that follows the group and carries a tag the group uses too is swallowed as one more instance and decoding a message the
library itself encoded raises `ValueError('Expected N groups, got N+1')`.  The messages are those of `Props/C13Shared.lean`
(`corpus/C13/r-shared-*.json`, replayed on the implementation first in every run); with the loop bounded by the count - the model
of the code as it is - they round-trip (`C13_shared_*_roundtrip`).
-/
namespace NasdaqModel.Witness.C13Shared
open NasdaqModel Py Fix Props.C13Shared

/-- `while len(bytes_) != 0:` … `if end == 0: break` - no bound by the count (fuel: every instance consumes a byte) -/
def grpLoopU (tbl : Table) : Nat → Bytes → Nat → List Seg → Except Err (Nat × List Seg)
  | 0, _, cnt, acc => .ok (cnt, acc)
  | k + 1, bs, cnt, acc =>
    if bs.isEmpty then .ok (cnt, acc)
    else do
      let r ← segFromBytes tbl bs
      if r.1 = 0 then .ok (cnt, acc)
      else grpLoopU tbl k (bs.drop r.1) (cnt + r.1) (acc ++ [r.2])

def containerFromBytesU (tbl : Table) (bs : Bytes) : Except Err (Nat × Val) := do
  let c ← fieldFromBytes .int bs
  match c.2 with
  | .int n => do
      let r ← grpLoopU tbl (bs.length + 1) (bs.drop c.1) c.1 []
      if (r.2.length : Int) ≠ n then .error .value          -- compared afterwards: 'Expected N groups, got N+1'
      else pure (r.1, .grp r.2)
  | _ => .error .other

mutual
def entryDecU : Entry → Bytes → Except Err (Nat × Val)
  | .field _ ty _, bs => fieldFromBytes ty bs
  | .group _ sub _, bs => containerFromBytesU (tableOfU sub) bs
def tableOfU : List Entry → Table
  | [] => []
  | e :: es => (e.tag, fun bs => entryDecU e bs) :: tableOfU es
end

def msgFromBytesU (d : MsgDef) (bs : Bytes) : Except Err (Nat × Msg) := do
  let h ← segFromBytes (tableOfU d.hdr) bs
  let bs1 := bs.drop h.1
  let b ← segFromBytes (tableOfU d.body) bs1
  let bs2 := bs1.drop b.1
  let t ← segFromBytes (tableOfU d.trl) bs2
  pure (h.1 + b.1 + t.1, { hdr := h.2, body := b.2, trl := t.2 })

/-- encode with the model of the code, decode with the unbounded loop: the error, or `none` when it decodes -/
def decodeErrU (d : MsgDef) (m : Msg) : Option Err :=
  match encMsg d m with
  | .ok bs => (match msgFromBytesU d bs with
               | .ok _ => none
               | .error e => some e)
  | .error e => some e

theorem C13_witness_uncounted_basic : decodeErrU basicDef basicMsg = some .value := by decide +kernel
theorem C13_witness_uncounted_order : decodeErrU orderDef orderMsg = some .value := by decide +kernel
theorem C13_witness_uncounted_nested : decodeErrU nestedDef nestedMsg = some .value := by decide +kernel
theorem C13_witness_uncounted_empty_group : decodeErrU emptyDef emptyMsg = some .value := by decide +kernel

/-- with pairwise distinct tags the unbounded loop is harmless (why the dictionaries of `wfDef` do not notice it) -/
theorem C13_witness_uncounted_distinct_tags_unaffected : decodeErrU witnessDef witnessMsg = none := by decide +kernel

end NasdaqModel.Witness.C13Shared
