import NasdaqModel.Props.C13Anchor
/-
C13 — machine-checked regression for the finding fixes/C13-msgtype-anchor.md (`fixed`, /repo a2cfe01): with the
`Message.get_msg_type` the code had *before* the repair (the first `35=` anywhere in the bytes, `getMsgTypeOld` below —
the definition `Model/Fix.lean` carried until then) the two failing inputs of the finding are dispatched on a bogus type
and cannot be decoded (`KeyError('7')`, `KeyError('b')`); with the repaired, anchored function (`Fix.getMsgType`) both
name their class and round-trip.  The messages (`anchorDef`, `msgTag135`, `msgValue35`) are defined in
Props/C13Anchor.lean, where they are shown to satisfy the hypotheses of `C13_statement_any_order`; the harness replays the
same inputs on the implementation (corpus/C13/msgtype-anchor-*.json).
-/
namespace NasdaqModel.Witness.C13Anchor
open NasdaqModel Py Fix Props.C13 Props.C13Anchor

/-- `Message.get_msg_type` before /repo a2cfe01: `start = bytes_.find(b'35=') + 2`, not anchored at a field start -/
def getMsgTypeOld (bs : Bytes) : Except Err Str :=
  let start := match findSub [51, 53, 61] bs with
    | some p => p + 2
    | none => 1                                   -- -1 + 2
  let stop := match findFrom [1] bs start with
    | some e => e
    | none => bs.length - 1                       -- `[..:-1]`
  decodeAscii ((bs.take stop).drop (start + 1))

/-- `Message.from_bytes` of the base class with a given `get_msg_type` -/
def decodeWith (gmt : Bytes → Except Err Str) (reg : List MsgDef) (bs : Bytes) : Except Err (Nat × MsgDef × Msg) := do
  let ty ← gmt bs
  match lookupReg reg ty with
  | none => .error .key
  | some d => do
      let r ← msgFromBytes d bs
      pure (r.1, d, r.2)

/-- encode, decode through the registry: `some true` when every byte was consumed and the decoded message `==` the
    original, `none` with the error otherwise -/
def roundTrip (gmt : Bytes → Except Err Str) (reg : List MsgDef) (d : MsgDef) (m : Msg) : Except Err Bool :=
  match encMsg d m with
  | .ok bs =>
    match decodeWith gmt reg bs with
    | .ok r => .ok (r.1 == bs.length && pyEqDict r.2.2 m)
    | .error e => .error e
  | .error e => .error e

/-- `decodeWith` with the model's own function is the model's `decodeMsg` -/
theorem C13_witness_decodeWith (reg : List MsgDef) (bs : Bytes) : decodeWith getMsgType reg bs = decodeMsg reg bs := rfl

/-- the witnesses are inside the property's quantifier: distinct tags, valid values, MsgType set to the class's type -/
theorem C13_witness_anchor_wf :
    wfDef anchorDef = true ∧ wfMsg anchorDef msgTag135 = true ∧ wfMsg anchorDef msgValue35 = true ∧
    lookupV msgTag135.hdr 35 = some (.str anchorDef.type) ∧ lookupV msgValue35.hdr 35 = some (.str anchorDef.type) := by
  refine ⟨by decide, by decide, by decide, rfl, rfl⟩

/-- `8=a|135=7|35=ZZ|58=x|10=1|`: the unanchored search stops at the `35=` that ends tag 135 and reads type `'7'` … -/
theorem C13_witness_old_tag135 : (encMsg anchorDef msgTag135 >>= getMsgTypeOld) = .ok [55] := by decide

/-- … `8=a35=b|35=ZZ|58=x|10=1|`: it stops inside the value of tag 8 and reads type `'b'` -/
theorem C13_witness_old_value35 : (encMsg anchorDef msgValue35 >>= getMsgTypeOld) = .ok [98] := by decide

/-- with the old function neither message can be decoded: `Message.Def['7']` / `Message.Def['b']` → `KeyError` -/
theorem C13_witness_old_keyerror :
    roundTrip getMsgTypeOld [anchorDef] anchorDef msgTag135 = .error .key ∧
    roundTrip getMsgTypeOld [anchorDef] anchorDef msgValue35 = .error .key := by decide

/-- the repaired function names the class for both inputs … -/
theorem C13_witness_repaired_type :
    (encMsg anchorDef msgTag135 >>= getMsgType) = .ok [90, 90] ∧
    (encMsg anchorDef msgValue35 >>= getMsgType) = .ok [90, 90] := by decide

/-- … and both round-trip: every byte consumed, decoded message `==` the original -/
theorem C13_witness_repaired_roundtrip :
    roundTrip getMsgType [anchorDef] anchorDef msgTag135 = .ok true ∧
    roundTrip getMsgType [anchorDef] anchorDef msgValue35 = .ok true := by decide +kernel

/-- on bytes that begin with `35=` (MsgType assigned first — all that `C13_msgtype_first` covered) old and new agree -/
theorem C13_witness_first_agree :
    getMsgTypeOld [51,53,61,90,90,1, 56,61,97,51,53,61,98,1] = .ok [90, 90] ∧
    getMsgType [51,53,61,90,90,1, 56,61,97,51,53,61,98,1] = .ok [90, 90] := by decide

end NasdaqModel.Witness.C13Anchor
