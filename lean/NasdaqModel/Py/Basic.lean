/-
Python semantics the models rely on (import-free, executable).
Bytes are `List Nat` (each element intended `< 256`); text is a list of Unicode code points.
Every Python function that can raise returns `Except Err α`.
-/
namespace NasdaqModel

abbrev Bytes := List Nat
abbrev Str := List Nat

/-- small enum of the Python exception classes the harness canonicalises to -/
inductive Err where
  | overflow      -- OverflowError
  | unicode       -- UnicodeEncodeError / UnicodeDecodeError
  | value         -- ValueError (incl. enum lookups)
  | key           -- KeyError
  | struct        -- struct.error
  | type          -- TypeError
  | index         -- IndexError
  | invalidSoup   -- InvalidSoupMessage
  | state         -- StateError
  | eoq           -- EndOfQueue
  | cancelled     -- CancelledError
  | timeout       -- TimeoutError
  | dup           -- DuplicateMessageException
  | attr          -- AttributeError
  | refused       -- ConnectionRefusedError
  | other
  deriving Repr, DecidableEq, Inhabited

def Err.name : Err → String
  | .overflow => "overflow" | .unicode => "unicode" | .value => "value" | .key => "key"
  | .struct => "struct" | .type => "type" | .index => "index" | .invalidSoup => "invalid-soup"
  | .state => "state" | .eoq => "eoq" | .cancelled => "cancelled" | .timeout => "timeout"
  | .dup => "dup" | .attr => "attr" | .refused => "refused" | .other => "other"

deriving instance DecidableEq for Except

namespace Py

/-- `b` is a byte -/
def isByte (b : Nat) : Bool := b < 256
def allBytes (bs : Bytes) : Bool := bs.all isByte

/-- `str.encode('ascii')` -/
def encodeAscii (s : Str) : Except Err Bytes :=
  if s.all (· < 128) then .ok s else .error .unicode

/-- `str.encode('iso-8859-1')` -/
def encodeIso (s : Str) : Except Err Bytes :=
  if s.all (· < 256) then .ok s else .error .unicode

/-- `bytes.decode('ascii')` -/
def decodeAscii (b : Bytes) : Except Err Str :=
  if b.all (· < 128) then .ok b else .error .unicode

/-- `bytes.decode('iso-8859-1')` never fails on bytes -/
def decodeIso (b : Bytes) : Except Err Str := .ok b

/-- `s.ljust(n)` (pad character: space) -/
def ljust (s : List Nat) (n : Nat) : List Nat := s ++ List.replicate (n - s.length) 32

/-- `s.rjust(n)` -/
def rjust (s : List Nat) (n : Nat) : List Nat := List.replicate (n - s.length) 32 ++ s

/-- `s.rjust(n, '0')` -/
def rjust0 (s : List Nat) (n : Nat) : List Nat := List.replicate (n - s.length) 48 ++ s

/-- characters removed by `str.strip()` with no argument: `str.isspace()` code points.
    Only the code points below 256 matter for the codecs modelled (ASCII / ISO-8859-1 text). -/
def isSpace (c : Nat) : Bool :=
  (9 ≤ c && c ≤ 13) || (28 ≤ c && c ≤ 32) || c == 133 || c == 160
  || c == 0x1680 || (0x2000 ≤ c && c ≤ 0x200a) || c == 0x2028 || c == 0x2029 || c == 0x202f
  || c == 0x205f || c == 0x3000

/-- generic two-sided strip -/
def stripBy (p : Nat → Bool) (s : List Nat) : List Nat :=
  ((s.dropWhile p).reverse.dropWhile p).reverse

/-- `str.strip()` -/
def strip (s : Str) : Str := stripBy isSpace s

/-- `bytes.strip(b' \x00')` -/
def stripSpNul (b : Bytes) : Bytes := stripBy (fun c => c == 32 || c == 0) b

/-- whitespace for `bytes.strip()` / `int(bytes)`: ASCII whitespace only -/
def isAsciiSpace (c : Nat) : Bool := (9 ≤ c && c ≤ 13) || c == 32

/-- `data[:n]` -/
def sliceTo (b : List α) (n : Nat) : List α := b.take n
/-- `data[n:]` -/
def sliceFrom (b : List α) (n : Nat) : List α := b.drop n

/-- `struct.pack('Ns', v)`: truncate to `n`, pad with NUL -/
def packNs (n : Nat) (v : Bytes) : Bytes := (v.take n) ++ List.replicate (n - v.length) 0

/-- big-endian 16 bit, as `struct.pack('!h', v)`; fails outside the signed range -/
def packBE16s (v : Int) : Except Err Bytes :=
  if -32768 ≤ v ∧ v ≤ 32767 then
    let u : Nat := (v % 65536).toNat
    .ok [u / 256, u % 256]
  else .error .struct

/-- `struct.unpack('!h', b)` for exactly two bytes -/
def unpackBE16s (hi lo : Nat) : Int :=
  let u := hi * 256 + lo
  if u < 32768 then (u : Int) else (u : Int) - 65536

end Py
end NasdaqModel

namespace NasdaqModel
/-! monadic plumbing for `Except Err`, stated as rewrite rules (unfolding `bind` itself is avoided in proofs) -/
@[simp] theorem ok_bind {α β : Type} (a : α) (f : α → Except Err β) : (Except.ok a >>= f) = f a := rfl
@[simp] theorem err_bind {α β : Type} (e : Err) (f : α → Except Err β) : (Except.error e >>= f) = Except.error e := rfl
@[simp] theorem pure_eq_ok {α : Type} (a : α) : (pure a : Except Err α) = Except.ok a := rfl
end NasdaqModel
