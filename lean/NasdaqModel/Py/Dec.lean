import NasdaqModel.Py.Basic
/-
Decimal printing and parsing: `str(int)` and `int(str)` / `int(bytes)`.
-/
namespace NasdaqModel.Py

/-- decimal digits with explicit fuel (structural, so that closed terms reduce by `decide`) -/
def natDigitsAux : Nat → Nat → List Nat
  | 0, n => [48 + n % 10]
  | fuel + 1, n => if n < 10 then [48 + n] else natDigitsAux fuel (n / 10) ++ [48 + n % 10]

/-- decimal digits of a natural number, most significant first (ASCII codes) -/
def natDigits (n : Nat) : List Nat := natDigitsAux n n

/-- `str(i)` -/
def intStr (i : Int) : Str :=
  if i < 0 then 45 :: natDigits i.natAbs else natDigits i.natAbs

def isDigit (c : Nat) : Bool := 48 ≤ c && c ≤ 57

/-- value of a digit string (no validation) -/
def digitsVal (ds : List Nat) : Nat := ds.foldl (fun acc d => acc * 10 + (d - 48)) 0

/-- Python's integer literal body for `int()`: digits, single underscores allowed between digits.
    Returns the digits with underscores removed, or none if ill-formed. -/
def cleanDigits : List Nat → Option (List Nat)
  | [] => none
  | [d] => if isDigit d then some [d] else none
  | d :: e :: rest =>
      if !isDigit d then none
      else if e = 95 then (cleanDigits rest).map (d :: ·)      -- `rest` must start with a digit
      else (cleanDigits (e :: rest)).map (d :: ·)

/-- `int(s)` for a text given as code points below 128 (whitespace stripped, optional sign).
    `ws` is the whitespace predicate (`str` vs `bytes` differ only above 127 and on 0x1c–0x1f). -/
def parseIntWith (ws : Nat → Bool) (s : List Nat) : Except Err Int :=
  let t := stripBy ws s
  let neg := t.head? == some 45
  let body := if t.head? == some 45 || t.head? == some 43 then t.tail else t
  match cleanDigits body with
  | some ds => .ok (if neg then - (digitsVal ds : Int) else (digitsVal ds : Int))
  | none => .error .value

/-- `int(b)` for `bytes` -/
def parseIntBytes (b : Bytes) : Except Err Int := parseIntWith isAsciiSpace b

/-- `int(s)` for `str` -/
def parseIntStr (s : Str) : Except Err Int := parseIntWith isSpace s

end NasdaqModel.Py
