import NasdaqModel.Model.BinCodec
/-
The documented wire layout of the ITCH / OUCH / SQF style binary messages, written from the documentation — the DATATYPES
table of `tools/templates/soup_app_xml.mustache` and the statement of property C02 — and *not* from the codec:

    boolean            one byte, 0 or 1
    byte               1 byte integer
    int_N / uint_N     N byte (un)signed integer, little endian;  `_be`: big endian
    char_<cs>          1 byte character in the charset
    str_<cs>           2 byte little-endian length, then the text
    str_<cs>_n         text, space padded to `n` bytes
    Array              element count as a 2 byte short (little endian unless the field says `endian="big"`), then the elements
    optional record    presence byte, then the record when present
    message            one message-type byte, then the fields in declaration order

Integers are given digit-wise (`byte k = (v mod 2^(8w)) / 256^k mod 256`), text positionally, records as a concatenation over
the declaration order.  The elements of an array of optional records carry no presence byte (the project's test-suite pins that
encoding; the element count already says how many records follow).  Only the types (`Ty`, `Val`) are shared with the model.
-/
namespace NasdaqModel.Spec.Layout
open NasdaqModel BinCodec

/-- the `k`-th least significant byte of `v` in two's complement on `w` bytes -/
def intByte (w : Nat) (v : Int) (k : Nat) : Nat :=
  ((v % ((2 ^ (8 * w) : Nat) : Int)).toNat / 256 ^ k) % 256

/-- `w` bytes, least significant first, or most significant first for big endian -/
def intLayout (w : Nat) (be : Bool) (v : Int) : Bytes :=
  let ds := (List.range w).map (intByte w v)
  if be then ds.reverse else ds

def boolByte (b : Bool) : Nat := if b then 1 else 0

/-- the value a field holds: what was assigned, else the declared default, else the default of its type -/
def fieldValue (st : Store) (name : Nat) (ty : Ty) (dflt : Val) : Val :=
  match st.find? (fun kv => kv.1 == name) with
  | some kv => kv.2
  | none =>
    match dflt, ty with
    | .none, .int .. => .int 0
    | .none, .bool => .bool false
    | .none, .char _ => .str [0x20]
    | .none, .str _ => .str []
    | .none, .fixed .. => .str []
    | .none, .arr .. => .list []
    | .none, _ => .none
    | d, _ => d

mutual
/-- the documented bytes of a value of a type -/
def layout : Ty → Val → Bytes
  | .int w _ be, .int i => intLayout w be i
  | .int w _ be, .bool b => intLayout w be (if b then 1 else 0)
  | .bool, .bool b => [boolByte b]
  | .char _, .str cs => cs
  | .str _, .str cs => [cs.length % 256, cs.length / 256] ++ cs
  | .fixed _ n false, .str cs => cs ++ List.replicate (n - cs.length) 0x20
  | .fixed _ n true, .str cs => List.replicate (n - cs.length) 0x20 ++ cs
  | .record fs, .recd st => layoutFields fs st
  | .optrec _, .none => [0]
  | .optrec _, .recd [] => [0]
  | .optrec fs, .recd st => 1 :: layoutFields fs st
  | .arr (.optrec fs) w _ be, .list xs =>
      intLayout w be xs.length ++ (xs.map fun x => match x with
                                                  | .recd st => layoutFields fs st
                                                  | _ => []).flatten
  | .arr elem w _ be, .list xs => intLayout w be xs.length ++ (xs.map fun x => layout elem x).flatten
  | _, _ => []
def layoutFields : Flds → Store → Bytes
  | .nil, _ => []
  | .cons name ty d rest, st => layout ty (fieldValue st name ty d) ++ layoutFields rest st
end

/-- a message: the message-type byte, then the body -/
def msgLayout (m : MsgDef) (record : Val) : Bytes := m.ind :: layout (.record m.fs) record

/-! ### the documented type ids -/

/-- what the documentation says about a type id -/
inductive TyDesc where
  | int (size : Nat) (signed be : Bool)
  | bool
  | char (iso : Bool)
  | str (iso : Bool)          -- 2-byte length prefix
  | fixed (iso : Bool)        -- width given by the field's `length` attribute
  | unknown                   -- (extraction only) a registered type that behaves like none of the above
  deriving Repr, DecidableEq

/-- the DATATYPES table of `soup_app_xml.mustache`, sorted by id -/
def documentedTable : List (String × TyDesc) := [
  ("boolean", .bool),
  ("byte", .int 1 false false),
  ("char_ascii", .char false),
  ("char_iso-8859-1", .char true),
  ("int_2", .int 2 true false),
  ("int_2_be", .int 2 true true),
  ("int_4", .int 4 true false),
  ("int_4_be", .int 4 true true),
  ("int_8", .int 8 true false),
  ("int_8_be", .int 8 true true),
  ("str_ascii", .str false),
  ("str_ascii_n", .fixed false),
  ("str_iso-8859-1", .str true),
  ("str_iso-8859-1_n", .fixed true),
  ("uint_2", .int 2 false false),
  ("uint_2_be", .int 2 false true),
  ("uint_4", .int 4 false false),
  ("uint_4_be", .int 4 false true),
  ("uint_8", .int 8 false false),
  ("uint_8_be", .int 8 false true)
]

/-- the count type an array field gets from its `endian` attribute: "a 2 byte short", big endian when `endian="big"` -/
def documentedArrayCount (endianAttr : String) : String := if endianAttr = "big" then "uint_2_be" else "uint_2"

end NasdaqModel.Spec.Layout
