import NasdaqModel.Model.GenFix
/-
What a FIX dictionary *means*, written from the dictionary format and the property statement (C16), independently of
how `parser.py` walks the file: one field class per `<field number= name= type=>`, and for the header, the trailer and every
message the list of entries obtained by replacing every `<component name=…/>` reference — wherever the component is
declared, before or after its use — by the component's own content, *in place*, recursively; `required` of an entry is
the `required` attribute of the `<field>` / `<group>` element itself.

Also here: `wfDict`, the decidable guard delimiting "valid dictionary" (shared by Props/C16 and the model driver).
-/
namespace NasdaqModel.Spec.FixDict
open NasdaqModel Py GenFix

def fieldsOf : Section → List FieldXml
  | .fields fs => fs
  | _ => []
def headerOf : Section → List Item
  | .header is => is
  | _ => []
def trailerOf : Section → List Item
  | .trailer is => is
  | _ => []
def messagesOf : Section → List MsgXml
  | .messages ms => ms
  | _ => []

/-- the enumerated values: the key is written as a string literal for text/boolean fields; a description that is a python
    keyword gets a trailing underscore -/
def specValues (ty : TyCls) (vs : List EnumXml) : List EnumCls :=
  vs.map fun v => ⟨v.enum, ty.kind == .str || ty.kind == .bool, if isKeyword v.desc then v.desc ++ [95] else v.desc⟩

/-- the field class of a `<field>` declaration: tag = the number, value type = the version's class for the type name -/
def specField (types : TypeTable) (f : FieldXml) : Except Err LField :=
  match aget f.type types with
  | none => .error .key
  | some ty =>
    match parseIntStr f.number with
    | .error e => .error e
    | .ok t => .ok ⟨f.name, t, ty, specValues ty f.values⟩

def specFields (types : TypeTable) : List FieldXml → Except Err (List LField)
  | [] => .ok []
  | f :: rest =>
    match specField types f with
    | .error e => .error e
    | .ok lf =>
      match specFields types rest with
      | .error e => .error e
      | .ok lfs => .ok (lf :: lfs)

def findField (n : Str) (fs : List LField) : Option LField := fs.find? (fun f => f.name = n)

def reqFlag (r : Option Str) : Bool := r == some (lit "Y")

mutual
/-- entries denoted by one element; `sub` gives the entries of a component reference -/
def expandItem (fs : List LField) (sub : Str → Except Err (List LEntry)) : Item → Except Err (List LEntry)
  | .field n r =>
    match findField n fs with
    | none => .error .value
    | some f => .ok [.field f.name f.tag f.type (reqFlag r)]
  | .group n r items =>
    match expandItems fs sub items with
    | .error e => .error e
    | .ok es =>
      match findField n fs with                    -- the group's count field
      | none => .error .attr
      | some f => .ok [.group f.name f.tag f.type (reqFlag r) es]
  | .comp n _ => sub n
def expandItems (fs : List LField) (sub : Str → Except Err (List LEntry)) : List Item → Except Err (List LEntry)
  | [] => .ok []
  | i :: rest =>
    match expandItem fs sub i with
    | .error e => .error e
    | .ok es1 =>
      match expandItems fs sub rest with
      | .error e => .error e
      | .ok es2 => .ok (es1 ++ es2)
end

/-- the content of component `n`, following component references at most `depth` levels deep -/
def expandComp (fs : List LField) (comps : List CompXml) : Nat → Str → Except Err (List LEntry)
  | 0, _ => .error .other
  | k + 1, n =>
    match comps.find? (fun c => c.name = n) with
    | none => .error .value
    | some c => expandItems fs (expandComp fs comps k) c.items

/-- entries of a container (header, trailer, message body) -/
def expand (fs : List LField) (comps : List CompXml) (items : List Item) : Except Err (List LEntry) :=
  expandItems fs (expandComp fs comps comps.length) items

def specMessages (fs : List LField) (comps : List CompXml) (h t : List LEntry) : List MsgXml → Except Err (List LMsg)
  | [] => .ok []
  | m :: rest =>
    match expand fs comps m.items with
    | .error e => .error e
    | .ok b =>
      match specMessages fs comps h t rest with
      | .error e => .error e
      | .ok ms => .ok (⟨m.name, m.msgtype, m.msgcat, h, b, t⟩ :: ms)

/-- the session class a generated application derives from: the one whose BeginString is the version's -/
def specSession : Version → Except Err SessionCls
  | .v42 => .ok .Fix42Session
  | .v44 => .ok .Fix44Session
  | .v50 | .v50sp2 => .ok .Fix50Session
  | _ => .error .value

/-- what importing the package generated from `d` must yield -/
def denote (d : Dict) : Except Err Loaded :=
  match supportedTypes d.version, specSession d.version with
  | .ok types, .ok sess =>
    match specFields types (d.sections.flatMap fieldsOf) with
    | .error e => .error e
    | .ok fs =>
      let comps := allComps d
      match expand fs comps (d.sections.flatMap headerOf), expand fs comps (d.sections.flatMap trailerOf) with
      | .ok h, .ok t =>
        match specMessages fs comps h t (d.sections.flatMap messagesOf) with
        | .error e => .error e
        | .ok ms => .ok { session := sess, fields := fs, header := h, trailer := t, messages := ms }
      | .error e, _ => .error e
      | _, .error e => .error e
  | .error e, _ => .error e
  | _, .error e => .error e

/-- the value type of the FIX data types (FIX 4.2 – 5.0SP2 specifications, "Data types"): int-based, float-based, boolean,
    and char/String-based.  One entry follows the library rather than the specification and is marked. -/
def fixKind : List (Str × PyKind) := [
  (lit "INT", .int), (lit "LENGTH", .int), (lit "SEQNUM", .int), (lit "NUMINGROUP", .int), (lit "DAYOFMONTH", .int), (lit "LONG", .int),
  (lit "FLOAT", .float), (lit "QTY", .float), (lit "PRICE", .float), (lit "PRICEOFFSET", .float), (lit "AMT", .float),
  (lit "PERCENTAGE", .float),
  (lit "BOOLEAN", .bool),
  (lit "CHAR", .str), (lit "STRING", .str), (lit "MULTIPLEVALUESTRING", .str), (lit "MULTIPLECHARVALUE", .str),
  (lit "MULTIPLESTRINGVALUE", .str), (lit "FIXSTRING", .str), (lit "COUNTRY", .str), (lit "CURRENCY", .str), (lit "EXCHANGE", .str),
  (lit "UTCTIMESTAMP", .str), (lit "UTCTIMEONLY", .str), (lit "UTCDATE", .str), (lit "LOCALMKTDATE", .str), (lit "TZTIMEONLY", .str),
  (lit "DATA", .str),
  (lit "MONTHYEAR", .int)]    -- FIX: String (YYYYMM, YYYYMMDD, YYYYMMwN); the library carries it as an int

/-- every type name of the table has the documented value type -/
def tableOk (t : TypeTable) : Bool := t.all fun kv => aget kv.1 fixKind == some kv.2.kind

/-! ## the guard: valid dictionaries -/

def isFieldsSec : Section → Bool
  | .fields _ => true
  | _ => false
def isHeaderSec : Section → Bool
  | .header _ => true
  | _ => false
def isTrailerSec : Section → Bool
  | .trailer _ => true
  | _ => false
def isMessagesSec : Section → Bool
  | .messages _ => true
  | _ => false

/-- `<fields>` is the last section of the file (as in every QuickFIX-style dictionary): `parse` walks the sections backwards
    and resolves field names when it meets them -/
def fieldsLast (ss : List Section) : Bool := (ss.dropWhile (fun s => !isFieldsSec s)).all isFieldsSec

def atMostOne (p : Section → Bool) (ss : List Section) : Bool := (ss.filter p).length ≤ 1

mutual
/-- `p` holds of every element below (and including) an item -/
def itemAll (pf pg pc : Str → Bool) : Item → Bool
  | .field n _ => pf n
  | .group n _ items => pg n && itemsAll pf pg pc items
  | .comp n _ => pc n
def itemsAll (pf pg pc : Str → Bool) : List Item → Bool
  | [] => true
  | i :: rest => itemAll pf pg pc i && itemsAll pf pg pc rest
end

/-- component `n` exists and every chain of component references starting from it is at most `depth` long -/
def compDepthOk (comps : List CompXml) : Nat → Str → Bool
  | 0, _ => false
  | k + 1, n =>
    match comps.find? (fun c => c.name = n) with
    | none => false
    | some c => itemsAll (fun _ => true) (fun _ => true) (compDepthOk comps k) c.items

def containersOf : Section → List (List Item)
  | .fields _ => []
  | .components cs => cs.map (·.items)
  | .header is => [is]
  | .trailer is => [is]
  | .messages ms => ms.map (·.items)

/-- names that the generated code binds itself, or that `fix.Field` / `fix.DataSegment` / `fix.Message` use -/
def reservedNames : List Str := [
  lit "fix", lit "fields", lit "groups", lit "bodies", lit "Message", lit "ClientSession", lit "connect_async", lit "logable",
  lit "Header", lit "Body", lit "Trailer", lit "Entries", lit "Values", lit "Tag", lit "Name", lit "FieldType", lit "Def",
  lit "Type", lit "Category", lit "values", lit "value", lit "data", lit "log", lit "Required", lit "IndexedEntries",
  lit "GroupNameToFieldNameMapping", lit "TagNameMapping", lit "SegmentCls", lit "AppName", lit "MandatoryFields",
  lit "MsgIdToClsMap", lit "MsgNameToMsgMap", lit "CountCls", lit "GroupCls", lit "groups_", lit "validate", lit "contains",
  lit "to_bytes", lit "from_bytes", lit "from_value", lit "as_collection", lit "default_value", lit "get_tag", lit "key_to_tag",
  lit "from_tag_value", lit "is_heartbeat", lit "is_logout", lit "get_msg_type"]

def goodName (s : Str) : Bool := isIdent s && !reservedNames.contains s

/-- text that the templates copy between double quotes -/
def plainText (s : Str) : Bool := s.all fun c => isIdentChar c || c == 32 || c == 46 || c == 45

def wfEnum (ty : TyCls) (v : EnumXml) : Bool :=
  let attr := if isKeyword v.desc then v.desc ++ [95] else v.desc
  isIdent attr && !reservedNames.contains attr
  && (if ty.kind == .str || ty.kind == .bool then decide (v.enum ≠ []) && v.enum.all isIdentChar
      else (parseIntStr v.enum).toBool && v.enum.all isDigit)

def wfFieldXml (types : TypeTable) (f : FieldXml) : Bool :=
  goodName f.name
  && (parseIntStr f.number).toBool && f.number.all isDigit
  && (match aget f.type types with
      | none => false
      | some ty => f.values.all (wfEnum ty) && nodupB (f.values.map (·.enum))
                   && nodupB (f.values.map fun v => if isKeyword v.desc then v.desc ++ [95] else v.desc))

/-- the versions the CLI offers (`--fix-version 4.2|4.4|5.0|5.0SP2`) -/
def supportedVersion : Version → Bool
  | .v42 | .v44 | .v50 | .v50sp2 => true
  | .unknown => false

/-- every group's count field is declared with an integer type -/
def isCountField (types : TypeTable) (fxs : List FieldXml) (n : Str) : Bool :=
  match fxs.find? (fun f => f.name = n) with
  | none => false
  | some f => match aget f.type types with
    | some ty => ty.kind == .int
    | none => false

/-- valid dictionary: a version the CLI offers (its type table exists), section layout, declarations, references -/
def wfDict (d : Dict) : Bool :=
  match supportedTypes d.version with
  | .error _ => false
  | .ok types =>
    let fxs := d.sections.flatMap fieldsOf
    let comps := allComps d
    let fnames := fxs.map (·.name)
    let cnames := comps.map (·.name)
    let msgs := d.sections.flatMap messagesOf
    fieldsLast d.sections
    && atMostOne isFieldsSec d.sections && atMostOne isHeaderSec d.sections
    && atMostOne isTrailerSec d.sections && atMostOne isMessagesSec d.sections
    && fxs.all (wfFieldXml types) && nodupB fnames
    && nodupB cnames && cnames.all goodName
    && comps.all (fun c => compDepthOk comps comps.length c.name)
    && (d.sections.flatMap containersOf).all
         (itemsAll (fun n => fnames.contains n) (fun n => isCountField types fxs n) (fun n => cnames.contains n))
    && msgs.all (fun m => goodName m.name && !fnames.contains m.name && plainText m.msgtype && decide (m.msgtype ≠ []) && plainText m.msgcat)
    && nodupB (msgs.map (·.name)) && nodupB (msgs.map (·.msgtype))

end NasdaqModel.Spec.FixDict
