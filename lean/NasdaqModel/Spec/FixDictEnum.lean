import NasdaqModel.Spec.FixDict
/-
The guard of C16 with the full alphabet of enumerated values.

`Spec.FixDict.wfEnum` asked the enumerated value (`<value enum=…>`) of a text / boolean field to consist of identifier characters.
Nothing in the generator depends on that: the value is written as the body of a python string literal (quote and backslash escaped
by `FieldDef._values_ctx`, rendered verbatim by the template — /repo 8c9ad6b) and comes back, on import, as the very text of the
dictionary.  `wfEnumE` is the same guard with the value ranging over every non-empty text of printable ASCII characters
(`<`, `>`, `&`, `"`, `'`, `\`, space … included); `wfDictE` is `wfDict` with `wfEnumE` in the place of `wfEnum`, so
`wfDict d → wfDictE d` (Props/C16Enum.lean) and the theorems proved under `wfDictE` contain the ones proved under `wfDict`.
-/
namespace NasdaqModel.Spec.FixDict
open NasdaqModel Py GenFix

/-- printable ASCII: what a one-line XML attribute value and a one-line python string literal can both carry -/
def isPrintable (c : Nat) : Bool := 32 ≤ c && c ≤ 126

/-- an enumerated value: the description is a usable attribute name; the value of a text / boolean field is any non-empty printable
    text, the value of a numeric field is a decimal literal -/
def wfEnumE (ty : TyCls) (v : EnumXml) : Bool :=
  let attr := if isKeyword v.desc then v.desc ++ [95] else v.desc
  isIdent attr && !reservedNames.contains attr
  && (if ty.kind == .str || ty.kind == .bool then decide (v.enum ≠ []) && v.enum.all isPrintable
      else (parseIntStr v.enum).toBool && v.enum.all isDigit)

def wfFieldXmlE (types : TypeTable) (f : FieldXml) : Bool :=
  goodName f.name
  && (parseIntStr f.number).toBool && f.number.all isDigit
  && (match aget f.type types with
      | none => false
      | some ty => f.values.all (wfEnumE ty) && nodupB (f.values.map (·.enum))
                   && nodupB (f.values.map fun v => if isKeyword v.desc then v.desc ++ [95] else v.desc))

/-- valid dictionary, enumerated values over printable ASCII: `wfDict` with `wfFieldXmlE` for `wfFieldXml`, nothing else changed -/
def wfDictE (d : Dict) : Bool :=
  match supportedTypes d.version with
  | .error _ => false
  | .ok types =>
    let fxs := d.sections.flatMap fieldsOf
    let comps := allComps d
    let fnames := fxs.map (·.name)
    let cnames := comps.map (·.name)
    let msgs := d.sections.flatMap messagesOf
    fieldsLast d.sections
    && atMostOne isFieldsSec d.sections && atMostOne isHeaderSec d.sections
    && atMostOne isTrailerSec d.sections && atMostOne isMessagesSec d.sections
    && fxs.all (wfFieldXmlE types) && nodupB fnames
    && nodupB cnames && cnames.all goodName
    && comps.all (fun c => compDepthOk comps comps.length c.name)
    && (d.sections.flatMap containersOf).all
         (itemsAll (fun n => fnames.contains n) (fun n => isCountField types fxs n) (fun n => cnames.contains n))
    && msgs.all (fun m => goodName m.name && !fnames.contains m.name && plainText m.msgtype && decide (m.msgtype ≠ []) && plainText m.msgcat)
    && nodupB (msgs.map (·.name)) && nodupB (msgs.map (·.msgtype))

end NasdaqModel.Spec.FixDict
