import NasdaqModel.Model.Soup
/-
The SoupBinTCP packet layout as the protocol documents it, written independently of the model of the
code: two-byte big-endian length of what follows, one type character, payload.
-/
namespace NasdaqModel.Spec.SoupLayout
open NasdaqModel Soup

/-- a text field of width `n`: the text followed by spaces -/
def padded (s : List Nat) (n : Nat) : List Nat := s ++ List.replicate (n - s.length) 32

def payload : Pkt → Bytes
  | .loginReq u p s q => padded u 6 ++ padded p 10 ++ padded s 10 ++ padded q 20
  | .loginAcc s q => padded s 10 ++ padded (Py.intStr q) 20
  | .loginRej r => [r]
  | .seqData d => d
  | .unseqData d => d
  | .debug t => t
  | _ => []

def typeChar : Pkt → Nat
  | .loginReq .. => 'L'.toNat | .loginAcc .. => 'A'.toNat | .loginRej .. => 'J'.toNat
  | .seqData .. => 'S'.toNat | .unseqData .. => 'U'.toNat | .debug .. => '+'.toNat
  | .clientHb => 'R'.toNat | .serverHb => 'H'.toNat | .endOfSession => 'Z'.toNat
  | .logoutReq => 'O'.toNat

def layout (p : Pkt) : Bytes :=
  let n := 1 + (payload p).length
  [n / 256, n % 256, typeChar p] ++ payload p

end NasdaqModel.Spec.SoupLayout
