import NasdaqModel.Driver.Soup
/-
Model driver: one request per line on stdin (`<op> <sexp>*`), one canonical response line on stdout.
Unknown / unparsable requests answer `bad-request` (never a default value).
-/
open NasdaqModel

def dispatch (op : String) (args : List Sexp) : Option String :=
  (Driver.SoupD.handle op args)

def respond (line : String) : String :=
  match Sexp.parseLine line with
  | some (.atom op :: args) =>
    match dispatch op args with
    | some r => r
    | none => "bad-request"
  | _ => "bad-request"

partial def loop (hin : IO.FS.Stream) (hout : IO.FS.Stream) : IO Unit := do
  let line ← hin.getLine
  if line.isEmpty then return ()
  hout.putStrLn (respond line)
  loop hin hout

def main : IO Unit := do
  let hin ← IO.getStdin
  let hout ← IO.getStdout
  loop hin hout
  hout.flush
