-- Root of the `NasdaqModel` library: models (import-free), specs, lemmas, property theorems.
import NasdaqModel.Driver.Sexp
