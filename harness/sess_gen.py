"""Random scenario generator for the session machine (shared by C04–C07, C11)."""
from sess_common import SoupCodec, ServerCodec, FixCodec, cut_stream, REJECT_N

CB_BEHS = ['ret', ('await', 0), ('await', 1), ('await', 2), 'close', 'iclose', ('sleep', 0), ('sleep', 2), ('sleep', 4)]
MSG_BEHS = ['ret', 'ret', ('await', 0), ('await', 1), ('await', 3), 'close', 'iclose', 'raise', ('sleep', 0), ('sleep', 3)]


def gen_cfg(rng, kind='soup-client', mode=None):
    mode = mode or rng.choice(['pull', 'callback', 'callback'])
    cfg = dict(kind=kind, mode=mode, has_cb=rng.random() < 0.85, cb_beh=rng.choice(CB_BEHS),
               default_beh=rng.choice(['ret', 'ret', ('await', 0), ('await', 1)]), msg_beh={})
    if mode == 'callback':
        for n in rng.sample(range(1, 9), rng.randint(0, 3)):
            cfg['msg_beh'][n] = rng.choice(MSG_BEHS)
    return cfg


def gap(rng, hb):
    c = rng.random()
    if c < 0.35:
        return []
    if c < 0.7:
        return [('turns', rng.randint(1, 4))]
    if c < 0.9:
        return [('advance', rng.choice([0.0001, 0.0002, 0.0005, 0.001]))]
    return [('advance', hb * rng.choice([0.5, 1, 2.5]))]


def gen_script(rng, cfg, hb=0.004, focus=None):
    """focus: None | 'close' | 'deliver' | 'hostile' | 'login' — biases what the script contains"""
    is_fix = cfg.get('kind') == 'fix-client'
    codec = FixCodec() if is_fix else SoupCodec()
    script = [('connect',)]
    next_msg = [1]
    users = [1]
    pending_recv = []       # user ids with a possibly pending receive
    logged_in = False
    stream_dead = [False]    # a truncated segment was sent / the peer disconnected: no further inbound data

    def new_user():
        users[0] += 1
        return users[0]

    def frames(k, allow_special=True):
        toks = []
        for _ in range(k):
            c = rng.random()
            if allow_special and c < 0.08:
                toks.append('hb')
            elif allow_special and focus in ('close', None) and c < 0.12:
                toks.append('logout')
            elif allow_special and focus == 'hostile' and c < 0.25:
                toks.append('bad')
            else:
                toks.append(('msg', next_msg[0]))
                next_msg[0] += 1
        return toks

    style = lambda: rng.choice(['whole', 'per-frame', 'random', 'random', 'bytes'])
    do_login = rng.random() < (0.9 if focus == 'login' else 0.6)
    if do_login:
        u = new_user()
        script.append(('login', u))
        script += gap(rng, hb)
        c = rng.random()
        if focus == 'login':
            reply = rng.choice([[('msg', 0)], [('msg', 0)], [('msg', REJECT_N)], [('msg', next_msg[0])], ['logout'], ['bad'], ['hb', ('msg', 0)], [],
                                [('msg', 5000), ('msg', 0)], [('msg', 5001), ('msg', 0)], ['hb', ('msg', 5005)]])
        else:
            reply = [('msg', 0)] if c < 0.85 else rng.choice([[('msg', REJECT_N)], ['logout'], []])
        tail = frames(rng.randint(0, 3)) if rng.random() < 0.5 else []     # data piggy-backed on the reply
        if reply or tail:
            if focus == 'login' and rng.random() < 0.3:
                # disconnect in the middle of the reply
                items = cut_stream(reply + tail, codec, rng, style(), truncate=True)
                script += items + gap(rng, hb) + [('eof',)]
                stream_dead[0] = True
                reply = [t for it in items for t in it[1]][:1]
                reply = [('msg', int(reply[0][1]))] if reply and not isinstance(reply[0], str) else reply
            else:
                for it in cut_stream(reply + tail, codec, rng, style()):
                    script.append(it)
                    if rng.random() < 0.3:
                        script += gap(rng, hb)
        elif rng.random() < 0.5:
            script.append(('eof',))
            stream_dead[0] = True
        if focus == 'login' and (reply or tail) and not stream_dead[0] and rng.random() < 0.35:
            # the peer disconnects — or the caller gives up — in the very loop turns in which the reply travels from the reader to
            # login(): `await_put` continues in the turn after the reader queued the reply (ahead of / behind the receive helper it
            # woke), then 0..4 more turns.  One turn decides between "closing task scheduled, not yet run" (is_active() false,
            # is_closed() false), "already closed" and "login() has returned".
            script += [('await_put', rng.choice(['before', 'after'])), ('turns', rng.randint(0, 4))]
            if rng.random() < 0.7:
                script.append(('eof',))
                stream_dead[0] = True
            else:
                script.append(('cancel', u))
        elif focus == 'login' and rng.random() < 0.25 and not reply and not tail:
            # the caller gives up while the reply is outstanding
            script += gap(rng, hb) + [('cancel', u)]
        elif focus == 'login' and rng.random() < 0.3 and (reply or tail):
            # the caller gives up in the very loop turns in which the reply is being handed over (reader -> queue -> helper task ->
            # login()): 0..4 turns after the bytes arrived
            script += [('turns', rng.randint(0, 4)), ('cancel', u)]
        logged_in = reply[:1] == [('msg', 0)] or reply[:2] == ['hb', ('msg', 0)]
    if logged_in and not stream_dead[0] and rng.random() < (0.25 if focus in ('close', None) else 0.05):
        # a heartbeat-timeout close with inbound data / user calls landing in the middle of it
        script.append(('at_trip',))
        script.append(('turns', rng.randint(0, 7)))
        for it in cut_stream(frames(rng.randint(1, 2), allow_special=False) if rng.random() < 0.7 else ['hb'], codec, rng, 'whole'):
            script.append(it)
    n_ops = rng.randint(1, 7)
    closes = 0
    for _ in range(n_ops):
        script += gap(rng, hb)
        c = rng.random()
        pull = cfg['mode'] == 'pull' or not logged_in
        if c < 0.35 and not stream_dead[0]:
            for it in cut_stream(frames(rng.randint(1, 4)), codec, rng, style()):
                script.append(it)
                if rng.random() < 0.25:
                    script += gap(rng, hb)
        elif c < 0.5 and pull and not pending_recv:
            u = new_user()
            script.append(('recv', u))
            pending_recv.append(u)
        elif c < 0.58 and pending_recv:
            script.append(('cancel', pending_recv.pop()))
        elif c < 0.63:
            script.append(('recvnw', new_user()))
        elif c < 0.68:
            if not is_fix:
                script.append(('send',))
            elif do_login:
                # a FIX session can only send once login() has run its first statements (it initialises the sequence counter): let
                # the login task start first (API precondition, not part of any property)
                script += [('turns', 1), ('send',)]
        elif focus != 'deliver' and closes < 3:
            closes += 1
            k = rng.random()
            if k < 0.3:
                script.append(('close', new_user()))
            elif k < 0.5:
                script.append(('iclose',))
            elif k < 0.65:
                script.append(('iclose',) if is_fix else ('logout',))      # FixSession has no logout() call
            elif k < 0.85:
                script.append(('eof',))
                stream_dead[0] = True
            elif k < 0.93 and not stream_dead[0]:
                script += cut_stream(['logout'], codec, rng, 'whole')
            else:
                script.append(('advance', hb * 2.6))      # remote monitor trips if heartbeats were started
        # a receive may have completed: allow a new one later
        if pending_recv and rng.random() < 0.4:
            pending_recv.pop()
    return script




# ------------------------------------------------------------------ forced late cancels (C04)
def late_window(rng, exact=True):
    """script items that continue in a chosen loop turn relative to the reader handing a message to the queue.  The late-cancel window
    (the receive helper has taken the message, the caller has not yet resumed) is exactly `('before', 1)` and `('after', 0)`;
    one turn earlier the helper is cancelled with the caller (nothing taken), one turn later the call has returned."""
    if exact:
        where, k = rng.choice([('before', 1), ('after', 0)])
    else:
        where, k = rng.choice(['before', 'after']), rng.randint(0, 3)
    return [('await_put', where), ('turns', k)]


def gen_late_cancel(rng, cfg, hb=0.004):
    """C04: scenarios that place the cancel() of a pending receive_msg() / login() in the one-turn window after the helper task took
    the message (the former finding C04-late-cancel-loses-message), followed by what must then see that message first:
    receive_msg_nowait(), the next receive_msg(), a second late cancel, the queue being stopped in the very same turn (EndOfQueue to
    the caller, the message still readable before the end-of-queue), a login() whose own receive is the one cancelled.
    All of it is inside the Lean session machine: replayed step by step and judged by the oracle."""
    is_fix = cfg.get('kind') == 'fix-client'
    codec = FixCodec() if is_fix else SoupCodec()
    script = [('connect',)]
    nxt = [1]
    usr = [1]

    def new_user():
        usr[0] += 1
        return usr[0]

    def msgs(k):
        out = []
        for _ in range(k):
            out.append(('msg', nxt[0]))
            nxt[0] += 1
        return out

    seg = lambda: rng.choice(['whole', 'whole', 'per-frame', 'random'])
    flavour = rng.choice(['nowait', 'nowait', 'recv', 'twice', 'stop', 'stop', 'login', 'login-first', 'drain'])
    if flavour == 'login':
        # the receive inside login() is the one that is cancelled late: login() closes the session and re-raises; the acceptance
        # stays readable (receive_msg_nowait on the closed session returns it, then EndOfQueue)
        u = new_user()
        script += [('login', u), ('turns', rng.randint(1, 3))]
        script += cut_stream([('msg', 0)] + msgs(rng.randint(0, 2)), codec, rng, seg())
        script += late_window(rng, exact=rng.random() < 0.8) + [('cancel', u), ('turns', rng.randint(2, 6))]
        script += [('recvnw', new_user()) for _ in range(rng.randint(1, 3))]
        return script
    if flavour == 'login-first' and cfg['mode'] == 'pull':
        # a logged-in pull-mode session (heartbeat monitors running)
        u = new_user()
        script += [('login', u), ('turns', 2)] + cut_stream([('msg', 0)], codec, rng, 'whole') + [('advance', 0.0003)]
    rounds = 2 if flavour == 'twice' else 1
    for r in range(rounds):
        u = new_user()
        script += [('recv', u), ('turns', rng.randint(1, 3))]
        script += cut_stream(msgs(rng.randint(1, 3)), codec, rng, seg())
        if flavour == 'stop':
            # the queue is stopped in the turn in which the helper takes the message, before the caller sees its cancellation
            script += [('await_put', 'before'), rng.choice([('iclose',), ('eof',), ('close', new_user())]), ('turns', 1), ('cancel', u)]
        else:
            script += late_window(rng, exact=rng.random() < 0.85) + [('cancel', u)]
        script += [('turns', rng.randint(1, 4))]
        if flavour == 'twice' and r == 0:
            # the next receive takes the stashed message at once; then a fresh blocking receive, cancelled late again
            script += [('recv', new_user()), ('turns', 2)]
    if flavour in ('nowait', 'twice', 'stop'):
        script += [('advance', 0.0005)] if rng.random() < 0.5 else []
        script += [('recvnw', new_user()) for _ in range(rng.randint(1, 4))]
    elif flavour == 'recv':
        script += [('recv', new_user()), ('turns', rng.randint(1, 3))]
        if rng.random() < 0.5:
            script += [('advance', 0.0005), ('recv', new_user()), ('turns', 2)]
    # 'drain' / 'login-first': nothing — whatever is left is taken with receive_msg_nowait after the script (`drained`)
    if rng.random() < 0.25:
        script += [('advance', 0.0003), ('close', new_user())]
    return script


def login_window_cases():
    """C11, every run: the hand-over window of the login reply, exhaustively.  For soup and FIX client sessions x pull / callback mode x
    acceptance alone / acceptance followed by a data frame in the same segment x a peer disconnect (`eof`) or a caller cancel placed in
    the loop turn after the reader queued the reply — ahead of or behind the receive helper — plus 0..4 further turns.  This spans,
    turn by turn: reply queued but not yet taken, taken by the helper but login() not yet resumed (closing task scheduled, not yet
    run: is_active() false, is_closed() false), close already run, login() already returned."""
    import random
    out = []
    for kind in ('soup-client', 'fix-client'):
        codec = FixCodec() if kind == 'fix-client' else SoupCodec()
        for mode in ('pull', 'callback'):
            for tail in (False, True):
                for where in ('before', 'after'):
                    for k in range(5):
                        for trig in ('eof', 'cancel'):
                            cfg = dict(kind=kind, mode=mode, has_cb=True, cb_beh='ret', default_beh='ret', msg_beh={})
                            toks = [('msg', 0)] + ([('msg', 1)] if tail else [])
                            script = [('connect',), ('login', 2), ('turns', 2)]
                            script += cut_stream(toks, codec, random.Random(0), 'whole')
                            script += [('await_put', where), ('turns', k), ('eof',) if trig == 'eof' else ('cancel', 2)]
                            out.append((cfg, script))
    return out


# ------------------------------------------------------------------ extended scenarios (oracle only, not replayed through the model)
def gen_ext(rng, hb=0.004):
    """Scenarios that use parts of the public API and callback shapes the Lean session machine does not model:
    `pause_dispatching()` around a pull, `start_dispatching()` at any moment (also after the close), message callbacks that work for
    some timers and then close the session themselves, message callbacks whose cancellation clean-up takes (much) longer than a
    heartbeat interval, close callbacks that outlast several heartbeat intervals.  Returns (cfg, script, settle)."""
    codec = SoupCodec()
    cfg = dict(kind='soup-client', mode='callback', has_cb=rng.random() < 0.9,
               cb_beh=rng.choice(['ret', ('await', 1), ('sleep', 1), ('sleep', 4), 'close', 'iclose']),
               default_beh=rng.choice(['ret', 'ret', ('await', 0), ('sleep', 0)]), msg_beh={})
    slow = 0.0
    n_special = rng.randint(0, 2)
    for n in rng.sample(range(1, 7), n_special):
        c = rng.random()
        if c < 0.4:
            cfg['msg_beh'][n] = ('sleep_close', rng.choice([0, 0, 1, 3]))
        elif c < 0.8:
            d = rng.choice([0.0003, 0.002, hb * 1.5, hb * 6, 1.3] if rng.random() < 0.25 else [0.0003, 0.002, hb * 1.5, hb * 6])
            slow = max(slow, d)
            cfg['msg_beh'][n] = ('cleanup', d)
        else:
            cfg['msg_beh'][n] = rng.choice(['close', 'iclose', 'raise', ('sleep', 3)])
    script = [('connect',), ('login', 2)]
    next_msg = [1]

    def data(k, special=None):
        toks = []
        for _ in range(k):
            toks.append(('msg', next_msg[0]))
            next_msg[0] += 1
        if special:
            toks.append(special)
        return cut_stream(toks, codec, rng, rng.choice(['whole', 'whole', 'per-frame', 'random']))
    script += cut_stream([('msg', 0)], codec, rng, 'whole')
    script += gap(rng, hb)
    users = [10]

    def new_user():
        users[0] += 1
        return users[0]
    dead = False
    # one flavour per scenario: start_dispatching() while another consumer has the dispatcher paused would be two consumers at once
    # (API misuse, outside every property's quantifier)
    flavour = rng.choice(['pause', 'startdisp', 'plain'])
    paused = [False]
    for _ in range(rng.randint(2, 6)):
        c = rng.random()
        if c < 0.35 and not dead:
            script += data(rng.randint(1, 4))
        elif c < 0.5 and flavour == 'pause' and not paused[0]:
            paused[0] = True          # one paused pull per scenario (two concurrent pulls are API misuse)
            script.append(('paused_recv', new_user()))
        elif c < 0.6 and flavour == 'startdisp':
            script.append(('startdisp',))
        elif c < 0.65:
            script.append(('send',))
        else:
            k = rng.random()
            if k < 0.25:
                script.append(('close', new_user()))
            elif k < 0.4:
                script.append(('iclose',))
            elif k < 0.5:
                script.append(('logout',))
            elif k < 0.7:
                script.append(('eof',))
                dead = True
            elif k < 0.85 and not dead:
                script += data(rng.randint(0, 2), 'logout')
                dead = True
            else:
                script.append(('advance', hb * 2.6))
        script += gap(rng, hb)
    if rng.random() < 0.5 and flavour == 'startdisp':
        script.append(('startdisp',))
    if rng.random() < 0.3:
        script.append(('close', new_user()))
    return cfg, script, 0.05 + slow * 1.2


def gen_ext_late(rng, hb=0.004):
    """extended scenarios (oracle only) around a LATE cancel of a pull — the former finding C04-late-cancel-loses-message — followed by
    a dispatcher: `start_dispatching()` right after the cancelled receive, or the late cancel inside `pause_dispatching()` (the
    dispatcher restarts when the context exits).  The dispatcher must deliver the message the cancelled receive held FIRST."""
    codec = SoupCodec()
    cfg = dict(kind='soup-client', mode='callback', has_cb=rng.random() < 0.8, cb_beh='ret',
               default_beh=rng.choice(['ret', 'ret', ('await', 0)]), msg_beh={})
    nxt = [1]

    def msgs(k):
        out = []
        for _ in range(k):
            out.append(('msg', nxt[0]))
            nxt[0] += 1
        return out
    script = [('connect',)]
    flavour = rng.choice(['startdisp', 'pause', 'empty-startdisp'])
    if flavour == 'empty-startdisp':
        # the pull is cancelled while the queue is EMPTY (its helper must be gone afterwards, not parked on the queue where it would
        # take the first message of the callback phase), then the switch to callbacks, then traffic
        script += [('recv', 11), ('turns', rng.randint(1, 4)), ('cancel', 11), ('turns', rng.randint(0, 3)), ('startdisp',), ('advance', 0.0005)]
        script += cut_stream(msgs(rng.randint(2, 4)), codec, rng, rng.choice(['whole', 'per-frame'])) + [('advance', 0.0005)]
        if rng.random() < 0.3:
            script += [('close', 12)]
        return cfg, script, 0.05
    if flavour == 'startdisp':
        script += [('recv', 11), ('turns', rng.randint(1, 3))]
    else:
        script += [('login', 2), ('turns', 2)] + cut_stream([('msg', 0)], codec, rng, 'whole') + [('advance', 0.0003)]
        script += [('paused_recv', 11), ('turns', rng.randint(3, 6))]
    closing = rng.random() < 0.4
    if closing:
        # the callback that gets the handed-back message closes the session: nothing queued behind it may be delivered afterwards
        cfg['msg_beh'][nxt[0]] = rng.choice(['close', 'close', 'iclose', ('sleep_close', 0)])
    script += cut_stream(msgs(rng.randint(2, 4) if closing else rng.randint(1, 3)), codec, rng, rng.choice(['whole', 'per-frame']))
    script += late_window(rng, exact=rng.random() < 0.85) + [('cancel', 11), ('turns', rng.randint(0, 2))]
    if flavour == 'startdisp':
        script += [('startdisp',)]
    script += [('advance', 0.0005)] + cut_stream(msgs(rng.randint(1, 2)), codec, rng, 'whole') + [('advance', 0.0005)]
    if rng.random() < 0.3:
        script += [('close', 12)]
    return cfg, script, 0.05

