"""C17 — code generation is a pure, repeatable function of the spec.

Histories of 1..3 invocations of the real generators (soup-app = itch/ouch/sqf, FIX, ASN.1, new_project) are run through the
real click entry points — whole, or split at the entry point's own call of `<generator>.generate()` into the two halves of the
generator API (`construct`: parse + generator object, `generate`), the halves of 2..3 generators interleaved in any order, a
generator also constructed on the spec object ANOTHER generator's construction parsed (`construct k on j`: one `parse()` /
`Parser.parse()` result handed to several generators with their own app name / prefix / init flag / directory / protocol) —,
each *process segment* of a history in its own OS process (forked from a zygote that has imported the
library but never ran a generator; the zygotes are separate INTERPRETERS started with different fixed `PYTHONHASHSEED`s —
0, 1, 2 and 'random' —, the segments of a history and the fresh single runs take them in turn), into temp directories outside /verif and /repo (removed afterwards).  After every invocation
the whole tree is snapshotted; `open(..., 'w'|'a')` and `shutil.rmtree` are observed from outside (the worker wraps them), so each
file is known as the *list of chunks* written to it.  Right after every successful generator invocation a forked child imports
the package and the modules just generated.

 * correspondence: the same history goes to the Lean model (`gen.hist current …`, Model/GenHistory.lean); compared are, per
   invocation, the outcome (ok / exception class), the import outcome, the chunk structure of every file in the tree (chunks
   numbered by first appearance: byte equality on the implementation side, descriptor equality on the model side — the fresh
   single runs of every invocation are part of the numbering, so "equal to the fresh output" is part of what is compared);
 * oracle (no model involved): the three clauses of the property against *fresh single runs* of the real generators (fresh
   process, empty directory): same outcome; every file the invocation writes is byte-for-byte the fresh one; a directory that was
   empty or held only an earlier output of the same target equals the fresh directory; the package imports as the fresh one does;
   "in separate processes": the fresh single run of every invocation is repeated by an interpreter with another hash seed (a
   replay: by all of them) and the outcome, the import outcome and the whole tree must be equal byte for byte;
 * the soup-app specs include specs in which a NAME OCCURS TWICE among the enum / record / message definitions (`DUPS`); for the
   fresh single run of every soup-app invocation `__all__` of the generated module is compared, name by name, with the export list
   of the text model of the generator (`gen.exports`, Model/GenSoupApp.lean; Props/C17Names.lean: spec order, duplicates kept).
"""
import copy
import json
import os
import shutil
import subprocess
import sys
import tempfile
import threading
from concurrent.futures import ThreadPoolExecutor

from common import sx, cps, parse_sx

DRIVER = 'drv_C17'
PY = sys.executable
HERE = os.path.abspath(__file__)
# which semantics of the model the library is compared with: `current` (Model/GenHistory.lean, the claim); the named ones
# (`actual`, `fixed`) are for trying a patched checkout before the switch is flipped
SEM = os.environ.get('VERIF_C17_SEM', 'current')

# the one defect that stays a known finding (/verif/fixes/C17-new-project-rerun.md; same signature as in known_findings.json).
# The three generator defects (append mode a5da5b2, FIX generator state 6c43d46, FieldDef.Definitions 388f25f) are repaired:
# their histories stay in corpus/C17 and in Witness/C17.lean as regressions that must pass; the oracle still *labels* such a
# deviation with its old kind ('append-mode', 'fix-generator-state-leak', 'fielddef-leak') but nothing suppresses it.
KNOWN_LOCAL = [
    {'id': 'C17-new-project-rerun', 'property': 'C17', 'status': 'known', 'signature': {'kind': 'new-project-rerun'},
     'what': 'nasdaq-protocols-create-new-project appends to pyproject.toml and tox.ini: re-running it on an existing project '
             '(to add an application) leaves two [project] tables and a tox.ini that configparser rejects'},
]


# a locally known finding is applied only while the MODEL still claims that defect for the library (flags of the semantics the
# library is compared with, `gen.flags`): flipping `current := fixed` in Model/GenHistory.lean un-suppresses it
STILL_CLAIMED = {
    'C17-new-project-rerun': lambda f: f.get('pyprojMode') == 'append' or f.get('toxMode') == 'append',
}
MODEL_FLAGS = None          # None: model unavailable — every local finding stays applicable


def report(ctx, what, replay):
    """ctx.violation, after the locally known findings (until the coordinator has registered them)"""
    from common import matches_known
    for k in KNOWN_LOCAL:
        if MODEL_FLAGS is not None and not STILL_CLAIMED[k['id']](MODEL_FLAGS):
            continue
        if matches_known(k, replay):
            if k['id'] not in [x[0] for x in ctx.known_hits]:
                ctx.known_hits.append((k['id'], k['what']))
            ctx.count('known:' + k['id'])
            return True
    ctx.violation(what, replay)
    return False


# ------------------------------------------------------------------------------------------------ abstract specs -> real input
SOUP_TYPES = ['int_2', 'int_4_be', 'uint_8', 'char_ascii', 'int_8_be', 'uint_2_be', 'byte', 'boolean']
IMPLS = ['itch', 'ouch', 'sqf']
FIX_VERSIONS = {42: '4.2', 44: '4.4', 50: '5.0', 502: '5.0SP2'}
# every FIX type name of version_types.py, in the order of the 5.0SP2 table (= GenFix.types502 of the model).  The declared type of
# the dictionary field `F<n>` is a function of n (as everything else in these spec families): INT / STRING by parity for n < 10,
# FIX_TYPE_NAMES[(n - 10) % 29] from 10 on — so specs cover every type name, in particular the ones a version maps differently
# (LOCALMKTDATE) or does not know (SEQNUM, NUMINGROUP, FIXSTRING, MULTIPLECHARVALUE, TZTIMEONLY, MULTIPLESTRINGVALUE)
FIX_TYPE_NAMES = ['AMT', 'BOOLEAN', 'CHAR', 'CURRENCY', 'DATA', 'DAYOFMONTH', 'EXCHANGE', 'FLOAT', 'INT', 'LENGTH', 'LOCALMKTDATE',
                  'MONTHYEAR', 'MULTIPLEVALUESTRING', 'PRICE', 'PRICEOFFSET', 'QTY', 'STRING', 'UTCDATE', 'UTCTIMEONLY', 'UTCTIMESTAMP',
                  'COUNTRY', 'PERCENTAGE', 'LONG', 'FIXSTRING', 'MULTIPLECHARVALUE', 'NUMINGROUP', 'SEQNUM', 'TZTIMEONLY',
                  'MULTIPLESTRINGVALUE']
# which names a version documents (used only to CHOOSE inputs: mostly dictionaries that are valid for their version)
FIX_DOCUMENTED = {42: set(FIX_TYPE_NAMES[:23])}
FIX_DOCUMENTED[44] = FIX_DOCUMENTED[42] | {'SEQNUM', 'NUMINGROUP'}
FIX_DOCUMENTED[50] = FIX_DOCUMENTED[44] | {'FIXSTRING', 'MULTIPLECHARVALUE'}
FIX_DOCUMENTED[502] = FIX_DOCUMENTED[50] | {'TZTIMEONLY', 'MULTIPLESTRINGVALUE'}
FIX_VERSION_SENSITIVE = [10 + FIX_TYPE_NAMES.index(t) for t in ('LOCALMKTDATE', 'SEQNUM', 'NUMINGROUP', 'FIXSTRING', 'MULTIPLECHARVALUE',
                                                                 'TZTIMEONLY', 'MULTIPLESTRINGVALUE')]


def fix_type(n):
    if n < 10:
        return 'INT' if n % 2 else 'STRING'
    return FIX_TYPE_NAMES[(n - 10) % len(FIX_TYPE_NAMES)]


# ---- names that occur twice (the `dup` attribute of an abstract soup spec; absent / 0: every definition has a name of its own).
# The parser keeps enums and records in dicts keyed by name and messages in a dict keyed by (message id, group, direction): a
# message may be named like another message, like the enum or like the record, the record like the enum (two module-level classes
# of one name; the later one wins in the module namespace, `__all__` lists the name once per definition, in spec order); an enum /
# record id given twice is ONE dict entry (the later definition at the position of the first).  Every one of these specs is
# accepted, generates and imports on the unchanged library.
DUPS = {0: 'distinct names',
        1: 'message 1 named like message 0', 2: 'the last message named like message 0', 3: 'the record named like the enum',
        4: 'message 0 named like the enum', 5: 'the last message named like the enum', 6: 'message 0 named like the record',
        7: 'the last message named like the record', 8: 'the enum id declared twice', 9: 'the record id declared twice',
        10: 'record and last message named like the enum'}


def soup_struct(spec):
    """abstract soup-app spec {id, root: None | [[name, tok]...], uses: [name...], msgs: [msgid...], dup: code of DUPS} -> the four
    sections as plain data (what `soup_xml` writes and `soup_model_sx` tells the text model):
    {enums: [[name, type, [[member, description, value]...]]...], root: None | [[name, type]...], records: [[name, [field...]]...],
     messages: [[name, message-id, direction, [field...]]...]}, field = {name?, def?, type?}.
    Everything but the field-definition table is a function of `id` (names carry it); message ids and field names overlap
    between specs on purpose."""
    sid, dup = spec['id'], spec.get('dup', 0)
    n = len(spec['msgs'])
    ename, rname = f'Side{sid}', f'Rec{sid}'
    mnames = [f'M{sid}x{k}' for k in range(n)]
    enums = [[ename, 'char_ascii', [['Buy', 'b', 'B'], ['Sell', 's', 'S']]]]
    if dup in (3, 10):
        rname = ename
    records = [[rname, [{'name': f'r{sid}', 'type': 'int_4_be'}]]]
    if dup == 8:
        enums.append([ename, 'char_ascii', [['Buy', 'b', 'X'], ['Hold', 'h', 'H']]])
    if dup == 9:
        records.append([rname, [{'name': f'q{sid}', 'type': 'int_2'}]])
    if n:
        if dup == 1:
            if n >= 2:
                mnames[1] = mnames[0]
            else:
                mnames[0] = rname
        elif dup == 2:
            if n >= 2:
                mnames[-1] = mnames[0]
            else:
                mnames[0] = ename
        elif dup == 4:
            mnames[0] = ename
        elif dup in (5, 10):
            mnames[-1] = ename
        elif dup == 6:
            mnames[0] = rname
        elif dup == 7:
            mnames[-1] = rname
    messages = []
    for k, mid in enumerate(spec['msgs']):
        fields = [{'name': f'own{sid}', 'type': 'int_4_be'}, {'name': 'side', 'type': f'enum:Side{sid}'}]
        if k == 0:
            for j, name in enumerate(spec['uses']):
                # every second reference renames the field, as the documented format allows
                fields.append({'def': f'f{name}'} if j % 2 == 0 else {'name': f'u{j}', 'def': f'f{name}'})
        messages.append([mnames[k], str(mid), 'incoming' if k % 2 == 0 else 'outgoing', fields])
    root = None if spec['root'] is None else [[f'f{name}', SOUP_TYPES[tok]] for name, tok in spec['root']]
    return {'enums': enums, 'root': root, 'records': records, 'messages': messages}


def soup_xml(spec):
    """abstract soup-app spec -> XML text (see `soup_struct`)"""
    st = soup_struct(spec)

    def fld(f):
        return '<field ' + ' '.join(f'{k}="{f[k]}"' for k in ('name', 'def', 'type') if k in f) + '/>'
    out = ['<root>', ' <enums-root>']
    for name, ty, vals in st['enums']:
        out.append(f'  <enum id="{name}" type="{ty}">'
                   + ''.join(f'<value name="{m}" description="{d}">{v}</value>' for m, d, v in vals) + '</enum>')
    out.append(' </enums-root>')
    if st['root'] is not None:
        out.append(' <fielddef-root>')
        for name, ty in st['root']:
            out.append(f'  <field name="{name}" type="{ty}"/>')
        out.append(' </fielddef-root>')
    out.append(' <records-root>')
    for name, fields in st['records']:
        out.append(f'  <record id="{name}"><fields>' + ''.join(fld(f) for f in fields) + '</fields></record>')
    out.append(' </records-root>')
    out.append(' <messages-root>')
    for name, mid, direction, fields in st['messages']:
        out.append(f'  <message id="{name}" message-id="{mid}" direction="{direction}">')
        out.append('   <fields>')
        for f in fields:
            out.append('    ' + fld(f))
        out.append('   </fields>')
        out.append('  </message>')
    out.append(' </messages-root>')
    out.append('</root>')
    return '\n'.join(out) + '\n'


def soup_model_sx(spec):
    """the same spec in the request syntax of the text model of the soup-app generator (Model/GenSoupApp.lean, the C15 model;
    driver op `gen.exports`):  (spec (ENUM*) (FIELD*) (REC*) (MSG*)), absent attribute = none"""
    st = soup_struct(spec)

    def o(x):
        return 'none' if x is None else cps(x)

    def fld(f):
        return ['f', o(f.get('name')), o(f.get('def')), o(f.get('type')), 'none', 'none', 'none', 'none', 'none']
    return ['spec',
            [['enum', cps(n), o(t), [[cps(m), cps(v)] for m, _d, v in vals]] for n, t, vals in st['enums']],
            [fld({'name': n, 'type': t}) for n, t in (st['root'] or [])],
            [['rec', cps(n), [fld(f) for f in fields]] for n, fields in st['records']],
            [['msg', cps(n), cps(mid), 'none', cps(d), [fld(f) for f in fields]] for n, mid, d, fields in st['messages']]]


def fix_xml(spec):
    """abstract dictionary {id, version, fields, msgfields, groups, counts}; tree = [name, [field...], [tree...]]"""
    sid = spec['id']

    def grp(t, ind):
        pad = ' ' * ind
        s = [f'{pad}<group name="NoG{t[0]}" required="N">']
        for n in t[1]:
            s.append(f'{pad} <field name="F{n}" required="N"/>')
        for k in t[2]:
            s += grp(k, ind + 1)
        s.append(f'{pad}</group>')
        return s

    out = ['<fix major="4" minor="4" servicepack="0">',
           ' <header><field name="BeginString" required="Y"/><field name="BodyLength" required="Y"/>'
           '<field name="MsgType" required="Y"/></header>',
           ' <trailer><field name="CheckSum" required="Y"/></trailer>',
           ' <messages>',
           f'  <message name="Msg{sid}" msgtype="U{sid}" msgcat="app">',
           f'   <field name="Own{sid}" required="Y"/>']
    for n in spec['msgfields']:
        out.append(f'   <field name="F{n}" required="N"/>')
    for t in spec['groups']:
        out += grp(t, 3)
    out += ['  </message>', ' </messages>', ' <components/>', ' <fields>',
            '  <field number="8" name="BeginString" type="STRING"/>', '  <field number="9" name="BodyLength" type="LENGTH"/>',
            '  <field number="35" name="MsgType" type="STRING"/>', '  <field number="10" name="CheckSum" type="STRING"/>',
            f'  <field number="{5000 + sid}" name="Own{sid}" type="INT"/>']
    for n in spec['fields']:
        out.append(f'  <field number="{6000 + n}" name="F{n}" type="{fix_type(n)}"/>')
    for g in spec['counts']:
        out.append(f'  <field number="{7000 + g}" name="NoG{g}" type="NUMINGROUP"/>')
    out += [' </fields>', '</fix>']
    return '\n'.join(out) + '\n'


def asn1_text(cid):
    return (f'Mod{cid} DEFINITIONS AUTOMATIC TAGS ::= BEGIN\n'
            f'Pdu{cid} ::= SEQUENCE {{ a{cid} INTEGER, b BOOLEAN }}\nEND\n')


def user_text(path, n):
    if path.endswith('.toml'):
        return f'[project]\nname = "edited{n}"\nversion = "{n}.0"\n'
    if path.endswith('.ini'):
        return f'[tox]\nenv_list = edited{n}\n'
    return f'<root><!-- edited {n} --><messages-root/></root>\n'


# ------------------------------------------------------------------------------------------------ directories
def dir_rel(d):
    """abstract directory -> path relative to the case's base directory"""
    if d[0] == 'out':
        return f'd{d[1]}'
    root = os.path.join(f't{d[1]}', d[2])
    if d[0] == 'proj':
        return root
    src = os.path.join(root, 'src', d[2].replace('-', '_'))
    if d[0] == 'pkg':
        return src
    return os.path.join(src, d[3])


def dir_pkg(d):
    """(directory to put on sys.path, dotted package name) used to import the package generated into `d`"""
    if d[0] == 'out':
        return '', f'd{d[1]}'
    assert d[0] == 'app'
    return os.path.join(f't{d[1]}', d[2], 'src'), d[2].replace('-', '_') + '.' + d[3]


def dir_sx(d):
    if d[0] == 'out':
        return ['out', d[1]]
    return [d[0], d[1], cps(d[2])] + ([cps(d[3])] if d[0] == 'app' else [])


def ev_dirs(ev):
    """every abstract directory an event can touch"""
    if ev.get('gen') == 'newproj':
        ds = [['proj', ev['t'], ev['name']], ['pkg', ev['t'], ev['name']]]
        return ds + [['app', ev['t'], ev['name'], a] for a, _ in ev['apps']]
    if 'dir' in ev:
        return [ev['dir']]
    return []


# ------------------------------------------------------------------------------------------------ events -> model / worker
def ev_sx(ev):
    g = ev['gen']
    if g == 'newproc':
        return 'newproc'
    if g == 'newproj':
        return ['newproj', ev['t'], cps(ev['name']), [[cps(a), p] for a, p in ev['apps']]]
    if g == 'useredit':
        return ['edit', dir_sx(ev['dir']), cps(ev['fname']), ev['n']]
    if ev.get('phase') == 'generate':
        return ['generate', ev['gid']]
    if ev.get('phase') == 'construct':
        inner = ev_sx({k: v for k, v in ev.items() if k not in ('phase', 'gid', 'on')})
        if ev.get('on') is not None:      # constructed on the object that was parsed for generator `on` (driver op gen.reuse)
            return ['construct', ev['gid'], ['on', ev['on']], inner]
        return ['construct', ev['gid'], inner]
    opts = [cps(ev['app']), cps(ev['prefix']), bool(ev['init']), dir_sx(ev['dir'])]
    s = ev['spec']
    if g == 'soup':
        root = 'none' if s['root'] is None else [[a, b] for a, b in s['root']]
        if ev.get('override') is not None:      # `--override-messages` / `--no-override-messages` given explicitly
            return ['soup', ev['impl'], [s['id'], root, s['uses'], s['msgs']], opts, bool(ev['override'])]
        return ['soup', ev['impl'], [s['id'], root, s['uses'], s['msgs']], opts]
    if g == 'fix':
        return ['fix', [s['id'], s['version'], s['fields'], s['msgfields'], s['groups'], s['counts']], opts]
    if g == 'asn1':
        return ['asn1', [[cps(f), c] for f, c in s['files']], cps(ev['pdu']), cps(ev['package']), opts]
    raise ValueError(g)


def _txt(t):
    return ''.join(chr(int(c)) for c in t)


def sx_dir(t):
    if t[0] == 'out':
        return ['out', int(t[1])]
    return [t[0], int(t[1]), _txt(t[2])] + ([_txt(t[3])] if t[0] == 'app' else [])


def sx_ev(t):
    """inverse of ev_sx on a parsed s-expression (used for the witness histories printed by the model driver)"""
    if t == 'newproc':
        return dict(NEWPROC)
    g = t[0]
    if g == 'newproj':
        return {'gen': 'newproj', 't': int(t[1]), 'name': _txt(t[2]), 'apps': [[_txt(a), p] for a, p in t[3]]}
    if g == 'edit':
        return {'gen': 'useredit', 'dir': sx_dir(t[1]), 'fname': _txt(t[2]), 'n': int(t[3])}
    if g == 'construct':
        ev = sx_ev(t[-1])
        ev.update(phase='construct', gid=int(t[1]), spec_file=f'specg{int(t[1])}')
        if len(t) == 4:                   # (construct k (on j) <invocation>)
            ev['on'] = int(t[2][1])
        return ev
    if g == 'generate':
        return {'gen': 'generate', 'phase': 'generate', 'gid': int(t[1])}      # completed by `link_phases`
    override = None
    if g == 'soup' and len(t) == 5:
        override, t = (t[4] == 'true'), t[:4]
    o = t[-1]
    ev = {'gen': g, 'app': _txt(o[0]), 'prefix': _txt(o[1]), 'init': o[2] == 'true', 'dir': sx_dir(o[3]), 'spec_file': 'spec'}
    ints = lambda l: [int(x) for x in l]
    if g == 'soup':
        sp = t[2]
        ev.update(impl=t[1], spec={'id': int(sp[0]), 'root': None if sp[1] == 'none' else [ints(p) for p in sp[1]],
                                   'uses': ints(sp[2]), 'msgs': ints(sp[3])})
        if override is not None:
            ev['override'] = override
    elif g == 'fix':
        sp = t[1]

        def tree(x):
            return [int(x[0]), ints(x[1]), [tree(k) for k in x[2]]]
        ev['spec'] = {'id': int(sp[0]), 'version': int(sp[1]), 'fields': ints(sp[2]), 'msgfields': ints(sp[3]),
                      'groups': [tree(x) for x in sp[4]], 'counts': ints(sp[5])}
    elif g == 'asn1':
        ev.update(spec={'files': [[_txt(f), int(c)] for f, c in t[1]]}, pdu=_txt(t[2]), package=_txt(t[3]))
    return ev


def ev_step(ev):
    """abstract event -> concrete worker step (real XML / ASN.1 text, relative directories)"""
    g = ev['gen']
    if g == 'newproj':
        return {'gen': g, 'name': ev['name'], 'dir': f't{ev["t"]}', 'apps': ev['apps']}
    if g == 'useredit':
        p = os.path.join(dir_rel(ev['dir']), ev['fname'])
        return {'gen': g, 'path': p, 'text': user_text(p, ev['n'])}
    st = {'gen': g, 'app': ev['app'], 'prefix': ev['prefix'], 'init': ev['init'], 'dir': dir_rel(ev['dir']),
          'spec_file': ev.get('spec_file', 'spec'), 'pkg': list(dir_pkg(ev['dir'])), 'fault': ev.get('fault'),
          'phase': ev.get('phase'), 'gid': ev.get('gid'), 'on': ev.get('on')}
    if g == 'soup':
        st.update(impl=ev['impl'], xml=soup_xml(ev['spec']), override=ev.get('override'))
    elif g == 'fix':
        st.update(xml=fix_xml(ev['spec']), version=FIX_VERSIONS[ev['spec']['version']])
    elif g == 'asn1':
        st.update(files=[[f, asn1_text(c)] for f, c in ev['spec']['files']], pdu=ev['pdu'], package=ev['package'])
    return st


# ------------------------------------------------------------------------------------------------ worker side (child processes)
def _err_name(e):
    n = type(e).__name__
    table = {'KeyError': 'key', 'ValueError': 'value', 'AttributeError': 'attr', 'DuplicateMessageException': 'dup',
             'TypeError': 'type', 'IndexError': 'index'}
    return table.get(n, 'other:' + n)


def _snapshot(base):
    snap = {}
    for root, dirs, files in os.walk(base):
        dirs.sort()
        rel = os.path.relpath(root, base)
        if rel.split(os.sep)[0] == '_in':
            dirs[:] = []
            continue
        for f in sorted(files):
            p = os.path.normpath(os.path.join(rel, f))
            with open(os.path.join(root, f), 'rb') as fh:
                snap[p] = fh.read().decode('latin-1')
    return snap


def _forked(fn):
    """run fn() in a forked child, return the string it returns"""
    r, w = os.pipe()
    pid = os.fork()
    if pid == 0:
        os.close(r)
        try:
            out = fn()
        except BaseException as e:  # noqa
            out = 'err other:harness:' + type(e).__name__
        data = out.encode()
        while data:
            n = os.write(w, data)
            data = data[n:]
        os._exit(0)
    os.close(w)
    data = b''
    while True:
        chunk = os.read(r, 65536)
        if not chunk:
            break
        data += chunk
    os.close(r)
    os.waitpid(pid, 0)
    return data.decode()


def _import_check(base, st, modules):
    import importlib
    sp, pkg = st['pkg']
    sys.path.insert(0, os.path.join(base, sp) if sp else base)
    sys.stdout = open(os.devnull, 'w')
    try:
        order = ([pkg] if os.path.exists(os.path.join(base, st['dir'], '__init__.py')) else []) + [f'{pkg}.{m}' for m in modules]
        for m in order:
            importlib.import_module(m)
        return 'ok'
    except BaseException as e:  # noqa
        return 'err ' + _err_name(e)


def run_steps(req):
    """runs the steps in THIS process through the real entry points; returns per step
    {outcome, import, log: [[op, relpath, mode]...], snap: {relpath: text}}"""
    import builtins
    base = req['base']
    real_open, real_rmtree = builtins.open, shutil.rmtree
    log = []

    def spy_open(file, mode='r', *a, **kw):
        try:
            p = os.path.abspath(os.fspath(file)) if not isinstance(file, int) else None
        except TypeError:
            p = None
        if p and p.startswith(base + os.sep) and any(c in mode for c in 'wax+'):
            fault[1] += 1
            if fault[0] is not None and fault[1] == fault[0]:
                # injected environment fault: this output file cannot be opened (path occupied / disk full) — the invocation fails
                # in the middle of writing, and the process goes on to the next invocation
                raise IsADirectoryError(21, 'injected: output path cannot be opened', p)
            log.append(['open', os.path.relpath(p, base), mode])
        return real_open(file, mode, *a, **kw)

    def spy_rmtree(path, *a, **kw):
        p = os.path.abspath(os.fspath(path))
        if p.startswith(base + os.sep):
            log.append(['rmtree', os.path.relpath(p, base), ''])
        return real_rmtree(path, *a, **kw)

    out = []
    devnull = real_open(os.devnull, 'w')
    ind = os.path.join(base, '_in')
    os.makedirs(ind, exist_ok=True)
    fault = [None, 0]
    objects = {}            # gid -> (unbound generate, generator object, args, kwargs): constructed, not yet / already generated
    for st in req['steps']:
        del log[:]
        fault[0], fault[1] = st.get('fault'), 0
        outcome, cmd, args = 'ok', None, None
        phase = st.get('phase')
        try:
            g = st['gen']
            if phase == 'generate':
                # second half of the generator API: `generator.generate(...)` on the object the entry point built earlier
                if st['gid'] not in objects:
                    outcome = 'na-noobject'
                else:
                    orig, obj, a, kw = objects[st['gid']]
                    builtins.open, shutil.rmtree = spy_open, spy_rmtree
                    so, sys.stdout = sys.stdout, devnull
                    try:
                        orig(obj, *a, **kw)
                    finally:
                        sys.stdout = so
                        builtins.open, shutil.rmtree = real_open, real_rmtree
            elif g in ('soup', 'fix'):
                if g == 'soup':
                    cmd = __import__(f'nasdaq_protocols.{st["impl"]}.codegen', fromlist=['generate']).generate
                else:
                    from nasdaq_protocols.fix import codegen as fcg
                    cmd = fcg.generate
                spec_path = os.path.join(ind, st['spec_file'] + '.xml')
                with real_open(spec_path, 'w') as fh:
                    fh.write(st['xml'])
                os.makedirs(os.path.join(base, st['dir']), exist_ok=True)
                args = ['--spec-file', spec_path, '--app-name', st['app'], '--op-dir', os.path.join(base, st['dir']),
                        '--prefix', st['prefix'], '--init-file' if st['init'] else '--no-init-file']
                if g == 'fix':
                    args += ['--fix-version', st['version']]
                elif st.get('override') is not None:
                    args += ['--override-messages' if st['override'] else '--no-override-messages']
            elif g == 'asn1':
                from nasdaq_protocols.asn1_app import codegen as acg
                cmd = acg.generate_soup_app
                adir = os.path.join(ind, st['spec_file'] + '_asn1')
                real_rmtree(adir, ignore_errors=True)
                os.makedirs(adir)
                for name, text in st['files']:
                    with real_open(os.path.join(adir, name), 'w') as fh:
                        fh.write(text)
                os.makedirs(os.path.join(base, st['dir']), exist_ok=True)
                args = ['--asn1-files-dir', adir, '--app-name', st['app'], '--pdu-name', st['pdu'],
                        '--op-dir', os.path.join(base, st['dir']), '--prefix', st['prefix'],
                        '--package-name', st['package'], '--init-file' if st['init'] else '--no-init-file']
            elif g == 'newproj':
                from nasdaq_protocols.tools import new_project
                cmd = new_project.create
                os.makedirs(os.path.join(base, st['dir']), exist_ok=True)
                args = ['--name', st['name'], '--target-dir', os.path.join(base, st['dir'])]
                for a, p in st['apps']:
                    args += ['--application', f'{a}:{p}']
            elif g == 'useredit':      # the user edits a file between two runs
                os.makedirs(os.path.dirname(os.path.join(base, st['path'])), exist_ok=True)
                with real_open(os.path.join(base, st['path']), 'w') as fh:
                    fh.write(st['text'])
                log.append(['open', st['path'], 'w'])
            else:
                raise RuntimeError('unknown generator ' + g)
            if cmd is not None and phase == 'construct' and st.get('on') is not None and st['on'] not in objects:
                outcome, cmd = 'na-noobject', None       # the generator whose parsed spec is to be used was never constructed
            if cmd is not None:
                captured, undo, undo_parse = [], [], []
                if phase == 'construct':
                    # first half of the generator API: the real entry point runs (parse, construct the generator object) up to its
                    # call of `<generator>.generate(...)`, which is recorded instead of executed
                    undo = _intercept_generate(captured)
                    if st.get('on') is not None:
                        # …on a spec that is ALREADY PARSED: the entry point's parse step hands out the very object generator
                        # `on` was constructed from (`definitions = parse(...)` once, several `Generator(definitions, …)`)
                        undo_parse = _reuse_parsed(objects[st['on']][1].definitions)
                builtins.open, shutil.rmtree = spy_open, spy_rmtree
                so, sys.stdout = sys.stdout, devnull
                try:
                    cmd.main(args, standalone_mode=False)
                finally:
                    sys.stdout = so
                    builtins.open, shutil.rmtree = real_open, real_rmtree
                    for cls, orig in undo:
                        cls.generate = orig
                    for holder, name, orig in undo_parse:
                        setattr(holder, name, orig)
                if phase == 'construct':
                    if len(captured) == 1:
                        objects[st['gid']] = captured[0]
                    else:
                        outcome = 'err other:harness:entry point called generate() %d times' % len(captured)
        except BaseException as e:  # noqa  (SystemExit / click exceptions included)
            builtins.open, shutil.rmtree = real_open, real_rmtree
            outcome = 'err ' + _err_name(e)
        imp = 'na'
        if st['gen'] in ('soup', 'fix', 'asn1') and outcome == 'ok' and phase != 'construct':
            mods = []
            for op, p, _m in log:
                d, f = os.path.split(p)
                if op == 'open' and d == os.path.normpath(st['dir']) and f.endswith('.py') and f != '__init__.py' \
                        and f[:-3] not in mods:
                    mods.append(f[:-3])
            imp = _forked(lambda: _import_check(base, st, mods))
        cfg = 'na'
        if st['gen'] == 'newproj':
            cfg = _forked(lambda: _config_check(os.path.join(base, st['dir'], st['name'])))
        out.append({'outcome': outcome, 'import': imp, 'cfg': cfg, 'log': [list(x) for x in log], 'snap': _snapshot(base)})
    return out


def _intercept_generate(captured):
    """replaces `generate` of the three generator classes by a recorder; returns [(class, original)] for undoing it"""
    from nasdaq_protocols.common.message import codegen as mcg
    from nasdaq_protocols.fix.parser import generator as fgen
    from nasdaq_protocols.asn1_app import codegen as acg
    undo = []
    for cls in (mcg.Generator, fgen.Generator, acg.Ans1Generator):
        orig = cls.generate

        def recorder(self, *a, _orig=orig, **kw):
            captured.append((_orig, self, a, kw))
            return []
        undo.append((cls, orig))
        cls.generate = recorder
    return undo


def _reuse_parsed(definitions):
    """replaces the parse step of the soup-app and FIX entry points (`Parser.parse`, `fix.codegen.parse`) by "the object that was
    parsed earlier"; returns [(holder, attribute, original)] for undoing it"""
    from nasdaq_protocols.common.message import parser as mparser
    from nasdaq_protocols.fix import codegen as fcg
    undo = [(mparser.Parser, 'parse', mparser.Parser.__dict__['parse']), (fcg, 'parse', fcg.parse)]
    mparser.Parser.parse = staticmethod(lambda *a, **kw: definitions)
    fcg.parse = lambda *a, **kw: definitions
    return undo


def _config_check(root):
    """does the project still build: pyproject.toml is TOML, tox.ini is an ini file"""
    import configparser
    import tomllib
    try:
        with open(os.path.join(root, 'pyproject.toml'), 'rb') as fh:
            tomllib.load(fh)
        cp = configparser.ConfigParser()
        with open(os.path.join(root, 'tox.ini')) as fh:
            cp.read_file(fh)
        return 'cfg-ok'
    except Exception as e:  # noqa
        return 'cfg-bad:' + type(e).__name__


def zygote_main():
    """line protocol on stdin/stdout: one JSON request {repo, base, steps} per line; each request runs in a forked child"""
    import logging
    repo = sys.argv[2]
    sys.path.insert(0, os.path.join(repo, 'src'))
    logging.disable(logging.CRITICAL)
    import warnings
    warnings.simplefilter('ignore')
    import nasdaq_protocols.itch.codegen, nasdaq_protocols.ouch.codegen, nasdaq_protocols.sqf.codegen  # noqa
    import nasdaq_protocols.fix.codegen, nasdaq_protocols.asn1_app.codegen, nasdaq_protocols.tools.new_project  # noqa
    import click.testing  # noqa
    sys.stdout.write('ready\n')
    sys.stdout.flush()
    for line in sys.stdin:
        req = json.loads(line)
        res = _forked(lambda: json.dumps(run_steps(req)))
        sys.stdout.write(res + '\n')
        sys.stdout.flush()


# ------------------------------------------------------------------------------------------------ harness side: process pool
# "in one process or in separate ones": every process segment of a history runs in a child forked from a zygote INTERPRETER, and the
# zygotes are started with different, fixed `PYTHONHASHSEED`s (str hashing — hence the iteration order of every set of names — is
# per interpreter): class j of HASH_SEEDS.  The segments of a history take the classes 1, 2, 3, 0, 1 … in turn; the fresh single run
# every invocation is compared with runs in class 0, and is REPEATED in every other class (`evaluate`: the four trees must be equal
# byte for byte).  'random' is what an interpreter does when nobody sets the variable.
HASH_SEEDS = ['0', '1', '2', 'random']


class Pool:
    def __init__(self, repo, n):
        self.repo = repo
        self.free = {j: [] for j in range(len(HASH_SEEDS))}
        self.lock = threading.Lock()
        self.all = []
        self.n = n
        self.exec = ThreadPoolExecutor(max_workers=n)

    def _get(self, hs):
        with self.lock:
            if self.free[hs]:
                return self.free[hs].pop()
        env = dict(os.environ, PYTHONHASHSEED=HASH_SEEDS[hs])
        p = subprocess.Popen([PY, '-W', 'ignore', HERE, '--zygote', self.repo], stdin=subprocess.PIPE, stdout=subprocess.PIPE,
                             stderr=subprocess.DEVNULL, text=True, env=env)
        first = p.stdout.readline().strip()
        if first != 'ready':
            raise RuntimeError('zygote failed to start (cannot import the library?): ' + first)
        with self.lock:
            self.all.append(p)
        return p

    def segment(self, base, steps, hs=0):
        hs %= len(HASH_SEEDS)
        p = self._get(hs)
        watchdog = threading.Timer(300, p.kill)      # a generator that hangs is an infrastructure error (exit 2), not a verdict
        watchdog.start()
        try:
            p.stdin.write(json.dumps({'base': base, 'steps': steps}) + '\n')
            p.stdin.flush()
            line = p.stdout.readline()
        finally:
            watchdog.cancel()
        if not line:
            raise RuntimeError('generator worker died or timed out')
        with self.lock:
            self.free[hs].append(p)
        return json.loads(line)

    def map(self, fn, items):
        return list(self.exec.map(fn, items))

    def close(self):
        for p in self.all:
            try:
                p.stdin.close()
                p.wait(timeout=5)
            except Exception:  # noqa
                p.kill()
        self.exec.shutdown(wait=False)


def run_history(pool, events, hs0=1):
    """real run of a history; returns the list of per-event results ('newproc' or the worker's dict), temp dir removed.
    The k-th process segment runs in an interpreter of hash-seed class hs0 + k."""
    base = tempfile.mkdtemp(prefix='c17-')
    try:
        out, seg = [], []
        nseg = [0]

        def flush():
            if seg:
                res = pool.segment(base, [ev_step(e) for e in seg], hs0 + nseg[0])
                out.extend(res)
                del seg[:]
                nseg[0] += 1
        for ev in events:
            if ev['gen'] == 'newproc':
                flush()
                out.append('newproc')
            else:
                seg.append(ev)
        flush()
        return out
    finally:
        shutil.rmtree(base, ignore_errors=True)


# ------------------------------------------------------------------------------------------------ chunk bookkeeping (implementation side)
def track_chunks(chunks, before, res):
    """update `chunks` (relpath -> list of texts) with what one step did, from its open/rmtree log and the snapshots"""
    after = res['snap']
    notes = []
    seen = set()
    for op, p, mode in res['log']:
        if op == 'rmtree':
            for q in list(chunks):
                if q == p or q.startswith(p + os.sep):
                    del chunks[q]
                    before = {k: v for k, v in before.items() if k != q}
            before = {k: v for k, v in before.items() if not (k == p or k.startswith(p + os.sep))}
            continue
        if p in seen or p not in after:
            if p in seen:
                notes.append(f'{p} opened twice in one invocation')
            continue
        seen.add(p)
        new = after[p]
        if 'a' in mode:
            old = before.get(p, '')
            if new.startswith(old):
                suffix = new[len(old):]
                chunks[p] = (chunks.get(p, []) if p in before else []) + ([suffix] if suffix else [])
            else:
                notes.append(f'{p} opened with {mode} but the old content is not a prefix of the new one')
                chunks[p] = [new] if new else []
        else:
            chunks[p] = [new] if new else []
    for p in list(chunks):
        if p not in after:
            del chunks[p]
    for p, text in after.items():
        if p in seen:
            continue
        if p not in before or p not in chunks or before[p] != text:
            chunks[p] = [text] if text else []          # created / replaced without `open` (copy2, touch)
    return notes


# ------------------------------------------------------------------------------------------------ case evaluation
def norm_outcome(s):
    if s.startswith('err other') or s.startswith('err-other'):
        return 'err-other'
    return s.replace('err ', 'err-')


def split_path(p, dirs):
    """relative path of the tree -> (dir sexp text, file name) using the case's known directories (longest prefix wins)"""
    best = None
    for d in dirs:
        r = dir_rel(d)
        if p.startswith(r + os.sep) and (best is None or len(r) > len(best[0])):
            best = (r, d)
    if best is None:
        return ('?', p)
    return (sx(dir_sx(best[1])), p[len(best[0]) + 1:])


class Numbering:
    def __init__(self):
        self.ids = {}

    def __call__(self, key):
        return self.ids.setdefault(key, len(self.ids))


def impl_structure(case, real, fresh_real):
    """canonical structure of the implementation's behaviour on a case (and of the fresh runs of its invocations)"""
    dirs = [d for ev in case for d in ev_dirs(ev)]
    num = Numbering()
    steps = []
    chunks, before = {}, {}
    notes = []
    for ev, res in zip(case, real):
        if res == 'newproc':
            steps.append('newproc')
            continue
        notes += track_chunks(chunks, before, res)
        before = res['snap']
        files = sorted((split_path(p, dirs), [num(c) for c in cs]) for p, cs in chunks.items())
        steps.append([norm_outcome(res['outcome']), norm_outcome(res['import']), res['cfg'].split(':')[0], files])
    fresh = []
    for ev in case:
        if ev['gen'] in ('soup', 'fix', 'asn1'):
            fr = fresh_real[fresh_key(ev)]
            d = ev['dir']
            ch = {}
            track_chunks(ch, {}, fr)
            files = sorted((split_path(p, [d]), [num(c) for c in cs]) for p, cs in ch.items()
                           if p.startswith(dir_rel(d) + os.sep))
            fresh.append([norm_outcome(fr['outcome']), norm_outcome(fr['import']), files])
    return {'steps': steps, 'fresh': fresh}, notes


def model_structure(case, ans, fresh_ans):
    num = Numbering()

    def fsconv(fs):
        out = []
        for d, name, cs in fs:
            out.append(((sx(d), ''.join(chr(int(c)) for c in name)), [num(sx(c)) for c in cs]))
        return sorted(out)
    t = parse_sx(ans)
    if t[0] != 'ok':
        return None
    steps = []
    for s in t[1:]:
        if s == 'newproc':
            steps.append('newproc')
        else:
            steps.append([s[0], s[1], s[2], fsconv(s[3])])
    fresh = []
    for ev in case:
        if ev['gen'] in ('soup', 'fix', 'asn1'):
            ft = parse_sx(fresh_ans[fresh_key(ev)])
            s = ft[-1]
            dkey = sx(dir_sx(ev['dir']))
            fresh.append([s[0], s[1], [e for e in fsconv(s[3]) if e[0][0] == dkey]])
    return {'steps': steps, 'fresh': fresh}


def fresh_event(ev):
    """the invocation alone: own process, own (empty) tree, the same relative directory and options"""
    e = copy.deepcopy(ev)
    for k in ('spec_file', 'fault', 'phase', 'gid', 'on'):
        e.pop(k, None)
    return e


def fresh_key(ev):
    return json.dumps(fresh_event(ev), sort_keys=True)


def same_target(a, b):
    keys = ['gen', 'impl', 'app', 'prefix', 'init', 'dir']
    if a['gen'] == 'asn1':
        return b['gen'] == 'asn1' and a['dir'] == b['dir']
    return all(a.get(k) == b.get(k) for k in keys)


def fresh_run(pool, ev, hs=0):
    """the invocation alone: empty tree, own process — an interpreter of hash-seed class `hs`"""
    e = dict(ev)
    e['spec_file'] = 'spec'
    pre = []
    if e['dir'][0] == 'app':    # an application directory lives in a project: its package path needs the project tree
        pre = [{'gen': 'newproj', 't': e['dir'][1], 'name': e['dir'][2], 'apps': [[e['dir'][3], 'ouch']]}, dict(NEWPROC)]
    return run_history(pool, pre + [e], hs - (1 if pre else 0))[-1]


def process_diffs(ref, alt):
    """"generating the same spec twice in separate processes gives identical files": what differs between two fresh single runs of
    ONE invocation made by two interpreters (outcome, import outcome, the whole tree byte for byte); [] when nothing does"""
    what = []
    if alt['outcome'] != ref['outcome']:
        what.append(f'outcome {ref["outcome"]} / {alt["outcome"]}')
    if alt['import'] != ref['import']:
        what.append(f'import of the package {ref["import"]} / {alt["import"]}')
    for f in sorted(set(ref['snap']) | set(alt['snap'])):
        a, b = ref['snap'].get(f), alt['snap'].get(f)
        if a == b:
            continue
        if a is None or b is None:
            what.append(f'{f}: {"missing" if a is None else "written"} / {"missing" if b is None else "written"}')
            continue
        la, lb = a.splitlines(), b.splitlines()
        i = next((i for i, (x, y) in enumerate(zip(la, lb)) if x != y), min(len(la), len(lb)))
        what.append(f'{f} line {i + 1}: {(la[i] if i < len(la) else "<end of file>")[:60]!r} / '
                    f'{(lb[i] if i < len(lb) else "<end of file>")[:60]!r}')
    return what


def module_all(text):
    """the `__all__` list of a generated module (None: the text is not python / has none)"""
    import ast
    try:
        for node in ast.parse(text).body:
            if isinstance(node, ast.Assign) and any(isinstance(t, ast.Name) and t.id == '__all__' for t in node.targets):
                return list(ast.literal_eval(node.value))
    except Exception:  # noqa
        return None
    return None


def soup_module_path(ev):
    return os.path.join(dir_rel(ev['dir']), (ev['prefix'] + '_' if ev['prefix'] else '') + f'{ev["impl"]}_{ev["app"]}.py')


def oracle(case, real, fresh_real):
    """the property statement on the implementation alone.  Returns a list of (what, kind, step index)."""
    bad = []
    prev_snap = {}
    seg_start = 0
    for k, (ev, res) in enumerate(zip(case, real)):
        if res == 'newproc':
            seg_start = k + 1
            continue
        snap = res['snap']
        g = ev['gen']
        same_proc_before = [e for e in case[seg_start:k] if e['gen'] == g]
        if ev.get('fault') is not None:
            # an invocation that fails because of an injected environment fault is outside the property's quantifier (its result
            # does depend on more than the spec); what the property says about it is that LATER invocations do not depend on it
            prev_snap = snap
            continue
        phase = ev.get('phase')
        if phase == 'construct':
            # generator API, first half (parse + construct the generator object): the only thing the property says about it alone
            # is its outcome — a construction that fails must fail exactly as the whole invocation fails when it runs alone
            fr = fresh_real[fresh_key(ev)]
            if res['outcome'] == 'na-noobject':
                pass        # (on a parsed spec whose own construction failed: judged there)
            elif res['outcome'] != 'ok' and res['outcome'] != fr['outcome']:
                bad.append((f'constructing the generator: {res["outcome"]}, but the same invocation alone gives {fr["outcome"]}', 'other', k))
            prev_snap = snap
            continue
        if phase == 'generate' and res['outcome'] == 'na-noobject':
            prev_snap = snap          # its construction failed (judged there)
            continue
        if g in ('soup', 'fix', 'asn1'):
            fr = fresh_real[fresh_key(ev)]
            d = dir_rel(ev['dir']) + os.sep
            fd = d
            mine = {p[len(d):]: t for p, t in snap.items() if p.startswith(d)}
            mine_before = {p[len(d):]: t for p, t in prev_snap.items() if p.startswith(d)}
            ref = {p[len(fd):]: t for p, t in fr['snap'].items() if p.startswith(fd)}
            own = [j for j, e in enumerate(case[:k]) if phase == 'generate' and e.get('phase') == 'construct' and e.get('gid') == ev['gid']]
            earlier_here = [e for j, e in enumerate(case[:k]) if e['gen'] in ('soup', 'fix', 'asn1', 'newproj', 'useredit')
                            and any(x == ev['dir'] for x in ev_dirs(e)) and j not in own]
            # the ASN.1 generator empties its directory when it is constructed: whatever the directory held before, it must equal
            # the fresh one — unless something else was put there between the construction and generate()
            wiped = g == 'asn1' and not (own and any(any(x == ev['dir'] for x in ev_dirs(e)) for e in case[own[-1] + 1:k]))
            # the directory was empty or held only an earlier output of the same target (for the ASN.1 generator, whose file
            # names depend on the input: any earlier ASN.1 output in this directory)
            only_same_target = all(e['gen'] in ('soup', 'fix', 'asn1') and same_target(e, ev) for e in earlier_here) \
                and (wiped or set(mine_before) <= set(ref))
            kinds = set()
            what = []
            if res['outcome'] != fr['outcome']:
                what.append(f'outcome {res["outcome"]} but the same invocation alone gives {fr["outcome"]}')
                if g == 'soup' and ev['spec']['root'] is None and same_proc_before:
                    kinds.add('fielddef-leak')
                else:
                    kinds.add('other')
            if fr['outcome'] != 'ok':
                if res['outcome'] != 'ok' and mine != mine_before:
                    what.append('a failing invocation changed the directory')
                    kinds.add('other')
            elif res['outcome'] == 'ok':
                written = [p[len(d):] for op, p, _m in res['log'] if op == 'open' and p.startswith(d)]
                written += [p for p in mine if p not in mine_before or mine_before[p] != mine[p]]
                for f in sorted(set(written) | set(ref)):
                    got, exp = mine.get(f), ref.get(f)
                    if got == exp:
                        continue
                    old = mine_before.get(f)
                    what.append(f'{f}: {len(got) if got is not None else None} bytes, the fresh run gives '
                                f'{len(exp) if exp is not None else None}')
                    if exp is not None and got is not None and old and got == old + exp:
                        kinds.add('append-mode')
                    elif g == 'fix' and same_proc_before and (f.endswith(('_groups.py', '_bodies.py', '_messages.py'))):
                        # the text this run appended / wrote is not the fresh text: state of earlier generations in it
                        kinds.add('fix-generator-state-leak')
                    elif g == 'soup' and ev['spec']['root'] is None and same_proc_before and exp is not None \
                            and f.endswith('.py') and f != '__init__.py':
                        kinds.add('fielddef-leak')
                    else:
                        kinds.add('other')
                if only_same_target:
                    extra = sorted(set(mine) - set(ref))
                    if extra:
                        what.append(f'files not in the fresh output: {extra}')
                        kinds.add('other')
                    if res['import'] != fr['import']:
                        what.append(f'import of the regenerated package: {res["import"]}, of the fresh one: {fr["import"]}')
                        if not kinds:
                            kinds.add('other')
            if phase and kinds:
                kinds = {'other'}     # (the labels above are about whole invocations; a fresh process cannot be given to generate() alone)
                what.insert(0, f'generate() of generator {ev["gid"]} (constructed at step {own[-1] if own else "?"}'
                            + (f' on the spec object parsed for generator {ev["on"]}' if ev.get('on') is not None else '') + ')')
            for kind in sorted(kinds):
                bad.append(('; '.join(what)[:400], kind, k))
        elif g == 'newproj' and res['outcome'] == 'ok':
            root = os.path.join(f't{ev["t"]}', ev['name'])
            tox = snap.get(os.path.join(root, 'tox.ini'), '')
            cmds = [ln.strip() for ln in tox.splitlines() if '-codegen ' in ln]
            src = ev['name'].replace('-', '_')
            exp = [f'nasdaq-{p}-codegen --spec-file=src/{src}/{a}/{a}.xml --app-name={a} --op-dir=src/{src}/{a} --init-file'
                   for a, p in ev['apps']]
            rerun = any(e['gen'] == 'newproj' and e['t'] == ev['t'] and e['name'] == ev['name'] for e in case[:k])
            user_tox = any(e['gen'] == 'useredit' and e['fname'] == 'tox.ini' for e in case[:k])
            what = []
            if res['cfg'] != 'cfg-ok':
                what.append(f'the project no longer builds: {res["cfg"]}')
            if cmds != exp and not user_tox:
                what.append(f'tox.ini runs {len(cmds)} codegen commands, the application list has {len(exp)}')
            if what:
                bad.append(('; '.join(what), 'new-project-rerun' if rerun else 'other', k))
        prev_snap = snap
    return bad


def confirm_state_leak(pool, case, k, kind, fresh_real):
    """a deviation is attributed to leaked process state only if it disappears when the failing invocation gets a fresh process
    (same file system history)"""
    h = case[:k] + [dict(NEWPROC), case[k]]
    rl = run_history(pool, h)
    return not any(kd in (kind, 'other') and j == len(h) - 1 for _w, kd, j in oracle(h, rl, fresh_real))


# ------------------------------------------------------------------------------------------------ generators of histories
APPS = ['x', 'y', 'oe']
PREFIXES = ['', '', 'p']
NAMES = [1, 2, 3]            # field-definition names / group names (thorough: one more)
FIELDS = [1, 2, 3, 4]        # FIX field names
DEPTHS = [0, 1, 1, 2]        # nesting depth of FIX groups


class SpecFactory:
    """distinct spec structure <-> distinct id (so that an id determines everything but the fielddef table)"""

    def __init__(self, rng):
        self.rng = rng
        self.soup_ids, self.fix_ids = {}, {}

    def soup(self, root_mode=None):
        rng = self.rng
        names = NAMES
        mode = root_mode or rng.choice(['root', 'root', 'root', 'noroot-uses', 'noroot-plain', 'empty-root'])
        if mode == 'root':
            root = [[n, rng.randrange(len(SOUP_TYPES))] for n in rng.sample(names, rng.randint(1, 3))]
            pool = [n for n, _ in root] if rng.random() < 0.85 else names
            uses = [rng.choice(pool) for _ in range(rng.randint(0, 3))]
        elif mode == 'noroot-uses':
            root, uses = None, [rng.choice(names) for _ in range(rng.randint(1, 2))]
        elif mode == 'noroot-plain':
            root, uses = None, []
        else:
            root, uses = [], ([rng.choice(names)] if rng.random() < 0.3 else [])
        msgs = rng.sample([65, 66, 67, 68], rng.randint(1, 3))
        if rng.random() < 0.2:
            # a message id declared twice (the same key — id and direction — when the two positions have the same parity): what
            # happens is decided by `--override-messages` (the later declaration wins) / `--no-override-messages` (ValueError)
            j = rng.randrange(len(msgs))
            at = j + 2 if rng.random() < 0.7 else rng.randint(0, len(msgs))
            while len(msgs) < at:
                msgs.append(rng.choice([69, 70]))
            msgs.insert(at, msgs[j])
        # a name that occurs twice among the enum / record / message definitions (see DUPS)
        dup = rng.randint(1, len(DUPS) - 1) if rng.random() < 0.3 else 0
        return self._soup(root, uses, msgs, dup)

    def _soup(self, root, uses, msgs, dup=0):
        key = (tuple(uses), tuple(msgs), dup)
        sid = self.soup_ids.setdefault(key, len(self.soup_ids) + 1)
        out = {'id': sid, 'root': root, 'uses': list(uses), 'msgs': list(msgs)}
        if dup:
            out['dup'] = dup
        return out

    def soup_edit(self, s):
        """the user edits the XML: another field-definition table, another message list, or both"""
        rng = self.rng
        c = rng.randrange(5)
        root, uses, msgs, dup = copy.deepcopy(s['root']), list(s['uses']), list(s['msgs']), s.get('dup', 0)
        if c == 0 and root:
            root = [[n, rng.randrange(len(SOUP_TYPES))] for n, _ in root]
        elif c == 1:
            msgs = msgs + [rng.choice([69, 70])]
        elif c == 2:
            root = None if root is not None else [[n, rng.randrange(len(SOUP_TYPES))] for n in sorted(set(uses)) or [1]]
        elif c == 3:
            # a definition is renamed: to the name of another definition, or back to a name of its own
            dup = rng.choice([d for d in DUPS if d != dup]) if dup == 0 or rng.random() < 0.6 else 0
        else:
            return self.soup()
        return self._soup(root, uses, msgs, dup)

    def tree(self, depth):
        rng = self.rng
        kids = [self.tree(depth - 1) for _ in range(rng.choice([0, 0, 1, 2]) if depth > 0 else 0)]
        return [rng.choice(NAMES), [rng.choice(FIELDS) for _ in range(rng.randint(0, 2))], kids]

    def typed_fields(self, version):
        """0..2 fields whose declared type is one of the 29 FIX type names: mostly the names whose mapping depends on the version,
        mostly documented for `version` (a dictionary that uses an undocumented name fails alone with KeyError — also a result
        that must not depend on the history)"""
        rng = self.rng
        out = []
        for _ in range(rng.choice([0, 0, 1, 1, 2])):
            pool = FIX_VERSION_SENSITIVE if rng.random() < 0.7 else list(range(10, 10 + len(FIX_TYPE_NAMES)))
            if rng.random() < 0.85:
                pool = [n for n in pool if fix_type(n) in FIX_DOCUMENTED[version]] or [10 + FIX_TYPE_NAMES.index('LOCALMKTDATE')]
            out.append(rng.choice(pool))
        return out

    def fix(self, groups=None, version=None):
        rng = self.rng
        if version is None:
            version = rng.choice([42, 44, 44, 50, 50, 502, 502])
        if groups is None:
            # a 4.2 dictionary cannot declare a group count field (no NUMINGROUP): mostly without groups
            n = 0 if version == 42 and rng.random() < 0.7 else rng.choice([0, 1, 1, 2])
            groups = [self.tree(rng.choice(DEPTHS)) for _ in range(n)]
        typed = self.typed_fields(version)
        msgfields = [rng.choice(FIELDS) for _ in range(rng.randint(0, 2))] + [n for n in typed if rng.random() < 0.5]

        def used(t):
            f, g = set(t[1]), {t[0]}
            for k in t[2]:
                a, b = used(k)
                f |= a
                g |= b
            return f, g
        f, g = set(msgfields), set()
        for t in groups:
            a, b = used(t)
            f |= a
            g |= b
        extra = ({rng.choice(FIELDS)} if rng.random() < 0.4 else set()) | set(typed)
        return self._fix(version, sorted(f | extra), msgfields, groups, sorted(g))

    def _fix(self, version, fields, msgfields, groups, counts):
        key = json.dumps([version, fields, msgfields, groups, counts])
        sid = self.fix_ids.setdefault(key, len(self.fix_ids) + 1)
        return {'id': sid, 'version': version, 'fields': fields, 'msgfields': msgfields, 'groups': groups, 'counts': counts}

    def fix_other_version(self, s):
        """the same dictionary file, another `--fix-version`"""
        v = self.rng.choice([x for x in FIX_VERSIONS if x != s['version']])
        return self._fix(v, s['fields'], s['msgfields'], s['groups'], s['counts'])

    def fix_edit(self, s):
        rng = self.rng
        c = rng.randrange(4)
        if c == 3:
            return self.fix_other_version(s)
        if c == 0:
            return self._fix(s['version'], sorted(set(s['fields']) | {rng.choice(FIELDS)}), s['msgfields'], s['groups'], s['counts'])
        if c == 1 and s['groups']:
            return self.fix(groups=s['groups'][:-1])
        return self.fix()

    def asn1(self):
        rng = self.rng
        files = [[f, rng.randint(1, 4)] for f in rng.sample(['a.asn1', 'b.asn1', 'c.asn1'], rng.randint(1, 2))]
        return {'files': sorted(files)}


def gen_invocation(rng, sf, kind, d):
    app, prefix = rng.choice(APPS), rng.choice(PREFIXES)
    init = rng.random() < 0.8
    if kind == 'soup':
        ev = {'gen': 'soup', 'impl': rng.choice(IMPLS), 'spec': sf.soup(), 'app': app, 'prefix': prefix, 'init': init, 'dir': d}
        if rng.random() < 0.4:
            ev['override'] = rng.random() < 0.4        # the flag given explicitly (absent: the entry point's default)
        return ev
    if kind == 'fix':
        return {'gen': 'fix', 'spec': sf.fix(), 'app': app, 'prefix': prefix, 'init': init, 'dir': d}
    spec = sf.asn1()
    return {'gen': 'asn1', 'spec': spec, 'pdu': f'Pdu{spec["files"][0][1]}', 'package': dir_pkg(d)[1] if d[0] == 'out' else 'pk',
            'app': app, 'prefix': prefix, 'init': init, 'dir': d}


def retarget(ev, d):
    e = copy.deepcopy(ev)
    e['dir'] = d
    if e['gen'] == 'asn1':
        e['package'] = dir_pkg(d)[1]
    return e


def edit_spec(rng, sf, ev):
    e = copy.deepcopy(ev)
    if e['gen'] == 'soup':
        e['spec'] = sf.soup_edit(e['spec'])
    elif e['gen'] == 'fix':
        e['spec'] = sf.fix_edit(e['spec'])
    else:
        e['spec'] = sf.asn1()
        e['pdu'] = f'Pdu{e["spec"]["files"][0][1]}'
    return e


def one_option_changed(rng, sf, ev):
    """the same spec file, exactly one option of the command line changed (every option of every generator can be the one)"""
    e = copy.deepcopy(ev)
    g = e['gen']
    opts = ['app', 'prefix', 'init'] + {'fix': ['version', 'version', 'version'], 'soup': ['override', 'impl'], 'asn1': ['pdu']}[g]
    o = rng.choice(opts)
    if o == 'app':
        e['app'] = rng.choice([a for a in APPS if a != ev['app']])
    elif o == 'prefix':
        e['prefix'] = rng.choice([x for x in ('', 'p', 'q') if x != ev['prefix']])
    elif o == 'init':
        e['init'] = not ev['init']
    elif o == 'version':
        e['spec'] = sf.fix_other_version(ev['spec'])
    elif o == 'override':
        e['override'] = rng.choice([x for x in (None, True, False) if x != ev.get('override')])
        if e['override'] is None:
            del e['override']
    elif o == 'impl':
        e['impl'] = rng.choice([x for x in IMPLS if x != ev['impl']])
    elif o == 'pdu':
        e['pdu'] = rng.choice([x for x in ('Pdu1', 'Pdu2', 'Pdu3', 'Pdu4') if x != ev['pdu']])
    return e


def link_phases(evs):
    """`generate k` events get a copy of the invocation generator k was constructed from (the worker needs its directory and
    package for the import check, the oracle its fresh run)"""
    inv = {}
    out = []
    for e in evs:
        if e.get('phase') == 'construct':
            inv[e['gid']] = e
        elif e.get('phase') == 'generate' and e['gid'] in inv:
            e = dict(copy.deepcopy(inv[e['gid']]), phase='generate')
        out.append(e)
    return out


def gen_phases(rng, sf):
    """a history at the granularity of the generator API: 2..3 generators, each either run as a whole invocation or split into
    `construct` (the entry point up to its call of generate(): parse + generator object) and `generate` (0, 1 or 2 times), the
    steps of the generators interleaved in any order; all in one process"""
    n = rng.choice([2, 2, 2, 3])
    kind = rng.choice(['fix', 'fix', 'fix', 'soup', 'soup', 'asn1'])
    mixed = rng.random() < 0.2
    gens = []
    for gid in range(n):
        k = rng.choice(['soup', 'fix', 'asn1']) if mixed else kind
        d = ['out', gid + 1] if rng.random() < 0.8 else ['out', 1]
        same_kind = [x for x in gens if x['gen'] == k]
        if same_kind and rng.random() < 0.4:
            prev = rng.choice(same_kind)
            inv = retarget(rng.choice([copy.deepcopy(prev), edit_spec(rng, sf, prev), one_option_changed(rng, sf, prev)]), d)
        else:
            inv = gen_invocation(rng, sf, k, d)
        inv['spec_file'] = f'specg{gid}'
        gens.append(inv)
    seqs = []
    for gid in range(n):
        c = rng.random()
        seqs.append(['full'] if c < 0.2 else ['construct', 'generate'] if c < 0.85 else ['construct', 'generate', 'generate']
                    if c < 0.93 else ['construct'])
    if all(s == ['full'] for s in seqs):
        seqs[0] = ['construct', 'generate']
    evs = []
    pos = [0] * n
    while any(pos[g] < len(seqs[g]) for g in range(n)):
        g = rng.choice([x for x in range(n) if pos[x] < len(seqs[x])])
        op = seqs[g][pos[g]]
        pos[g] += 1
        e = copy.deepcopy(gens[g])
        if op != 'full':
            e.update(phase=op, gid=g)
        evs.append(e)
    return evs


def options_changed(rng, ev):
    """the same (parsed) spec with 0..3 of the construction-time options changed: app name, prefix, init flag, and for the
    soup-app generators the protocol entry point (parse-time options — `--fix-version`, `--override-messages` — stay)"""
    e = copy.deepcopy(ev)
    opts = ['app', 'prefix', 'init'] + (['impl'] if e['gen'] == 'soup' else [])
    for o in rng.sample(opts, rng.choice([0, 1, 1, 2, 3])):
        if o == 'app':
            e['app'] = rng.choice([a for a in APPS if a != ev['app']])
        elif o == 'prefix':
            e['prefix'] = rng.choice([x for x in ('', 'p', 'q') if x != ev['prefix']])
        elif o == 'init':
            e['init'] = not ev['init']
        else:
            e['impl'] = rng.choice([x for x in IMPLS if x != ev['impl']])
    return e


def gen_reuse(rng, sf):
    """ONE parsed spec object handed to several generators (`definitions = parse(...)` once, `Generator(definitions, …)` several
    times): a lender (`construct`: the entry point up to its call of generate() — parse + generator object), 1..2 borrowers
    (`construct k on lender`: the entry point again, its parse step handing out the lender's object; own app name / prefix /
    init flag / directory / soup-app protocol — or the very same target), sometimes one more generator of another spec; every
    generator writes 0, 1 or 2 times; the steps interleaved in any order in which a borrower is constructed after its lender —
    before or after the lender (or another borrower) wrote; all in one process"""
    kind = rng.choice(['fix', 'fix', 'fix', 'soup', 'soup'])
    lender = gen_invocation(rng, sf, kind, ['out', 1])
    if kind == 'fix' and not lender['spec']['groups'] and rng.random() < 0.7:
        # (mostly dictionaries with repeating groups: the part of a parsed dictionary with codegen state of its own)
        lender['spec'] = sf.fix(groups=[sf.tree(rng.choice(DEPTHS)) for _ in range(rng.choice([1, 1, 2]))],
                                version=rng.choice([44, 44, 50, 502]))
    gens, on = [lender], {}
    for _ in range(rng.choice([1, 1, 2])):
        d = ['out', len(gens) + 1] if rng.random() < 0.8 else ['out', 1]
        on[len(gens)] = 0
        gens.append(retarget(options_changed(rng, lender), d))
    if rng.random() < 0.45:
        k = rng.choice(['soup', 'fix', 'fix', 'asn1']) if rng.random() < 0.3 else kind
        c = rng.random()
        other = gen_invocation(rng, sf, k, ['out', len(gens) + 1])
        if k == kind and c < 0.5:
            other = retarget(edit_spec(rng, sf, lender) if c < 0.25 else copy.deepcopy(lender), ['out', len(gens) + 1])
        gens.append(other)
    seqs = []
    for gid, inv in enumerate(gens):
        inv['spec_file'] = f'specg{gid}'
        c = rng.random()
        if gid == 0 or gid in on:
            seqs.append(['construct', 'generate'] if c < 0.8 else ['construct', 'generate', 'generate'] if c < 0.92 else ['construct'])
        else:
            seqs.append(['full'] if c < 0.4 else ['construct', 'generate'])
    if all(len(seqs[g]) < 2 for g in on):
        seqs[min(on)] = ['construct', 'generate']
    evs, pos = [], [0] * len(gens)
    while any(pos[g] < len(seqs[g]) for g in range(len(gens))):
        g = rng.choice([x for x in range(len(gens)) if pos[x] < len(seqs[x]) and (x not in on or pos[x] > 0 or pos[on[x]] > 0)])
        op = seqs[g][pos[g]]
        pos[g] += 1
        e = copy.deepcopy(gens[g])
        if op != 'full':
            e.update(phase=op, gid=g)
            if op == 'construct' and g in on:
                e['on'] = on[g]
        evs.append(e)
    return evs


def other_target(rng, ev):
    e = copy.deepcopy(ev)
    c = rng.randrange(3)
    if c == 0:
        e['app'] = rng.choice([a for a in APPS if a != ev['app']])
    elif c == 1:
        e['prefix'] = 'q' if ev['prefix'] != 'q' else ''
    else:
        e['init'] = not ev['init']
    return e


NEWPROC = {'gen': 'newproc'}
PROJ_APPS = [['oe', 'ouch'], ['md', 'itch'], ['qe', 'sqf']]


def gen_history(rng):
    """one history of 1..3 invocations (plus process boundaries and, for project histories, user edits)"""
    sf = SpecFactory(rng)
    shape = rng.choice(['single', 'regen', 'regen', 'two-dirs', 'two-dirs', 'edit-rebuild', 'edit-rebuild', 'b-after-a',
                        'b-after-a', 'b-after-a', 'retarget-same-dir', 'mixed3', 'mixed3', 'project', 'project', 'project-gen',
                        'b-after-failed-a', 'b-after-failed-a', 'option-change', 'option-change', 'option-change',
                        'phases', 'phases', 'phases', 'phases', 'parsed-reuse', 'parsed-reuse', 'parsed-reuse'])
    kind = rng.choice(['soup', 'soup', 'soup', 'fix', 'fix', 'fix', 'asn1'])
    d1, d2, d3 = ['out', 1], ['out', 2], ['out', 3]
    a = gen_invocation(rng, sf, kind, d1)
    if shape == 'phases':
        return gen_phases(rng, sf), shape
    if shape == 'parsed-reuse':
        return gen_reuse(rng, sf), shape
    if shape == 'single':
        evs = [a]
    elif shape == 'option-change':
        # the same spec file again with one option changed (other --fix-version, prefix, app name, init flag, override flag, pdu,
        # other protocol entry point), into the same or another directory; possibly a third time
        b = retarget(one_option_changed(rng, sf, a), rng.choice([d1, d2]))
        evs = [a, b]
        if rng.random() < 0.4:
            evs.append(retarget(one_option_changed(rng, sf, rng.choice([a, b])), rng.choice([d1, d2, d3])))
    elif shape == 'regen':
        evs = [a, copy.deepcopy(a)] + ([copy.deepcopy(a)] if rng.random() < 0.3 else [])
    elif shape == 'two-dirs':
        evs = [a, retarget(a, d2)] + ([retarget(a, d3)] if rng.random() < 0.3 else [])
    elif shape == 'edit-rebuild':
        b = edit_spec(rng, sf, a)
        evs = [a, b] + ([rng.choice([copy.deepcopy(a), edit_spec(rng, sf, b)])] if rng.random() < 0.4 else [])
    elif shape == 'b-after-a':
        b = retarget(edit_spec(rng, sf, a) if rng.random() < 0.5 else gen_invocation(rng, sf, kind, d2), d2)
        evs = [a, b] + ([retarget(rng.choice([a, b]), d3)] if rng.random() < 0.4 else [])
    elif shape == 'b-after-failed-a':
        # (oracle only, not modelled) A fails in the middle of writing its output (the n-th output file cannot be opened); the process
        # goes on: B — another spec, or A itself again — must come out exactly as it does alone
        a['fault'] = rng.randint(1, 3)
        c = rng.random()
        if c < 0.4:
            b = retarget(gen_invocation(rng, sf, kind, d2), d2)
        elif c < 0.7:
            b = retarget(edit_spec(rng, sf, a), d2)
            b.pop('fault', None)
        else:
            b = retarget(copy.deepcopy(a), rng.choice([d1, d2]))
            b.pop('fault', None)
        evs = [a, b]
    elif shape == 'retarget-same-dir':
        b = other_target(rng, a)
        if rng.random() < 0.5:
            b = edit_spec(rng, sf, b)
        evs = [a, b] + ([copy.deepcopy(a)] if rng.random() < 0.3 else [])
    elif shape == 'mixed3':
        evs = []
        for _ in range(rng.randint(2, 3)):
            k = rng.choice(['soup', 'fix', 'asn1', 'soup', 'fix'])
            d = rng.choice([d1, d2, d3])
            if evs and rng.random() < 0.35:
                prev = rng.choice(evs)
                evs.append(rng.choice([copy.deepcopy(prev), retarget(prev, d), edit_spec(rng, sf, prev)]))
            else:
                evs.append(gen_invocation(rng, sf, k, d))
    elif shape == 'project':
        name = rng.choice(['proj-a', 'projb'])
        apps1 = rng.sample(PROJ_APPS, rng.randint(1, 2))
        c = rng.randrange(4)
        if c == 0:
            apps2 = apps1
        elif c == 1:
            apps2 = apps1 + [x for x in PROJ_APPS if x not in apps1][:1]
        elif c == 2:
            apps2 = [x for x in PROJ_APPS if x not in apps1][:1]
        else:
            apps2 = rng.sample(PROJ_APPS, rng.randint(1, 3))
        np1 = {'gen': 'newproj', 't': 1, 'name': name, 'apps': apps1}
        np2 = {'gen': 'newproj', 't': 1, 'name': name, 'apps': apps2}
        evs = [np1]
        if rng.random() < 0.35:
            which = rng.choice(['pyproject.toml', 'tox.ini', 'xml'])
            if which == 'xml':
                evs.append({'gen': 'useredit', 'dir': ['app', 1, name, apps1[0][0]], 'fname': apps1[0][0] + '.xml', 'n': rng.randint(1, 3)})
            else:
                evs.append({'gen': 'useredit', 'dir': ['proj', 1, name], 'fname': which, 'n': rng.randint(1, 3)})
        if rng.random() < 0.85:
            evs.append(np2)
        if len([e for e in evs if e['gen'] == 'newproj']) < 3 and rng.random() < 0.2:
            evs.append(copy.deepcopy(np2))
    else:   # project-gen: the documented workflow — create the project, then `tox r` runs the generator into the app directory
        name = rng.choice(['proj-a', 'projb'])
        app, proto = rng.choice(PROJ_APPS)
        np1 = {'gen': 'newproj', 't': 1, 'name': name, 'apps': [[app, proto]]}
        g = {'gen': 'soup', 'impl': proto, 'spec': sf.soup(), 'app': app, 'prefix': '', 'init': True, 'dir': ['app', 1, name, app]}
        evs = [np1, g, rng.choice([copy.deepcopy(g), edit_spec(rng, sf, g)])]
    # the spec file path: the same file edited and re-used (the documented workflow) or a file per invocation
    same_file = rng.random() < 0.6
    for i, e in enumerate(evs):
        if e['gen'] in ('soup', 'fix', 'asn1'):
            e['spec_file'] = 'spec' if same_file else f'spec{i}'
    # process boundaries
    out = []
    mode = 'one' if shape == 'b-after-failed-a' else rng.choice(['one', 'one', 'separate', 'mixed'])
    for i, e in enumerate(evs):
        if i > 0 and (mode == 'separate' or (mode == 'mixed' and rng.random() < 0.5)):
            out.append(dict(NEWPROC))
        out.append(e)
    return out, shape


def witness_histories(ctx):
    """the histories of Witness/C17.lean, printed by the model driver from the Lean definitions themselves (`witness C17`), plus
    a few neighbours; when the driver is unavailable, hand-written copies"""
    extra = [h for h in builtin_histories() if not h[1].startswith('witness')]
    if ctx.driver.available:
        try:
            t = parse_sx(ctx.driver.ask(['witness C17'])[0])
            hs = [([sx_ev(e) for e in h[1:]], h[0]) for h in t]
            for evs, _l in hs:       # the sx round trip is the identity (self-test of the printer / parser pair)
                for e in evs:
                    assert sx_ev(parse_sx(sx(ev_sx(e)))[0]) == e, e
            hs = [(link_phases(evs), l) for evs, l in hs]
            ctx.notes.append(f'{len(hs)} witness histories taken from Witness/C17.lean through the driver')
            return hs + extra + reuse_witnesses(ctx)
        except Exception as e:  # noqa
            ctx.notes.append(f'witness histories: driver answer unusable ({type(e).__name__}), using the built-in copies')
    return builtin_histories() + reuse_witnesses(ctx)


def reuse_witnesses(ctx):
    """the histories of Witness/C17Reuse.lean (one parsed spec object, several generators), printed by the model driver from the
    Lean definitions (`witness C17Reuse`); when the driver is unavailable, hand-written copies of two of them"""
    if ctx.driver.available:
        try:
            t = parse_sx(ctx.driver.ask(['witness C17Reuse'])[0])
            hs = [([sx_ev(e) for e in h[1:]], h[0]) for h in t]
            for evs, _l in hs:
                for e in evs:
                    assert sx_ev(parse_sx(sx(ev_sx(e)))[0]) == e, e
            ctx.notes.append(f'{len(hs)} witness histories taken from Witness/C17Reuse.lean through the driver')
            return [(link_phases(evs), l) for evs, l in hs]
        except Exception as e:  # noqa
            ctx.notes.append(f'reuse witness histories: driver answer unusable ({type(e).__name__}), using the built-in copies')
    d1, d2 = ['out', 1], ['out', 2]
    FA = {'id': 1, 'version': 44, 'fields': [1, 2], 'msgfields': [1], 'groups': [[1, [2], [[2, [1], []]]]], 'counts': [1, 2]}
    SA = {'id': 1, 'root': [[1, 0], [2, 1]], 'uses': [1, 2], 'msgs': [65, 66]}
    fg = {'gen': 'fix', 'spec': FA, 'app': 'g', 'prefix': '', 'init': True, 'dir': d1, 'spec_file': 'specg0', 'phase': 'construct', 'gid': 0}
    fh = dict(copy.deepcopy(fg), app='h', dir=d2, spec_file='specg1', gid=1, on=0)
    sg = {'gen': 'soup', 'impl': 'ouch', 'spec': SA, 'app': 'g', 'prefix': '', 'init': True, 'dir': d1, 'spec_file': 'specg0',
          'phase': 'construct', 'gid': 0}
    sh = dict(copy.deepcopy(sg), impl='itch', app='s', prefix='p', init=False, dir=d2, spec_file='specg1', gid=1, on=0)
    gen = lambda k: {'gen': 'generate', 'phase': 'generate', 'gid': k}      # noqa: E731
    return [(link_phases([fg, gen(0), fh, gen(1)]), 'witness-reuse-one-after-the-other'),
            (link_phases([fg, fh, gen(1), gen(0)]), 'witness-reuse-prepare-then-write'),
            (link_phases([sg, gen(0), sh, gen(1), gen(0)]), 'witness-reuse-soup')]


def builtin_histories():
    d1, d2 = ['out', 1], ['out', 2]
    A = {'id': 1, 'root': [[1, 0], [2, 1]], 'uses': [1, 2], 'msgs': [65, 66]}
    C = {'id': 2, 'root': None, 'uses': [1], 'msgs': [65]}
    sa = {'gen': 'soup', 'impl': 'ouch', 'spec': A, 'app': 'x', 'prefix': '', 'init': True, 'dir': d1, 'spec_file': 'spec'}
    sc = {'gen': 'soup', 'impl': 'ouch', 'spec': C, 'app': 'y', 'prefix': '', 'init': True, 'dir': d2, 'spec_file': 'spec'}
    FA = {'id': 1, 'version': 44, 'fields': [1, 2], 'msgfields': [1], 'groups': [[1, [2], [[2, [1], []]]]], 'counts': [1, 2]}
    FB = {'id': 2, 'version': 44, 'fields': [3], 'msgfields': [3], 'groups': [[1, [3], []]], 'counts': [1]}
    fa = {'gen': 'fix', 'spec': FA, 'app': 'g', 'prefix': '', 'init': True, 'dir': d1, 'spec_file': 'spec'}
    fb = {'gen': 'fix', 'spec': FB, 'app': 'g', 'prefix': '', 'init': True, 'dir': d2, 'spec_file': 'spec'}
    np1 = {'gen': 'newproj', 't': 1, 'name': 'proj-a', 'apps': [['oe', 'ouch']]}
    np2 = {'gen': 'newproj', 't': 1, 'name': 'proj-a', 'apps': [['oe', 'ouch'], ['md', 'itch']]}
    asn = {'gen': 'asn1', 'spec': {'files': [['a.asn1', 1]]}, 'pdu': 'Pdu1', 'package': 'd1', 'app': 'x', 'prefix': '',
           'init': True, 'dir': d1, 'spec_file': 'spec'}
    hs = [
        ([sa, copy.deepcopy(sa)], 'witness-append'),
        ([sa, dict(NEWPROC), copy.deepcopy(sa)], 'witness-append-2proc'),
        ([fa, fb], 'witness-fix-leak'),
        ([fa, retarget(fa, d2)], 'witness-fix-counter'),
        ([sa, sc], 'witness-fielddef-leak'),
        ([sc], 'witness-fielddef-alone'),
        ([np1, np2], 'witness-new-project-rerun'),
        ([asn, copy.deepcopy(asn)], 'asn1-regen'),
        ([fa, copy.deepcopy(fa)], 'fix-append'),
    ]
    return hs


# ------------------------------------------------------------------------------------------------ run
def evaluate(ctx, pool, cases, label_of):
    """runs all cases (implementation + model), applies correspondence and oracle"""
    # ---- fresh single runs of every generator invocation (real: own process, empty directory)
    fresh_evs = {}
    for case in cases:
        for ev in case:
            if ev['gen'] in ('soup', 'fix', 'asn1'):
                fresh_evs.setdefault(fresh_key(ev), fresh_event(ev))
    keys = list(fresh_evs)

    first_case = {}
    for ci, case in enumerate(cases):
        for ev in case:
            if ev['gen'] in ('soup', 'fix', 'asn1'):
                first_case.setdefault(fresh_key(ev), ci)
    fresh_real = dict(zip(keys, pool.map(lambda k: fresh_run(pool, fresh_evs[k], 0), keys)))
    # ---- "in separate processes": the same fresh single run by the interpreters of every other hash-seed class
    # (a big batch: ONE other class per invocation, chosen by its content among the classes 2…: the first process segment of every
    # history runs in class 1 and is compared with the class-0 run by the oracle below, so an invocation is generated by at least
    # three interpreters with three hash seeds; the invocations of a batch share their specs, every spec meets every class.  A replay /
    # a small batch: all classes)
    import zlib
    n_alt = len(HASH_SEEDS) - 1
    pairs = [(k, j) for k in keys
             for j in (range(1, n_alt + 1) if len(keys) <= 40 else [2 + zlib.crc32(k.encode()) % (n_alt - 1)])]
    diffs = pool.map(lambda kj: process_diffs(fresh_real[kj[0]], fresh_run(pool, fresh_evs[kj[0]], kj[1])), pairs)
    seen = set()
    # (differences between two FIXED hash seeds are reported first: their replay is deterministic)
    for (k, j), what in sorted(zip(pairs, diffs), key=lambda x: HASH_SEEDS[x[0][1]] == 'random'):
        ctx.count('fresh-run-repeated-in-another-interpreter')
        if what and k not in seen:
            seen.add(k)
            ctx.count('oracle:process-dependent')
            if len([1 for _w, r in ctx.violations if r.get('kind') == 'process-dependent']) < 3:
                ev = fresh_evs[k]
                report(ctx, f'{label_of(first_case[k])}: the same {ev["gen"]} invocation alone, into an empty directory, by two separate '
                            f'interpreters (PYTHONHASHSEED={HASH_SEEDS[0]} / {HASH_SEEDS[j]}) gives different results: ' + '; '.join(what)[:400],
                       {'kind': 'process-dependent', 'history': [dict(ev, spec_file='spec')], 'step': 0, 'label': label_of(first_case[k]),
                        'hash_seeds': [HASH_SEEDS[0], HASH_SEEDS[j]]})
    real = pool.map(lambda c: run_history(pool, c), cases)
    # ---- the model, one batch
    fresh_ans, ans = {}, [None] * len(cases)
    if ctx.driver.available:
        def pre_sx(ev):
            if ev['dir'][0] == 'app':
                return [sx(ev_sx({'gen': 'newproj', 't': ev['dir'][1], 'name': ev['dir'][2], 'apps': [[ev['dir'][3], 'ouch']]})), 'newproc']
            return []
        # histories in which a generator is constructed on an already parsed spec object (`on`) go to `gen.reuse`
        # (Model/GenReuse.lean, a superset of `gen.hist`); `memoGroups` is a semantics of that op only
        def op_of(evs):
            return 'gen.reuse' if SEM == 'memoGroups' or any(e.get('on') is not None for e in evs) else 'gen.hist'
        lines = [f'{op_of([])} {SEM} ' + ' '.join(pre_sx(fresh_evs[k]) + [sx(ev_sx(fresh_evs[k]))]) for k in keys]
        modelled = [ci for ci, c in enumerate(cases) if not any(e.get('fault') is not None for e in c)]
        lines += [f'{op_of(cases[ci])} {SEM} ' + ' '.join(sx(ev_sx(e)) for e in cases[ci]) for ci in modelled]
        # the text model of the soup-app generator (Model/GenSoupApp.lean; Props/C17Names.lean): `__all__` of the module a fresh
        # single run writes, name by name in the model's order
        soup_keys = [k for k in keys if fresh_evs[k]['gen'] == 'soup']
        lines += [f'gen.exports {fresh_evs[k]["impl"]} {sx(cps(fresh_evs[k]["app"]))} '
                  f'{sx(fresh_evs[k].get("override") is not False)} {sx(soup_model_sx(fresh_evs[k]["spec"]))}' for k in soup_keys]
        out = ctx.driver.ask(lines)
        fresh_ans = dict(zip(keys, out[:len(keys)]))
        for ci, a in zip(modelled, out[len(keys):]):
            ans[ci] = a
        for k, a in zip(soup_keys, out[len(keys) + len(modelled):]):
            compare_exports(ctx, fresh_evs[k], fresh_real[k], a, label_of(first_case[k]))
    for ci, (case, rl) in enumerate(zip(cases, real)):
        label = label_of(ci)
        rep_case = {'history': case, 'label': label}
        ctx.case(json.dumps(case, sort_keys=True), nontrivial=len([e for e in case if e['gen'] != 'newproc']) > 1, sample_every=37)
        ctx.count('shape:' + label)
        ctx.count('len:%d' % len([e for e in case if e['gen'] != 'newproc']))
        ctx.count('processes:%d' % (1 + len([e for e in case if e['gen'] == 'newproc'])))
        for e in case:
            if e['gen'] != 'newproc':
                ctx.count('gen:' + e['gen'])
                if e.get('phase'):
                    ctx.count('phase:' + e['phase'] + ('-on-parsed' if e.get('on') is not None and e['phase'] == 'construct' else ''))
        for r in rl:
            if r != 'newproc':
                ctx.count('outcome:' + norm_outcome(r['outcome']))
                if r['import'] != 'na':
                    ctx.count('import:' + norm_outcome(r['import']))
        # ---- oracle
        try:
            for what, kind, k in oracle(case, rl, fresh_real):
                if kind in ('fix-generator-state-leak', 'fielddef-leak') and not confirm_state_leak(pool, case, k, kind, fresh_real):
                    kind = 'other'       # not explained by process state: the deviation survives a fresh process
                ctx.count('oracle:' + kind)
                rep = {'kind': kind, 'history': case[:k + 1], 'step': k, 'label': label}
                report(ctx, f'{label}: invocation {k} ({case[k]["gen"]}): {what}', rep)
        except Exception as e:  # noqa
            ctx.disagree(f'oracle crashed on {label}: {type(e).__name__}: {e}', rep_case)
        # ---- correspondence
        if ans[ci] is not None:
            try:
                impl, notes = impl_structure(case, rl, fresh_real)
                mod = model_structure(case, ans[ci], fresh_ans)
                for n in notes:
                    ctx.count('note:' + n.split(' ', 1)[1][:40])
                if mod is None:
                    ctx.disagree(f'gen.hist: the driver rejected the history ({ans[ci][:60]})', rep_case)
                else:
                    diff = first_diff(impl, mod)
                    if diff:
                        ctx.disagree(f'gen.hist ({label}): {diff}', rep_case)
            except Exception as e:  # noqa
                ctx.disagree(f'correspondence crashed on {label}: {type(e).__name__}: {e}', rep_case)
    return real, fresh_real


def compare_exports(ctx, ev, fr, answer, label):
    """correspondence with the text model: the fresh single run of a soup-app invocation and `gen` of Model/GenSoupApp.lean agree on
    the outcome and on `__all__` (names and ORDER, duplicates included)"""
    if answer == 'bad-request':
        if not any('gen.exports' in n for n in ctx.notes):
            ctx.notes.append('the driver does not answer gen.exports: `__all__` is not compared with the text model')
        return
    rep = {'kind': 'exports', 'history': [dict(ev, spec_file='spec')], 'step': 0, 'label': label}
    t = parse_sx(answer)
    ctx.count('exports-compared-with-the-text-model')
    if t[0] != 'ok':
        if fr['outcome'] == 'ok' or norm_outcome(fr['outcome']) != 'err-' + t[1]:
            ctx.disagree(f'gen.exports ({label}): the generator alone gives {fr["outcome"]}, the text model err {t[1]}', rep)
        return
    if fr['outcome'] != 'ok':
        ctx.disagree(f'gen.exports ({label}): the generator alone gives {fr["outcome"]}, the text model generates', rep)
        return
    got = module_all(fr['snap'].get(soup_module_path(ev), ''))
    exp = [_txt(n) for n in t[1]]
    if len(exp) != len(set(exp)):
        ctx.count('exports-with-a-name-twice')
    if got != exp:
        ctx.disagree(f'gen.exports ({label}): __all__ of the generated module is {got}, of the text model {exp}', rep)


def first_diff(impl, mod):
    """first observable on which the implementation and the model differ (after joint renumbering of chunks)"""
    a, b = renumber(impl), renumber(mod)
    if a == b:
        return None
    for i, (x, y) in enumerate(zip(a['steps'], b['steps'])):
        if x != y:
            if x == 'newproc' or y == 'newproc':
                return f'step {i}: {x} vs {y}'
            for name, u, v in zip(('outcome', 'import', 'config', 'files'), x, y):
                if u != v:
                    if name == 'files':
                        fu, fv = dict((tuple(k), c) for k, c in u), dict((tuple(k), c) for k, c in v)
                        for k in sorted(set(fu) | set(fv)):
                            if fu.get(k) != fv.get(k):
                                return f'step {i}: file {k[0]} {k[1]}: chunks implementation {fu.get(k)} vs model {fv.get(k)}'
                    return f'step {i}: {name}: implementation {u} vs model {v}'
    for i, (x, y) in enumerate(zip(a['fresh'], b['fresh'])):
        if x != y:
            return f'fresh run of invocation {i}: implementation {str(x)[:200]} vs model {str(y)[:200]}'
    return 'structures differ in length'


def renumber(s):
    """chunk ids -> ids by first appearance in a fixed traversal order (the fresh runs first)"""
    m = {}

    def f(i):
        return m.setdefault(i, len(m))
    fresh = [[o, im, [[list(k), [f(c) for c in cs]] for k, cs in files]] for o, im, files in s['fresh']]
    steps = []
    for st in s['steps']:
        if st == 'newproc':
            steps.append(st)
        else:
            steps.append([st[0], st[1], st[2], [[list(k), [f(c) for c in cs]] for k, cs in st[3]]])
    return {'steps': steps, 'fresh': fresh}


def run(ctx):
    from common import REPO, VERIF
    rng = ctx.rng
    quick = ctx.tier == 'quick'
    n_rand = 800 if quick else 15000
    global NAMES, FIELDS, DEPTHS, APPS
    if not quick:
        NAMES, FIELDS, DEPTHS, APPS = [1, 2, 3, 4], [1, 2, 3, 4, 5], [0, 1, 1, 2, 3], ['x', 'y', 'oe', 'md']
    ctx.cov['rule'] = ('histories of 1..3 invocations of the real soup-app (itch/ouch/sqf), FIX, ASN.1 generators and new_project: '
                       'same spec repeated / edited spec / other spec, same / other output directory, same / other target '
                       '(app, prefix, init flag), one process / a process per invocation / mixed, same or distinct spec file path, '
                       'user edits between project runs, generator run into a project application directory; every option of every '
                       'entry point changes between invocations (--fix-version, --prefix, --app-name, --init-file, '
                       '--override-messages, --pdu-name, --package-name, --op-dir, the protocol entry point); histories at the '
                       'granularity of the generator API: construct(k) / generate(k) of 2..3 generators and whole invocations '
                       'interleaved in any order, generate() called 0, 1 or 2 times; ONE parsed spec object (FIX `parse`, soup-app '
                       '`Parser.parse`) handed to 2..3 generators (`construct k on j`: the entry point with its parse step handing out '
                       'the object generator j was constructed from; own app / prefix / init flag / directory / protocol; before or '
                       'after j wrote; another spec\'s generator in between), each output compared with the fresh process given that '
                       'spec and those options; specs from small families with overlapping '
                       'field names, message ids (also repeated keys), group names, FIX fields of all 29 type names of '
                       'version_types.py (documented for the version or not); soup-app specs in which a name occurs twice (message named like '
                       'another message / the enum / the record, record named like the enum, enum or record id declared twice); process '
                       'segments and fresh single runs in interpreters with PYTHONHASHSEED 0 / 1 / 2 / random, every fresh single run '
                       'repeated under another hash seed; distinct = distinct history, '
                       'non-trivial = at least two invocations')
    pool = Pool(REPO, 12)
    load_flags(ctx)
    try:
        cases, labels = [], []
        cdir = os.path.join(VERIF, 'corpus', 'C17')
        if os.path.isdir(cdir):
            for f in sorted(os.listdir(cdir)):
                c = json.load(open(os.path.join(cdir, f)))
                cases.append(c['history'])
                labels.append(c.get('label', 'corpus:' + f))
        for h, label in witness_histories(ctx):
            cases.append(h)
            labels.append(label)
        for _ in range(n_rand):
            h, shape = gen_history(rng)
            cases.append(h)
            labels.append(shape)
        B = 400
        for i in range(0, len(cases), B):
            evaluate(ctx, pool, cases[i:i + B], lambda ci, i=i: labels[i + ci])
        # unknown violations: shrink the first one (drop events while the same kind of failure persists)
        shrink_unknown(ctx, pool)
    finally:
        pool.close()


def load_flags(ctx):
    global MODEL_FLAGS
    MODEL_FLAGS = None
    if ctx.driver.available:
        try:
            MODEL_FLAGS = dict(kv.split('=') for kv in ctx.driver.ask([f'gen.flags {SEM}'])[0].split())
            ctx.notes.append(f'model semantics compared with the library ({SEM}): ' + ' '.join(f'{k}={v}' for k, v in MODEL_FLAGS.items()))
        except Exception:  # noqa
            MODEL_FLAGS = None


def shrink_unknown(ctx, pool):
    if not ctx.violations:
        return
    what, rep = ctx.violations[0]
    hist, kind = rep['history'], rep['kind']

    def fails(h):
        if not h or h[-1]['gen'] == 'newproc':
            return False
        keys = {}
        for ev in h:
            if ev['gen'] in ('soup', 'fix', 'asn1'):
                keys.setdefault(fresh_key(ev), fresh_event(ev))
        fr = {k: fresh_run(pool, ev, 0) for k, ev in keys.items()}
        rl = run_history(pool, h)
        return any(kd == kind and k == len(h) - 1 for _w, kd, k in oracle(h, rl, fr))
    try:
        changed = True
        while changed and len(hist) > 1:
            changed = False
            for i in range(len(hist) - 1):
                cand = hist[:i] + hist[i + 1:]
                if fails(cand):
                    hist, changed = cand, True
                    break
        rep2 = dict(rep)
        rep2['history'], rep2['step'] = hist, len(hist) - 1
        if len(hist) != len(rep['history']):
            what = f'{what}  [shrunk to {len([e for e in hist if e["gen"] != "newproc"])} invocations, the last one fails]'
        ctx.violations[0] = (what, rep2)
    except Exception:  # noqa
        pass


def replay(ctx, path):
    from common import REPO
    r = json.load(open(path))
    rep = r.get('replay') or (r.get('no_longer_checks') or [{}])[-1].get('case') or r
    hist = rep['history']
    ctx.cov['rule'] = 'replay of ' + path
    pool = Pool(REPO, 4)
    load_flags(ctx)
    try:
        real, fresh_real = evaluate(ctx, pool, [hist], lambda ci: rep.get('label', 'replay'))
        ctx.case('replay-marker')
        for ev, res in zip(hist, real[0]):
            if res == 'newproc':
                print('--- new process')
                continue
            what = ev['gen'] + (f' [{ev["phase"]} {ev["gid"]}' + (f' on the spec parsed for {ev["on"]}' if ev.get('on') is not None else '')
                                + ']' if ev.get('phase') else '')
            print(f'{what:8} -> {res["outcome"]}, import {res["import"]}, config {res["cfg"]}; files: '
                  + ', '.join(f'{p} ({len(t)} bytes)' for p, t in sorted(res['snap'].items())))
            if ev['gen'] in ('soup', 'fix', 'asn1'):
                fr = fresh_real[fresh_key(ev)]
                print(f'{"":8}    alone in an empty directory -> {fr["outcome"]}, import {fr["import"]}; files: '
                      + ', '.join(f'{p} ({len(t)} bytes)' for p, t in sorted(fr['snap'].items())))
        for what, kind, k in oracle(hist, real[0], fresh_real):
            print(f'oracle: invocation {k}: [{kind}] {what}')
    finally:
        pool.close()


if __name__ == '__main__':
    if sys.argv[1:2] == ['--zygote']:
        zygote_main()
