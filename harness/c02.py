"""C02 — the binary encoding is exactly the documented wire layout.

* `prebuild`: probes every entry of `TypeDefinition.Definitions` and the parser's array-count selection on the live library and
  writes `lean/NasdaqModel/Extracted/TypeTable.lean`; `Props/C02.lean` proves by `decide` that it equals the documented table.
* oracle: implementation bytes == an independent reference codec written here from the DATATYPES documentation (struct based),
  and the implementation decodes reference bytes (+ arbitrary tail) back to the value; the probed table == the documented one.
* correspondence: exact bytes / exact decode results against Model/BinCodec.lean, and implementation bytes against the Lean
  layout specification `Spec/Layout.lean` (the reference the theorems are about).
"""
import json
import os
import struct

import common
from common import err_name, VERIF, LEAN_DIR
import bincodec_common as bc
from bincodec_common import kind, sx

DRIVER = 'drv_C01'
LEAN_TARGETS = ['NasdaqModel.Extracted.TypeTable', 'NasdaqModel.Props.C02', 'drv_C01']
EXTRACTED = os.path.join(LEAN_DIR, 'NasdaqModel', 'Extracted', 'TypeTable.lean')

# ------------------------------------------------------------------ the documented table (soup_app_xml.mustache, DATATYPES)
DOCUMENTED = {
    'boolean': ('bool',),
    'byte': ('int', 1, False, False),
    'int_2': ('int', 2, True, False), 'int_2_be': ('int', 2, True, True),
    'uint_2': ('int', 2, False, False), 'uint_2_be': ('int', 2, False, True),
    'int_4': ('int', 4, True, False), 'int_4_be': ('int', 4, True, True),
    'uint_4': ('int', 4, False, False), 'uint_4_be': ('int', 4, False, True),
    'int_8': ('int', 8, True, False), 'int_8_be': ('int', 8, True, True),
    'uint_8': ('int', 8, False, False), 'uint_8_be': ('int', 8, False, True),
    'char_ascii': ('char', False), 'char_iso-8859-1': ('char', True),
    'str_ascii': ('str', False), 'str_iso-8859-1': ('str', True),
    'str_ascii_n': ('fixed', False), 'str_iso-8859-1_n': ('fixed', True),
}
DOCUMENTED_ARRAY_COUNT = {'big': 'uint_2_be', 'little': 'uint_2', 'none': 'uint_2'}


# ------------------------------------------------------------------ behavioural probing of the live library
def probe_type(obj):
    """what a registered type does, observed through to_bytes / from_bytes only"""
    import inspect
    try:
        if inspect.isclass(obj) and 'length' in inspect.signature(obj.__init__).parameters:
            inst = obj(5)
            n, b = inst.to_bytes('ab')
            if (n, b) != (5, b'ab   ') or inst.from_bytes(b'xy   ..') != (5, 'xy'):
                return ('unknown',)
            try:
                iso = inst.to_bytes('\xe9')[1] == b'\xe9    ' and inst.from_bytes(b'\xe9    ')[1] == '\xe9'
            except UnicodeError:
                iso = False
            return ('fixed', iso)
        tc = getattr(obj, 'type_cls', None)
        if tc is bool:
            ok = obj.to_bytes(True) == (1, b'\x01') and obj.to_bytes(False) == (1, b'\x00') and \
                obj.from_bytes(b'\x01\x00') == (1, True) and obj.from_bytes(b'\x00\x01') == (1, False)
            return ('bool',) if ok else ('unknown',)
        if tc is int:
            size, b1 = obj.to_bytes(1)
            if len(b1) != size or size < 1:
                return ('unknown',)
            be = size > 1 and b1[-1] == 1 and b1[0] == 0
            le = b1[0] == 1 and all(x == 0 for x in b1[1:])
            if not (be or le):
                return ('unknown',)
            try:
                signed = obj.to_bytes(-1) == (size, b'\xff' * size)
            except OverflowError:
                signed = False
            # the unpacker must read the same convention
            probe = bytes(range(1, size + 1))
            want = int.from_bytes(probe, 'big' if be else 'little', signed=signed)
            top = b'\xff' * size
            if obj.from_bytes(probe + b'\xaa') != (size, want) or obj.from_bytes(top)[1] != (-1 if signed else (1 << (8 * size)) - 1):
                return ('unknown',)
            return ('int', size, signed, be)
        if tc is str:
            n, b = obj.to_bytes('ab')
            if (n, b) == (1, b'a'):
                k = 'char'
                dec_ok = obj.from_bytes(b'ab') == (1, 'a')
            elif (n, b) == (4, b'\x02\x00ab'):
                k = 'str'
                dec_ok = obj.from_bytes(b'\x02\x00abc') == (4, 'ab') and obj.to_bytes('x' * 258)[1][:2] == b'\x02\x01'
            else:
                return ('unknown',)
            try:
                eb = obj.to_bytes('\xe9')[1]
                iso = eb[-1:] == b'\xe9' and obj.from_bytes(eb)[1] == '\xe9'
            except UnicodeError:
                iso = False
            return (k, iso) if dec_ok else ('unknown',)
    except Exception:  # noqa
        return ('unknown',)
    return ('unknown',)


def probe_table():
    from nasdaq_protocols.common.types import TypeDefinition
    return {tid: probe_type(obj) for tid, obj in sorted(TypeDefinition.Definitions.items())}


ARRAY_FORMS = ('direct', 'inline-record', 'inline-message', 'def', 'def-renamed', 'def-in-message', 'double-inner', 'double-outer',
               'double-def-inner', 'double-def-outer')


def _count_types(type_text):
    """the count-type class names of `Array(Array(Byte, C2), C1)`-style text, outermost first"""
    import re
    out = []
    t = type_text
    while True:
        m = re.fullmatch(r'Array\((.*), (\w+)\)', t)
        if not m:
            break
        out.append(m.group(2))
        t = m.group(1)
    return out, t


def probe_array_count_forms():
    """the count type the spec parser puts into `Array(type, <count type>)`, for each value of the `endian` attribute and each way an
    array field can be declared: a FieldDef built directly, and fields read by the real `Parser` from XML — inline in a record / in
    a message, through a `def=` reference to `<fielddef-root>` (with and without rename, in a record / in a message), and both
    levels of `array="double"` (inline and through `def=`).  Returns {(endian, form): type id | 'unknown:…'}"""
    import tempfile
    from nasdaq_protocols.common.types import TypeDefinition
    from nasdaq_protocols.common.message import parser
    by_name = {}
    for tid, obj in TypeDefinition.Definitions.items():
        by_name.setdefault(getattr(obj, '__name__', str(obj)), tid)
    out = {}

    def tid_of(cname):
        return by_name.get(cname, 'unknown:' + cname)
    for attr in ('big', 'little', 'none'):
        en = '' if attr == 'none' else f' endian="{attr}"'
        try:
            f = parser.FieldDef('x', type='byte', array='true', endian=None if attr == 'none' else attr)
            cts, base = _count_types(f.get_codegen_context(parser.Definitions())['type'])
            out[(attr, 'direct')] = tid_of(cts[0]) if len(cts) == 1 and base == 'Byte' else 'unknown:shape'
        except Exception as e:  # noqa
            out[(attr, 'direct')] = 'unknown:' + err_name(e)
        xml = f"""<root>
  <fielddef-root>
    <field name="arr_def" type="byte" array="single"{en}/>
    <field name="dbl_def" type="byte" array="double"{en}/>
  </fielddef-root>
  <records-root>
    <record id="rec"><fields>
      <field name="inline_rec" type="byte" array="single"{en}/>
      <field def="arr_def"/>
      <field name="renamed" def="arr_def"/>
      <field name="dbl_inline" type="byte" array="double"{en}/>
      <field name="dbl_ref" def="dbl_def"/>
    </fields></record>
  </records-root>
  <messages-root>
    <message id="msg" message-id="1" message-group="g" direction="incoming"><fields>
      <field name="inline_msg" type="byte" array="single"{en}/>
      <field name="in_msg" def="arr_def"/>
    </fields></message>
  </messages-root>
</root>"""
        try:
            with tempfile.NamedTemporaryFile('w', suffix='.xml', delete=False) as fh:
                fh.write(xml)
            defs = parser.Parser.parse(fh.name)
            os.unlink(fh.name)
            cc = defs.get_codegen_context()
            fields = {f['name']: f['type'] for f in cc['records'][0]['fields']}
            fields.update({f['name']: f['type'] for f in cc['messages'][0]['fields']})
            single = {'inline-record': 'inline_rec', 'def': 'arr_def', 'def-renamed': 'renamed', 'inline-message': 'inline_msg',
                      'def-in-message': 'in_msg'}
            for form, name in single.items():
                cts, base = _count_types(fields.get(name, ''))
                out[(attr, form)] = tid_of(cts[0]) if len(cts) == 1 and base == 'Byte' else 'unknown:shape ' + fields.get(name, 'missing')
            for pre, name in (('double', 'dbl_inline'), ('double-def', 'dbl_ref')):
                cts, base = _count_types(fields.get(name, ''))
                ok = len(cts) == 2 and base == 'Byte'
                out[(attr, pre + '-outer')] = tid_of(cts[0]) if ok else 'unknown:shape ' + fields.get(name, 'missing')
                out[(attr, pre + '-inner')] = tid_of(cts[1]) if ok else 'unknown:shape ' + fields.get(name, 'missing')
        except Exception as e:  # noqa
            for form in ARRAY_FORMS[1:]:
                out[(attr, form)] = 'unknown:' + err_name(e)
    return out


def probe_array_count():
    """rows (endian attribute, count type id), one per declaration form (see `probe_array_count_forms`); `Props/C02.lean` proves
    every row equals the documented count type of its endian attribute"""
    forms = probe_array_count_forms()
    return [(attr, forms[(attr, form)]) for attr in ('big', 'little', 'none') for form in ARRAY_FORMS]


# ------------------------------------------------------------------ the ELEMENT type an array field is generated with
ELEM_FORMS = ('direct', 'inline-record', 'inline-message', 'def', 'def-renamed', 'def-in-message', 'double-inline', 'double-def')
FIXED_LEN = 5
ENUM_BASES = ('int_4', 'uint_2', 'int_8_be', 'char_ascii')


def elem_decls():
    """(label, `type=` attribute, documented DATATYPE id of the elements): every documented id, enums over some of them"""
    out = [(tid, tid, tid) for tid in sorted(DOCUMENTED)]
    out += [('enum:' + b, 'enum:e_' + b.replace('-', '_'), b) for b in ENUM_BASES]
    return out


def elem_ty_tree(tid):
    """schema tree (bincodec_common) of a documented DATATYPE id used as an array element"""
    d = DOCUMENTED[tid]
    if d[0] == 'int':
        return ['int', d[1], d[2], d[3]]
    if d[0] == 'bool':
        return 'bool'
    if d[0] == 'fixed':
        return ['fixed', d[1], FIXED_LEN, False]
    return [d[0], d[1]]


def _spec_namespace():
    """the names generated code sees: `from nasdaq_protocols.common.message import *` (record.mustache / message_soup_app.mustache)"""
    ns = {}
    exec('from nasdaq_protocols.common.message import *', ns)   # noqa: S102 — exactly the import line of the generated modules
    return ns


def probe_elem(obj):
    """behavioural description of the element type object of a generated array type"""
    import inspect
    if not inspect.isclass(obj) and type(obj).__name__.startswith('Fixed'):
        d = probe_type(type(obj))
        try:
            ok = obj.to_bytes('ab') == (FIXED_LEN, b'ab' + b' ' * (FIXED_LEN - 2))
        except Exception:  # noqa
            ok = False
        return d if ok else ('unknown',)
    return probe_type(obj)


def probe_array_elem_forms():
    """for each value of the `endian` attribute x each way an array field can be declared x each declared element DATATYPE:
    the array type the real `Parser` / `FieldDef` generate — {(endian, form, label): {'text', 'counts', 'elem_text', 'elem',
    'obj' (the evaluated type object, None if it could not be evaluated), 'xml' (the declaration)}}.  The `endian` attribute is
    documented to select the byte order of the 2-byte COUNT; the elements are of the declared DATATYPE."""
    import tempfile
    from nasdaq_protocols.common.message import parser
    ns = _spec_namespace()
    decls = elem_decls()
    out = {}

    def attrs_of(type_attr, tid, array, en):
        ln = f' length="{FIXED_LEN}"' if DOCUMENTED[tid][0] == 'fixed' else ''
        return f'type="{type_attr}"{ln} array="{array}"{en}'

    def record(attr, form, label, text, xml, levels):
        row = {'text': text, 'xml': xml, 'counts': [], 'elem_text': '', 'elem': ('unknown',), 'obj': None}
        try:
            cts, base = _count_types(text)
            row['counts'], row['elem_text'] = cts, base
            if len(cts) == levels:
                obj = eval(text, dict(ns))     # noqa: S307 — the type expression exactly as the generated module evaluates it
                row['obj'] = obj
                inner = obj
                for _ in range(levels):
                    inner = inner.type
                row['elem'] = probe_elem(inner)
        except Exception as e:  # noqa
            row['elem'] = ('unknown',)
            row['error'] = err_name(e)
        out[(attr, form, label)] = row

    for attr in ('big', 'little', 'none'):
        en = '' if attr == 'none' else f' endian="{attr}"'
        enums = '\n'.join(f'    <enum id="e_{b.replace("-", "_")}" type="{b}"><value name="m" description="d">'
                          f'{"A" if DOCUMENTED[b][0] == "char" else "1"}</value></enum>' for b in ENUM_BASES)
        fdefs, rfields, mfields = [], [], []
        for i, (label, ta, tid) in enumerate(decls):
            fdefs.append(f'    <field name="d{i}" {attrs_of(ta, tid, "single", en)}/>')
            fdefs.append(f'    <field name="dd{i}" {attrs_of(ta, tid, "double", en)}/>')
            rfields += [f'      <field name="ir{i}" {attrs_of(ta, tid, "single", en)}/>', f'      <field def="d{i}"/>',
                        f'      <field name="rn{i}" def="d{i}"/>', f'      <field name="di{i}" {attrs_of(ta, tid, "double", en)}/>',
                        f'      <field name="dr{i}" def="dd{i}"/>']
            mfields += [f'      <field name="im{i}" {attrs_of(ta, tid, "single", en)}/>', f'      <field name="dm{i}" def="d{i}"/>']
        nl = '\n'
        xml = f"""<root>
  <enums-root>
{enums}
  </enums-root>
  <fielddef-root>
{nl.join(fdefs)}
  </fielddef-root>
  <records-root>
    <record id="rec"><fields>
{nl.join(rfields)}
    </fields></record>
  </records-root>
  <messages-root>
    <message id="msg" message-id="1" message-group="g" direction="incoming"><fields>
{nl.join(mfields)}
    </fields></message>
  </messages-root>
</root>"""
        fields, defs, err = {}, None, None
        try:
            with tempfile.NamedTemporaryFile('w', suffix='.xml', delete=False) as fh:
                fh.write(xml)
            defs = parser.Parser.parse(fh.name)
            os.unlink(fh.name)
            cc = defs.get_codegen_context()
            fields = {f['name']: f['type'] for f in cc['records'][0]['fields']}
            fields.update({f['name']: f['type'] for f in cc['messages'][0]['fields']})
        except Exception as e:  # noqa
            err = err_name(e)
        names = {'inline-record': 'ir', 'def': 'd', 'def-renamed': 'rn', 'inline-message': 'im', 'def-in-message': 'dm',
                 'double-inline': 'di', 'double-def': 'dr'}
        for i, (label, ta, tid) in enumerate(decls):
            for form in ELEM_FORMS:
                levels = 2 if form.startswith('double') else 1
                decl = f'<field {attrs_of(ta, tid, "double" if levels == 2 else "single", en)}/> declared {form}'
                if form == 'direct':
                    try:
                        f = parser.FieldDef('x', type=ta, array='true', endian=None if attr == 'none' else attr,
                                            length=FIXED_LEN if DOCUMENTED[tid][0] == 'fixed' else None)
                        text = f.get_codegen_context(defs if defs is not None else parser.Definitions())['type']
                    except Exception as e:  # noqa
                        text = 'error:' + err_name(e)
                else:
                    text = fields.get(names[form] + str(i), 'error:' + (err or 'missing'))
                record(attr, form, label, text, decl, levels)
    return out


def probe_array_elem():
    """rows (endian attribute, declaration form, documented DATATYPE id of the declared elements, behaviour of the generated element
    type) for `Extracted.arrayElemTable`; `Props/C02Decl.lean` proves every row is the documented binding of the declared id"""
    forms = probe_array_elem_forms()
    rows = []
    for attr in ('big', 'little', 'none'):
        for form in ELEM_FORMS:
            for label, _ta, tid in elem_decls():
                rows.append((attr, form + ('/enum' if label.startswith('enum:') else ''), tid, forms[(attr, form, label)]['elem']))
    return rows


def lean_desc(d):
    b = lambda x: 'true' if x else 'false'
    if d[0] == 'int':
        return f'.int {d[1]} {b(d[2])} {b(d[3])}'
    if d[0] in ('char', 'str', 'fixed'):
        return f'.{d[0]} {b(d[1])}'
    return '.' + d[0]


def render_extracted(table, arrcount, arrelem):
    rows = ',\n'.join(f'  ("{tid}", {lean_desc(d)})' for tid, d in sorted(table.items()))
    arows = ',\n'.join(f'  ("{a}", "{t}")' for a, t in arrcount)
    erows = ',\n'.join(f'  ("{a}", "{f}", "{tid}", {lean_desc(d)})' for a, f, tid, d in arrelem)
    return f'''import NasdaqModel.Spec.Layout
/-
GENERATED by harness/c02.py (`prebuild`) on every run of `./check C02` from the live library: behavioural probing of every entry of
`TypeDefinition.Definitions` and of `FieldDef._field_context` / `Parser` (array count type, array element type).  Do not edit.
-/
namespace NasdaqModel.Extracted
open NasdaqModel.Spec.Layout

def typeTable : List (String × TyDesc) := [
{rows}
]

def arrayCountTable : List (String × String) := [
{arows}
]

/-- (endian attribute, declaration form, declared element DATATYPE id, probed behaviour of the element type of the generated array) -/
def arrayElemTable : List (String × String × String × TyDesc) := [
{erows}
]

end NasdaqModel.Extracted
'''


def prebuild(ctx=None):
    """regenerate Extracted/TypeTable.lean from the library under test (before the Lean build)"""
    common.use_repo()
    bc.reset_lib()
    text = render_extracted(probe_table(), probe_array_count(), probe_array_elem())
    old = open(EXTRACTED).read() if os.path.exists(EXTRACTED) else None
    if old != text:
        tmp = EXTRACTED + '.tmp'
        open(tmp, 'w').write(text)
        os.replace(tmp, EXTRACTED)
    return text


try:        # run.py builds right after importing this module; until it calls `prebuild` itself, do it here
    _PREBUILT = prebuild()
except Exception as _e:  # noqa
    _PREBUILT = None
    _PREBUILD_ERROR = repr(_e)


# ------------------------------------------------------------------ independent reference codec (from the documentation)
_FMT = {(1, False): 'B', (1, True): 'b', (2, False): 'H', (2, True): 'h', (4, False): 'I', (4, True): 'i', (8, False): 'Q', (8, True): 'q'}


def ref_int(size, signed, be, v):
    return struct.pack(('>' if be else '<') + _FMT[(size, signed)], v)


def ref_layout(ty, v, as_elem=False):
    """documented bytes of an in-domain value (val tree with the real store; defaults per the field declaration)"""
    k = kind(ty)
    if k == 'int':
        return ref_int(ty[1], ty[2], ty[3], int(v[1]))
    if k == 'bool':
        return b'\x01' if v[1] else b'\x00'
    if k == 'char':
        return bytes(v[1:])
    if k == 'str':
        return struct.pack('<H', len(v) - 1) + bytes(v[1:])
    if k == 'fixed':
        pad = b' ' * (ty[2] - (len(v) - 1))
        return pad + bytes(v[1:]) if ty[3] else bytes(v[1:]) + pad
    if k in ('record', 'optrec'):
        if k == 'optrec' and not as_elem:
            if v == 'none' or v == ['r']:
                return b'\x00'
            return b'\x01' + ref_layout(['record'] + ty[1:], v)
        st = {n: x for n, x in v[1:]}
        return b''.join(ref_layout(fty, bc.effective(st, n, fty, d)) for n, fty, d in ty[1:])
    if k == 'arr':
        return ref_int(ty[2], ty[3], ty[4], len(v) - 1) + b''.join(ref_layout(ty[1], x, as_elem=True) for x in v[1:])
    raise ValueError(ty)


# ------------------------------------------------------------------ checks
def oracle_layout(B, ty, pobj, actual, tail):
    """None or a description: implementation bytes vs the reference layout; implementation decode of reference bytes"""
    T = B.build(ty)
    ref = ref_layout(ty, actual)
    r = bc.impl_encode(T, pobj)
    if r[0] == 'err':
        return f'encoding an in-domain value raised {r[1]}'
    if r[2] != ref:
        i = next((j for j in range(min(len(ref), len(r[2]))) if ref[j] != r[2][j]), min(len(ref), len(r[2])))
        return f'bytes differ from the documented layout at offset {i}: got {r[2][max(0, i - 4):i + 8].hex()} expected {ref[max(0, i - 4):i + 8].hex()}'
    if r[1] != len(ref):
        return f'reported length {r[1]} for a layout of {len(ref)} bytes'
    d = bc.impl_decode(T, ref + tail)
    if d[0] == 'err':
        return f'decoding the documented layout raised {d[1]}'
    if d[1] != len(ref):
        return f'decoding the documented layout consumed {d[1]} of {len(ref)} bytes'
    diff = bc.reads_differ(ty, pobj, d[2])
    if diff:
        return f'the documented layout decodes to a different value: {diff}'
    return None


def fails_layout(B, tail):
    def f(ty, v):
        full = bc.complete(ty, v)
        if not bc.in_domain(ty, full) or not bc.constructible(ty):
            return False
        pobj = B.from_val(ty, v, typed=True)
        return oracle_layout(B, ty, pobj, bc.to_val(ty, pobj) if kind(ty) in ('record', 'optrec', 'arr') else v, tail) is not None
    return f


def check_table(ctx):
    table = probe_table()
    ctx.case('type table ' + json.dumps(table, sort_keys=True)[:200], nontrivial=True)
    for tid in sorted(set(table) | set(DOCUMENTED)):
        got, want = table.get(tid), DOCUMENTED.get(tid)
        ctx.count('table-row')
        if got != want:
            ctx.violation(f'type id {tid}: the library binds it to {got}, the documentation says {want}',
                          {'kind': 'type-table', 'id': tid, 'probed': list(got) if got else None, 'documented': list(want) if want else None})
    forms = probe_array_count_forms()
    arr = {a: forms[(a, 'direct')] for a in DOCUMENTED_ARRAY_COUNT}
    for (a, form), got in sorted(forms.items()):
        ctx.count('array-count-row')
        ctx.case(f'array count {a} {form}', nontrivial=True)
        if got != DOCUMENTED_ARRAY_COUNT[a]:
            ctx.violation(f'array field with endian={a} declared {form}: count type {got}, documented {DOCUMENTED_ARRAY_COUNT[a]}',
                          {'kind': 'array-count', 'endian': a, 'form': form, 'probed': got})
    if ctx.driver.available:
        ans = ctx.driver.ask([f'bin.arrcount {a}' for a in sorted(arr)])
        for a, m in zip(sorted(arr), ans):
            if m != arr[a]:
                ctx.disagree(f'array count type for endian={a}: model {m} vs parser {arr[a]}', {'kind': 'array-count', 'endian': a})
    check_array_elems(ctx)
    if _PREBUILT is None:
        ctx.notes.append('prebuild failed: ' + globals().get('_PREBUILD_ERROR', '?'))


def elem_values(rng, tid):
    """element values whose bytes are not a palindrome (byte order shows), boundary values, and random ones"""
    ty = elem_ty_tree(tid)
    k = kind(ty)
    if k == 'int':
        size, signed = ty[1], ty[2]
        lo, hi = bc.int_range(size, signed)
        vals = [int.from_bytes(bytes(range(1, size + 1)), 'big'), 1, hi, lo, hi - 1, 256 % (hi + 1)] + ([-2, -256 if size > 1 else -3] if signed else [])
        vals += [bc.gen_int(rng, size, signed) for _ in range(2)]
        return ty, [['i', x] for x in vals]
    if k == 'bool':
        return ty, [['b', True], ['b', False], ['b', True]]
    if k == 'char':
        return ty, [['s', 65], ['s', 0xe9 if ty[1] else 0x7e], ['s', 32]]
    if k == 'str':
        return ty, [['s', 97, 98], ['s'], ['s'] + [0xe9 if ty[1] else 0x7e] * 3, ['s'] + [65 + i % 26 for i in range(258)]]
    return ty, [['s', 97, 98], ['s'], ['s'] + [120] * FIXED_LEN, ['s', 0xe9 if ty[1] else 0x7e]]


def array_elem_case(B, row, attr, form, tid, vals, tail=b'\x07'):
    """None, or what is wrong with the bytes of one generated array type on one list of element values (implementation alone,
    against the reference layout written from the documentation): returns (description, got, expected)"""
    be = attr == 'big'
    ety = elem_ty_tree(tid)
    ty = ['arr', ety, 2, False, be]
    v = ['l'] + vals
    if form.startswith('double'):
        ty = ['arr', ty, 2, False, be]
        v = ['l', v, ['l'], ['l'] + vals[:1]]
    obj = row['obj']
    if obj is None:
        return (f'the generated type `{row["text"]}` is not an array type the generated module can build ({row.get("error", "shape")})', '', ''), ty, v
    ref = ref_layout(ty, v)
    r = bc.impl_encode(obj, B.from_val(ty, v, typed=False))
    if r[0] == 'err':
        return (f'encoding raised {r[1]}', '', ref.hex()), ty, v
    if r[2] != ref or r[1] != len(ref):
        i = next((j for j in range(min(len(ref), len(r[2]))) if ref[j] != r[2][j]), min(len(ref), len(r[2])))
        return (f'bytes differ from the documented layout at offset {i}: got {r[2][max(0, i - 4):i + 8].hex()} expected {ref[max(0, i - 4):i + 8].hex()}',
                r[2].hex(), ref.hex()), ty, v
    d = bc.impl_decode(obj, ref + tail)
    if d[0] == 'err':
        return (f'decoding the documented layout raised {d[1]}', '', ref.hex()), ty, v
    try:
        back = bc.to_val(ty, d[2])
    except Exception as e:  # noqa
        back = 'unprintable:' + err_name(e)
    if d[1] != len(ref) or back != v:
        return (f'the documented layout decodes to ({d[1]} bytes) {bc.short(sx(back), 80)}', '', ref.hex()), ty, v
    return None, ty, v


def check_array_elems(ctx, only=None):
    """array fields as the real parser generates them: the ELEMENT type must be the declared DATATYPE whatever the `endian`
    attribute says (it selects the count's byte order), every level counts in the documented count type, and real bytes of
    non-palindromic element values are the documented layout (reference codec and Lean `Spec.Layout.layout`) in both directions"""
    from nasdaq_protocols.common.types import TypeDefinition
    B = bc.Builder()
    forms = probe_array_elem_forms()
    by_name = {}
    for tid_, obj in TypeDefinition.Definitions.items():
        by_name.setdefault(getattr(obj, '__name__', str(obj)), tid_)
    lines, expect = [], []
    for (attr, form, label), row in sorted(forms.items()):
        if only is not None and (attr, form, label) != only:
            continue
        tid = label.split(':', 1)[1] if label.startswith('enum:') else label
        rep = {'kind': 'array-elem', 'endian': attr, 'form': form, 'declared': label, 'declaration': row['xml'], 'generated': row['text']}
        ctx.case(f'array elem {attr} {form} {label}', nontrivial=True, sample_every=131)
        ctx.count('array-elem-row')
        if row['elem'] != DOCUMENTED[tid]:
            ctx.count('array-elem-row:type-differs')
        want_count = DOCUMENTED_ARRAY_COUNT[attr]
        if [by_name.get(c, 'unknown:' + c) for c in row['counts']] != [want_count] * (2 if form.startswith('double') else 1):
            ctx.violation(f'{row["xml"]}: generated `{row["text"]}`, every level must count in {want_count}', dict(rep, probed=row['counts']))
        ety, vals = elem_values(ctx.rng, tid)
        bad, ty, v = array_elem_case(B, row, attr, form, tid, vals)
        if bad:
            for x in vals:           # smallest list that still shows it
                b1, ty1, v1 = array_elem_case(B, row, attr, form, tid, [x])
                if b1:
                    bad, ty, v = b1, ty1, v1
                    break
            ctx.violation(f'{row["xml"]} generates `{row["text"]}`; values {bc.short(sx(v), 60)}: {bad[0]}',
                          dict(rep, ty=sx(ty), val=sx(v), got=bad[1], expected=bad[2], probed_elem=list(row['elem']), documented_elem=list(DOCUMENTED[tid])))
        elif row['elem'] != DOCUMENTED[tid]:
            ctx.violation(f'{row["xml"]} generates `{row["text"]}`: the element type behaves as {row["elem"]}, the declared DATATYPE {tid} is '
                          f'documented as {DOCUMENTED[tid]}', dict(rep, probed_elem=list(row['elem']), documented_elem=list(DOCUMENTED[tid])))
        if row['obj'] is not None:
            r = bc.impl_encode(row['obj'], B.from_val(ty, v, typed=False))
            if r[0] == 'ok':
                lines.append(f'bin.layout {sx(ty)} {sx(v)}')
                expect.append((sx(r[2]), dict(rep, ty=sx(ty), val=sx(v))))
    if ctx.driver.available and lines:
        for a, (g, rep) in zip(ctx.driver.ask(lines), expect):
            if a != g:
                ctx.violation(f'{rep["declaration"]}: implementation bytes differ from Spec.Layout.layout: {bc.short(g, 60)} vs {bc.short(a, 60)}', rep)


def gen_cases(ctx):
    import c01
    rng = ctx.rng
    quick = ctx.tier == 'quick'
    cases = []
    cdir = os.path.join(VERIF, 'corpus', 'C02')
    if os.path.isdir(cdir):
        for f in sorted(os.listdir(cdir)):
            c = json.load(open(os.path.join(cdir, f)))
            if c.get('kind') == 'layout':
                cases.append(('corpus', bc.parse_ty(c['ty']), bc.parse_val(c['val']), bytes.fromhex(c.get('tail', ''))))
    for ty, v in c01.int_boundary_cases(ctx.tier):
        cases.append(('boundary', ty, v, b'\x00' if v[1] % 2 else b'\xff\xff'))
    for ty, v in c01.text_boundary_cases(ctx.tier):
        cases.append(('boundary', ty, v, b'\x00'))
    for ty, v in c01.structural_boundary_cases():
        cases.append(('boundary', ty, v, b'\x01'))
    # every integer type as an array count, every integer type inside arrays (byte order of both)
    for cnt in bc.INT_COMBOS:
        for el in bc.INT_COMBOS:
            lo, hi = bc.int_range(el[0], el[1])
            n = 3 if cnt[0] > 1 else 2
            cases.append(('boundary', ['arr', ['int'] + list(el)] + list(cnt), ['l'] + [['i', x] for x in (lo, hi, 1, 258 % (hi + 1))[:n + 1]], b''))
    for n in (255, 256, 257):
        cases.append(('boundary', ['arr', 'bool', 2, False, True], ['l'] + [['b', i % 2 == 0] for i in range(n)], b''))
        cases.append(('boundary', ['arr', 'bool', 2, False, False], ['l'] + [['b', i % 2 == 0] for i in range(n)], b''))
    for _ in range(2500 if quick else 60000):
        depth = rng.choice([0, 1, 2, 2, 3, 3, 4])
        ty = bc.gen_record_ty(rng, rng.choice(['record', 'record', 'optrec']), depth, rng.randint(1, 6)) if depth else bc.gen_ty(rng, 0, 1)
        cases.append(('random', ty, bc.gen_val(rng, ty), c01.gen_tail(rng)))
    return cases


def small_counts(ty):
    """schemas whose decoder cannot be sent into a long loop by arbitrary bytes: array counts of at most one byte"""
    k = kind(ty)
    if k in ('record', 'optrec'):
        return all(small_counts(t) for _, t, _ in ty[1:])
    if k == 'arr':
        return ty[2] == 1 and small_counts(ty[1])
    return True


def mutate(rng, data):
    c = rng.randrange(5)
    b = bytearray(data)
    if c == 0 and b:
        return bytes(b[:rng.randrange(len(b))])
    if c == 1 and b:
        i = rng.randrange(len(b))
        b[i] = rng.choice([0, 1, 0x7f, 0x80, 0xff, 0x20, rng.randrange(256)])
        return bytes(b)
    if c == 2:
        return bytes(b) + rng.randbytes(rng.randint(1, 6))
    if c == 3:
        return rng.randbytes(rng.randint(0, 24))
    return bytes(b[rng.randrange(len(b) + 1):])


def dec_line(ty, d):
    if d[0] == 'err':
        return 'err ' + d[1]
    try:
        return f'ok {d[1]} {sx(bc.to_val(ty, d[2]))}'
    except Exception as e:  # noqa
        return f'ok {d[1]} unprintable:{err_name(e)}'


def run(ctx):
    bc.reset_lib()
    bc.lib()
    rng = ctx.rng
    quick = ctx.tier == 'quick'
    B = bc.Builder()
    ctx.cov['rule'] = ('the C01 schema/value generator (all types, nesting, boundary tables, every count type), each in-domain case compared '
                       'byte for byte: implementation vs an independent struct-based reference vs the Lean layout spec; reference bytes + '
                       'tail decoded by the implementation; raw decoder inputs (truncated / corrupted / random bytes) against the model; '
                       'the 20 probed type ids and the array count selection against the documented tables; array fields as the real parser generates them '
                       '(endian attribute x 8 declaration forms x every DATATYPE id and enums as the element type): element type, count types and real '
                       'bytes of non-palindromic element values against the documented layout; distinct = distinct (schema, value, tail)')
    check_table(ctx)

    lines, expect, metas = [], [], []
    raw = []
    for src, ty, v, tail in gen_cases(ctx):
        if len(ctx.violations) >= 20:
            ctx.notes.append('stopped early: 20 failing inputs recorded')
            break
        full = bc.complete(ty, v)
        if not (bc.in_domain(ty, full) and bc.constructible(ty)):
            ctx.count(f'{src}:skipped-off-domain')
            continue
        ctx.count(f'{src}:in-domain')
        ctx.count('top:' + kind(ty))
        try:
            pobj = B.from_val(ty, v, typed=True)
            actual = bc.to_val(ty, pobj) if kind(ty) in ('record', 'optrec', 'arr') else v
        except Exception as e:  # noqa
            ctx.violation(f'an in-domain value is refused by the typed attributes: {err_name(e)}', {'kind': 'layout', 'ty': sx(ty), 'val': sx(v)})
            continue
        ctx.case(bc.short(f'{sx(ty)} {sx(actual)} {tail.hex()}'), nontrivial=True, sample_every=499)
        try:
            bad = oracle_layout(B, ty, pobj, actual, tail)
        except Exception as e:  # noqa
            bad = f'reference comparison raised {err_name(e)}: {e!s:.60}'
        if bad:
            sty, sv = bc.shrink(ty, bc.complete(ty, v), fails_layout(B, tail)) if len(ctx.violations) < 3 else (ty, v)
            try:
                spobj = B.from_val(sty, sv, typed=True)
                sact = bc.to_val(sty, spobj) if kind(sty) in ('record', 'optrec', 'arr') else sv
                bad = oracle_layout(B, sty, spobj, sact, tail) or bad
            except Exception:  # noqa
                sty, sv = ty, v
            ctx.violation(bad, {'kind': 'layout', 'ty': sx(sty), 'val': sx(sv), 'tail': tail.hex()})
        T = B.build(ty)
        r = bc.impl_encode(T, pobj)
        if r[0] != 'ok':
            continue
        ref = ref_layout(ty, actual)
        rep = {'kind': 'layout', 'ty': sx(ty), 'val': sx(v), 'tail': tail.hex()}
        # model, exact: encoder result; decoder on the reference bytes + tail; the Lean layout spec
        lines.append(f'bin.enc {sx(ty)} {sx(actual)}')
        expect.append(('enc', f'ok {r[1]} {sx(r[2])}' if r[0] == 'ok' else f'err {r[1]}', rep))
        lines.append(f'bin.dec {sx(ty)} {sx(ref + tail)}')
        expect.append(('dec', dec_line(ty, bc.impl_decode(T, ref + tail)), rep))
        lines.append(f'bin.layout {sx(ty)} {sx(actual)}')
        expect.append(('layout', sx(r[2]) if r[0] == 'ok' else 'err', rep))
        expect.append(('layout-ref', sx(ref), rep))
        lines.append(lines[-1])
        if len(ref) <= 300:
            raw.append((ty, ref))
    # ---- raw decoder inputs
    n_raw = (3000 if quick else 50000) if len(ctx.violations) < 20 and raw else 0
    for _ in range(n_raw):
        ty, ref = rng.choice(raw)
        data = mutate(rng, ref)
        if not small_counts(ty) and data != ref[:len(data)]:
            continue                      # arbitrary bytes could announce 2^16..2^64 array elements: truncations only
        d = bc.impl_decode(B.build(ty), data)
        ctx.case('raw ' + data[:40].hex() + ' ' + bc.short(sx(ty), 80), nontrivial=True, sample_every=997)
        ctx.count('raw:' + (d[0] if d[0] == 'ok' else 'err:' + d[1]))
        lines.append(f'bin.dec {sx(ty)} {sx(data)}')
        expect.append(('raw-dec', dec_line(ty, d), {'kind': 'raw-decode', 'ty': sx(ty), 'bytes': data.hex()}))
    if ctx.driver.available:
        for a, (what, g, rep) in zip(ctx.driver.ask(lines), expect):
            if a != g:
                if what == 'layout':
                    # the Lean layout spec is the reference of C02_encode_is_layout: a difference is a concrete deviation
                    ctx.violation(f'implementation bytes differ from Spec.Layout.layout: {bc.short(g, 80)} vs {bc.short(a, 80)}', rep)
                elif what == 'layout-ref':
                    ctx.disagree(f'the two reference layouts differ (harness {bc.short(g, 80)} vs Lean {bc.short(a, 80)})', rep)
                else:
                    ctx.disagree(f'{what}: model `{bc.short(a, 120)}` vs implementation `{bc.short(g, 120)}`', rep)
    else:
        ctx.notes.append('model driver unavailable: oracle only')
    if len(ctx.violations) < 20:
        run_messages(ctx, B, 150 if quick else 2500)
    if len(ctx.violations) < 20:
        # families of message classes declared by inheritance, every order of first use (generator shared with C01)
        run_families(ctx, B, 60 if quick else 1500)


def message_layout_case(ctx, B, style, defs, k, v, tail, iseed, v2, lines, expect):
    """one message through the implementation against the documented layout; `v2`/`iseed`: the in-place update stage (None: skip)"""
    import c01
    import random
    ind, body = defs[k]
    reg = [[i, j, b[1:]] for j, (i, b) in enumerate(defs)]
    rep = {'kind': 'msg-layout', 'style': style, 'reg': sx(reg), 'cls': k, 'val': sx(v), 'tail': tail.hex()}
    if v2 is not None:
        rep.update(val2=sx(v2), iseed=iseed)
    try:
        base, classes = c01.build_messages(B, None, style, defs)
        msg = classes[k]()
        rec = B.from_val(body, v, typed=True)
        for name in list(rec.values):
            setattr(msg, name, rec.values[name])
        actual = bc.to_val(body, msg.record)
        ref = bytes([ind]) + ref_layout(body, actual)
        n, b = bc.guarded_call(msg.to_bytes)
        if b != ref or n != len(ref):
            ctx.violation(f'message bytes differ from [message-type byte] + documented body layout: {b[:24].hex()} vs {ref[:24].hex()}', rep)
        m, dmsg = bc.guarded_call(lambda: base.from_bytes(ref + tail))
        if type(dmsg) is not classes[k] or m != len(ref) or bc.reads_differ(body, msg.record, dmsg.record):
            ctx.violation('the documented message layout does not decode to the message', rep)
        lines.append(f'bin.msg.layout {ind} {sx(body[1:])} {sx(actual)}')
        expect.append((sx(b), rep))
        lines.append(f'bin.msg.dec {sx(reg)} {sx(ref + tail)}')
        expect.append((f'ok {m} {k} {sx(bc.to_val(body, dmsg.record))}', rep))
        # ---- the same message objects, updated IN PLACE after they have been encoded / decoded, must encode the layout of the
        # values they hold now ("the bytes produced for a message are exactly the layout" is about every encoding, not the first)
        if v2 is not None:
            for which, obj in (('encoded', msg), ('decoded', dmsg)):
                bc.guarded_call(obj.to_bytes)
                bc.apply_in_place(B, body, obj.record, v2, random.Random(f'{iseed}-{which}'), top=obj)
                actual2 = bc.to_val(body, obj.record)
                ref2 = bytes([ind]) + ref_layout(body, actual2)
                n2, b2 = bc.guarded_call(obj.to_bytes)
                rep2 = dict(rep, now=sx(actual2), which=which)
                ctx.count('msg:updated-in-place')
                if bytes(b2) != ref2 or n2 != len(ref2):
                    ctx.violation(f'a message ({which}, then updated in place) does not encode the layout of the values it holds now: '
                                  f'{bytes(b2)[:24].hex()} vs {ref2[:24].hex()}', rep2)
                lines.append(f'bin.msg.layout {ind} {sx(body[1:])} {sx(actual2)}')
                expect.append((sx(bytes(b2)), rep2))
    except Exception as e:  # noqa
        ctx.violation(f'message layout check raised {err_name(e)}: {e!s:.80}', rep)


def ask_messages(ctx, lines, expect):
    if ctx.driver.available and lines:
        for a, (g, rep) in zip(ctx.driver.ask(lines), expect):
            if a != g:
                ctx.disagree(f'message: model `{bc.short(a, 100)}` vs implementation `{bc.short(g, 100)}`', rep)


def run_messages(ctx, B, n_cases):
    import c01
    rng = ctx.rng
    lines, expect = [], []
    for _ in range(n_cases):
        style = rng.choice(['itch', 'ouch', 'sqf'])
        inds = rng.sample(range(256), rng.randint(1, 3))
        defs = [(i, bc.gen_record_ty(rng, 'record', rng.randint(0, 2), 4)) for i in inds]
        k = rng.randrange(len(defs))
        ind, body = defs[k]
        v = bc.gen_val(rng, body)
        tail = c01.gen_tail(rng)
        v2 = bc.gen_val(rng, body) if rng.random() < 0.6 else None
        iseed = rng.randrange(1 << 30)
        ctx.case(bc.short(f'msg {style} {ind} {sx(body)} {sx(v)}'), nontrivial=True, sample_every=53)
        ctx.count('msg:' + style)
        message_layout_case(ctx, B, style, defs, k, v, tail, iseed, v2, lines, expect)
    ask_messages(ctx, lines, expect)


# ------------------------------------------------------------------ message classes declared by inheritance (several alive, order of use)
def family_layout_history(B, fam, hist):
    """the layout clause on every use of a history over freshly built classes: (step, failure) or None, and per step
    (bytes produced, actual record value, consumed, decoded class index, decoded value)"""
    try:
        base, classes, _ = bc.build_family(B, fam)
    except Exception as e:  # noqa
        return (-1, f'defining the message classes raised {err_name(e)}'), []
    obs = []
    for i, st in enumerate(hist):
        k, tail = st['k'], bytes.fromhex(st.get('tail', ''))
        body, ind = bc.family_body(fam, k), fam['defs'][k]['ind']
        who = f'class {k}' + (f' (derived from class {fam["defs"][k]["parent"]})' if fam['defs'][k]['parent'] is not None else '')
        try:
            msg = classes[k]()
            rec = B.from_val(body, st['val'], typed=True)
            for name in list(rec.values):
                setattr(msg, name, rec.values[name])
            actual = bc.to_val(body, msg.record)
            ref = bytes([ind]) + ref_layout(body, actual)
            if st['how'] == 'enc':
                n, b = bc.guarded_call(msg.to_bytes)
                if bytes(b) != ref or n != len(ref):
                    return (i, f'{who}, message id {ind}: bytes differ from [message-type byte] + documented layout of its own fields: '
                               f'{bytes(b)[:16].hex()} vs {ref[:16].hex()}'), obs
            m, dmsg = bc.guarded_call(lambda: base.from_bytes(ref + tail))
            if type(dmsg) is not classes[k] or m != len(ref) or bc.reads_differ(body, msg.record, dmsg.record):
                return (i, f'{who}, message id {ind}: the documented layout does not decode to the message'), obs
            n2, b2 = bc.guarded_call(dmsg.to_bytes)
            if bytes(b2) != ref or n2 != len(ref):
                return (i, f'{who}, message id {ind}: the decoded message does not encode the documented layout: '
                           f'{bytes(b2)[:16].hex()} vs {ref[:16].hex()}'), obs
            obs.append((ref, actual, m, classes.index(type(dmsg)), sx(bc.to_val(body, dmsg.record))))
        except Exception as e:  # noqa
            return (i, f'{who}: layout check raised {err_name(e)}: {e!s:.80}'), obs
    return None, obs


def check_family_layout(ctx, B, fam, hist, label, lines, expect):
    rep = bc.family_replay_dict(fam, hist, 'msg-family-layout')
    ctx.case(bc.short(f'family {label} {fam["style"]} {[(d["ind"], d["parent"], d["mode"]) for d in fam["defs"]]} '
                      f'{[(st["k"], st["how"]) for st in hist]} {sx(hist[0]["val"]) if hist else ""}'), nontrivial=True, sample_every=41)
    ctx.count('family:' + label)
    bad, obs = family_layout_history(B, fam, hist)
    if bad:
        if len(ctx.violations) < 3:
            f2, h2 = bc.shrink_family(B, fam, hist[:bad[0] + 1], lambda f, h: family_layout_history(B, f, h)[0] is not None)
            b2 = family_layout_history(B, f2, h2)[0]
            if b2:
                fam, hist, bad = f2, h2, b2
        uses = ' → '.join(f'{"decode" if st["how"] == "dec" else "encode"} class {st["k"]}' for st in hist[:bad[0] + 1])
        ctx.violation(f'message classes declared by inheritance, used in the order [{uses}]: {bad[1]}',
                      bc.family_replay_dict(fam, hist, 'msg-family-layout'))
        return
    reg = sx(bc.family_reg(fam))
    for st, (ref, actual, m, dk, dval) in zip(hist, obs):
        lines.append(f'bin.msg.layout {fam["defs"][st["k"]]["ind"]} {sx(bc.family_body(fam, st["k"])[1:])} {sx(actual)}')
        expect.append((sx(ref), rep))
        lines.append(f'bin.msg.dec {reg} {sx(ref + bytes.fromhex(st.get("tail", "")))}')
        expect.append((f'ok {m} {dk} {dval}', rep))


def run_families(ctx, B, n_fam):
    rng = ctx.rng
    lines, expect = [], []
    cdir = os.path.join(VERIF, 'corpus', 'C01')
    if os.path.isdir(cdir):
        for f in sorted(os.listdir(cdir)):
            c = json.load(open(os.path.join(cdir, f)))
            if c.get('kind') == 'msg-family':
                fam, hist = bc.family_from_replay(c)
                check_family_layout(ctx, B, fam, hist, 'corpus', lines, expect)
    for _ in range(n_fam):
        if len(ctx.violations) >= 20:
            break
        fam = bc.gen_family(rng)
        for label, order in bc.family_orders(rng, fam):
            check_family_layout(ctx, B, fam, [bc.gen_family_step(rng, fam, k) for k in order], label, lines, expect)
    ask_messages(ctx, lines, expect)


def replay(ctx, path):
    bc.reset_lib()
    bc.lib()
    r = json.load(open(path))
    rep = r.get('replay') or (r.get('no_longer_checks') or [{}])[-1].get('case') or r
    ctx.cov['rule'] = 'replay of ' + path
    ctx.case('replay ' + bc.short(json.dumps(rep)))
    ctx.case('replay-marker')
    B = bc.Builder()
    if rep.get('kind') == 'array-elem':
        check_array_elems(ctx, only=(rep['endian'], rep['form'], rep['declared']))
        row = probe_array_elem_forms()[(rep['endian'], rep['form'], rep['declared'])]
        print('declaration:', row['xml'], '\ngenerated:  ', row['text'], '\nelement type behaves as', row['elem'])
        return
    if rep.get('kind') in ('type-table', 'array-count'):
        check_table(ctx)
        return
    if rep.get('kind') == 'msg-layout' and 'reg' in rep:
        from common import parse_sx
        reg = parse_sx(rep['reg'])[0]
        defs = [(int(i), ['record'] + [[int(n), bc.ty_from_parsed(t), bc.val_from_parsed(d)] for n, t, d in fs]) for i, _c, fs in reg]
        lines, expect = [], []
        message_layout_case(ctx, B, rep['style'], defs, int(rep['cls']), bc.parse_val(rep['val']), bytes.fromhex(rep.get('tail', '')),
                            rep.get('iseed', 0), bc.parse_val(rep['val2']) if 'val2' in rep else None, lines, expect)
        for ln, (g, _) in zip(lines, expect):
            print('implementation:', bc.short(g, 200), ' <-', bc.short(ln, 120))
        ask_messages(ctx, lines, expect)
        return
    if rep.get('kind') == 'msg-family-layout':
        fam, hist = bc.family_from_replay(rep)
        lines, expect = [], []
        check_family_layout(ctx, B, fam, hist, 'replay', lines, expect)
        print('family:', [(j, d['ind'], d['parent'], d['mode'], sx(bc.family_body(fam, j))[:100]) for j, d in enumerate(fam['defs'])])
        print('history:', [(st['k'], st['how'], sx(st['val'])[:80]) for st in hist])
        print('oracle:', family_layout_history(B, fam, hist)[0] or 'holds')
        ask_messages(ctx, lines, expect)
        return
    if rep.get('kind') == 'raw-decode':
        ty, data = bc.parse_ty(rep['ty']), bytes.fromhex(rep['bytes'])
        g = dec_line(ty, bc.impl_decode(B.build(ty), data))
        print('implementation:', bc.short(g, 400))
        if ctx.driver.available:
            a = ctx.driver.ask([f'bin.dec {sx(ty)} {sx(data)}'])[0]
            print('model:         ', bc.short(a, 400))
            if a != g:
                ctx.disagree('decode differs', rep)
        return
    if 'ty' not in rep:
        print('nothing to replay in', path)
        return
    ty, v = bc.parse_ty(rep['ty']), bc.parse_val(rep['val'])
    tail = bytes.fromhex(rep.get('tail', ''))
    pobj = B.from_val(ty, v, typed=True)
    actual = bc.to_val(ty, pobj) if kind(ty) in ('record', 'optrec', 'arr') else v
    bad = oracle_layout(B, ty, pobj, actual, tail)
    print('oracle:', bad or 'holds')
    print('implementation:', bc.impl_encode(B.build(ty), pobj)[1:], '\nreference:     ', ref_layout(ty, actual).hex())
    if bad:
        ctx.violation(bad, rep)
    if ctx.driver.available:
        print('Lean layout:   ', ctx.driver.ask([f'bin.layout {sx(ty)} {sx(actual)}'])[0])
