"""Shared run/oracle/replay logic of the session-machine checks C04, C05, C06, C07, C11."""
import json
import os
import random

from common import sx, VERIF
import sess_common as SC
import sess_gen as SG

LIB = ('R', 'D', 'L', 'M', 'C', 'V')


# ------------------------------------------------------------------ (de)serialising scenarios for replay files
def script_to_json(script):
    out = []
    for it in script:
        if it[0] == 'data':
            out.append(['data', it[1], it[2].hex()])
        else:
            out.append(list(it))
    return out


def script_from_json(js):
    out = []
    for it in js:
        if it[0] == 'data':
            toks = [t if isinstance(t, str) else ['msg', int(t[1])] for t in it[1]]
            out.append(('data', toks, bytes.fromhex(it[2])))
        else:
            out.append(tuple(it))
    return out


def cfg_to_json(cfg):
    c = dict(cfg)
    c['msg_beh'] = {str(k): v for k, v in cfg['msg_beh'].items()}
    return c


def cfg_from_json(c):
    c = dict(c)
    fix = lambda b: tuple(b) if isinstance(b, list) else b
    c['msg_beh'] = {int(k): fix(v) for k, v in c['msg_beh'].items()}
    c['cb_beh'] = fix(c['cb_beh'])
    c['default_beh'] = fix(c['default_beh'])
    return c


# ------------------------------------------------------------------ facts about one implementation run
class Facts:
    def __init__(self, cfg, script, res):
        self.cfg, self.script, self.res = cfg, script, res
        self.flat = []          # (event index, event, obs)
        for i, (ev, obs) in enumerate(res['log']):
            for o in obs:
                self.flat.append((i, ev, o))
        self.obs = [o for _, _, o in self.flat]

    def idx(self, o):
        return [k for k, x in enumerate(self.obs) if x == o]

    def kind_idx(self, kind):
        return [k for k, x in enumerate(self.obs) if isinstance(x, list) and x[0] == kind]

    def rets(self):
        return {x[1]: x[2] for x in self.obs if isinstance(x, list) and x[0] == 'ret'}

    def delivered(self):
        """messages handed to a consumer, in order: message callback entered, receive returned, login reply consumed"""
        out = []
        for o in self.obs:
            if isinstance(o, list) and o[0] in ('msgEnter', 'loginReply'):
                out.append(o[1])
            elif isinstance(o, list) and o[0] == 'ret' and isinstance(o[2], list) and o[2][0] == 'msg':
                out.append(o[2][1])
        return out

    def triggers(self):
        """close triggers the script certainly contains"""
        t = []
        connected = False
        for it in self.script:
            if it[0] == 'connect':
                connected = True
            if it[0] in ('close', 'iclose', 'logout', 'eof'):
                t.append(it[0])
            if it[0] == 'data' and connected and any(x in ('logout', 'bad') for x in it[1]):
                t.append('frame:' + [x for x in it[1] if x in ('logout', 'bad')][0])
        return t

    def wire_msgs(self):
        """messages carried by the completed frames, in order, up to the first logout / bad frame"""
        out = []
        for it in self.script:
            if it[0] == 'data':
                for t in it[1]:
                    if t in ('logout', 'bad'):
                        return out, True
                    if t != 'hb':
                        out.append(int(t[1]))
        return out, False


def oracle_close(f, ctxv):
    """C05: once a close trigger occurred, the session ends closed, transport closed, close callback completed exactly once
    after the last message callback; close calls return normally."""
    res, cfg = f.res, f.cfg
    trig = f.triggers()
    raised = [o for o in f.obs if isinstance(o, list) and o[0] == 'raised']
    if raised:
        ctxv(f'a synchronous API call raised {raised[0][1]}')
    for it in f.script:
        if it[0] == 'close' and f.rets().get(it[1]) not in ('ok',):
            # the call may have been skipped only if it never started; a started close must return normally
            if any(ev == ['close', it[1]] for ev, _ in res['log']):
                ctxv(f'close() call of user {it[1]} ended with {f.rets().get(it[1])!r} instead of returning')
    if not (trig or res['closed']):
        return
    if not res['closed']:
        ctxv(f'close trigger {trig[0]} occurred but the session does not report closed after {res["vtime"]:.3f}s')
        return
    if res['tcloses'] < 1:
        ctxv('session reports closed but the transport was never closed')
    elif res['tcloses'] > 1:
        ctxv(f'transport closed {res["tcloses"]} times')
    ne, nx = len(f.idx('cbEnter')), len(f.idx('cbExit'))
    if cfg['has_cb']:
        if ne != 1 or nx != 1:
            ctxv(f'close callback entered {ne} times and completed {nx} times (expected exactly once)')
        else:
            e, x = f.idx('cbEnter')[0], f.idx('cbExit')[0]
            tc = f.idx('tclose')
            if not tc or tc[0] > e:
                ctxv('close callback entered before the transport was closed')
            late = [k for k in f.kind_idx('msgEnter') if k > e]
            if late:
                ctxv(f'message callback for {f.obs[late[0]][1]} started after the close callback was entered')
            # "... after the last message callback has finished or been abandoned": a message callback entered before the close
            # callback must have returned / raised / been cancelled before it — unless that callback is itself the caller of close()
            for k in f.kind_idx('msgEnter'):
                n = f.obs[k][1]
                if k > e:
                    continue
                beh = cfg['msg_beh'].get(n, cfg['default_beh'])
                if beh in ('close', 'reject') or (isinstance(beh, (tuple, list)) and beh[0] == 'sleep_close'):
                    continue
                ends = [j for j, o in enumerate(f.obs) if isinstance(o, list) and o[0] in ('msgExit', 'msgAbandon', 'msgRaise') and o[1] == n and j > k]
                if not ends or ends[0] > e:
                    ctxv(f'close callback entered while the message callback for {n} was still running (neither finished nor abandoned)')
                    break
    elif ne or nx:
        ctxv('close callback observed although none is configured')


def _is_closer(cfg, o):
    """is this the end of a message callback that itself awaited close() (it necessarily returns after the close completed)"""
    if len(o) < 2:
        return False
    beh = cfg['msg_beh'].get(o[1], cfg['default_beh'])
    return beh in ('close', 'reject') or (isinstance(beh, (tuple, list)) and beh[0] == 'sleep_close')


def oracle_clean(f, ctxv):
    """C06: after close nothing is left running, no unretrieved exception, silence on the wire and in the callbacks,
    blocked receivers released with end-of-queue."""
    res = f.res
    if not res['closed']:
        return
    alive = [a for a in res['alive'] if a in LIB or a.startswith('?')]
    if alive:
        ctxv(f'library tasks still running {res["vtime"]:.3f}s of virtual time after the script: {alive}')
    if res['task_exceptions']:
        ctxv(f'task ended with an exception nobody retrieved: {res["task_exceptions"][0]}')
    if res['loop_exceptions']:
        ctxv(f'exception reached the event loop: {res["loop_exceptions"][0]}')
    # the moment the close has completed: the close callback returned; if it never returned (the user cancelled the task that was
    # running it — the user's own doing), the moment it was entered; without a callback, the transport close
    x = f.idx('cbExit') or f.idx('cbEnter') or f.idx('tclose')
    if x:
        after = f.flat[x[0] + 1:]
        for i, ev, o in after:
            if o == ['w', 'hb']:
                ctxv('a heartbeat was written after the session had closed')
                break
            if isinstance(o, list) and o[0] == 'msgEnter':
                ctxv(f'message callback for {o[1]} invoked after the session had closed')
                break
            if o == 'cbEnter':
                ctxv('close callback invoked again after it had completed')
                break
            if isinstance(o, list) and o[0] in ('msgExit', 'msgAbandon', 'msgRaise', 'cleanupDone') and not _is_closer(f.cfg, o):
                ctxv(f'message callback for {o[1] if len(o) > 1 else "?"} was still running after the session had closed ({o[0]} after the close completed)')
                break
    # library tasks must wind down at once: after the close callback returned no task keeps taking steps
    xi = [i for i, (ev, obs) in enumerate(res['log']) if 'cbExit' in obs or ('tclose' in obs and not f.cfg['has_cb'])]
    if xi:
        late = {}
        for ev, _ in res['log'][xi[0] + 1:]:
            if isinstance(ev, list) and ev[0] == 'run' and ev[1] in LIB:
                late[ev[1]] = late.get(ev[1], 0) + 1
        busy = {k: v for k, v in late.items() if v > 1}
        if busy:
            ctxv(f'library tasks kept running after the session had closed (steps after the close completed: {busy})')
    started = {tuple(ev) for ev, _ in res['log'] if isinstance(ev, list) and ev[0] in ('recv', 'login', 'paused_recv')}
    for k, u in started:
        if u not in f.rets():
            ctxv(f'{k} call of user {u} is still blocked after the session closed')


def late_cancels(f):
    """number of receive / login calls that were cancelled LATE: cancel() arrived when the helper task had already completed (first
    step: suspend on the empty queue, second step: take the message) and the call reported the cancellation (or the end of a queue
    that was stopped in that very turn) — the one-turn window of
    the former finding C04-late-cancel-loses-message (repaired: the held message goes to the queue's `_unclaimed` stash and the next
    reader gets it first).  Counted for the evidence distribution only (`late-cancel-window`): no oracle makes an exception for it."""
    evs = [ev for ev, _ in f.res['log']]
    n = 0
    for ic, ev in enumerate(evs):
        if isinstance(ev, list) and ev[0] == 'cancel' and f.rets().get(ev[1]) in ('cancelled', 'eoq', 'refused'):
            starts = [k for k, e in enumerate(evs[:ic]) if isinstance(e, list) and e[0] in ('recv', 'login', 'paused_recv') and e[1] == ev[1]]
            if starts and sum(1 for e in evs[starts[-1]:ic] if e == ['run', 'V']) >= 2:
                n += 1
    return n


def oracle_delivery(f, ctxv):
    """C04: what reaches the consumer is a prefix of the decodable messages received; cancelled receive reports the
    cancellation while the session is open; in callback mode everything received is delivered while the session stays open."""
    res, cfg = f.res, f.cfg
    wire, stopped = f.wire_msgs()
    delivered = f.delivered()
    if delivered != wire[:len(delivered)]:
        # (a message lost to the late cancel of a receive — the former finding C04-late-cancel-loses-message — shows up here as a
        # gap when a later receive goes on with the next message: a plain violation, with the scenario as the failing input)
        ctxv(f'consumer saw {delivered} but the peer sent {wire}: not a prefix (gap, duplicate, reordering or invention)'
             + (f'  [{late_cancels(f)} receive(s) cancelled after the helper task had taken a message]' if late_cancels(f) else ''))
        return
    drained = res.get('drained') or []
    if (not res['closed'] and not stopped and cfg['mode'] == 'pull' and res.get('drained') is not None
            and not any(ev == ['recv', it[1]] and it[1] not in f.rets() for it in f.script if it[0] == 'recv' for ev, _ in res['log'])):
        if delivered + drained != wire:
            # "a cancelled receive consumes no message": delivered ++ still queued must be everything that was received
            ctxv(f'session open, all data polled, but consumer saw {delivered} and {drained} remained queued; the peer sent {wire}'
                 + (f'  [{late_cancels(f)} receive(s) cancelled after the helper task had taken a message]' if late_cancels(f) else ''))
            return
    cancelled_users = [it[1] for it in f.script if it[0] == 'cancel']
    for u in cancelled_users:
        r = f.rets().get(u)
        if r == 'eoq' and not res['closed']:
            ctxv(f'receive of user {u} was cancelled on an open session but raised EndOfQueue')
    # a cancel() that reached a still pending receive must come out of it as the cancellation (C04: "raises that cancellation")
    recv_users = {it[1] for it in f.script if it[0] == 'recv'}
    for ev, _ in res['log']:
        if isinstance(ev, list) and ev[0] == 'cancel' and ev[1] in recv_users:
            r = f.rets().get(ev[1])
            if isinstance(r, list) and r[0] == 'msg':
                ctxv(f'receive of user {ev[1]} was cancelled while pending but returned message {r[1]} instead of raising the cancellation')
    if not res['closed'] and not stopped and cfg['mode'] == 'callback' and f.rets() and 'ok' in f.rets().values():
        # logged in, callback mode, session still open, no handler that never returns: everything must have arrived
        behs = [cfg['default_beh']] + list(cfg['msg_beh'].values())
        if all(b in ('ret', 'raise') or isinstance(b, tuple) for b in behs) and len(delivered) != len(wire):
            ctxv(f'session open and idle but only {len(delivered)} of {len(wire)} fully received messages were delivered')


def oracle_hostile(f, ctxv):
    """C07: after a malformed frame the session either keeps delivering or closes; never open-and-deaf; nothing escapes
    into the loop; a later close() succeeds."""
    res = f.res
    had_bad = any(it[0] == 'data' and 'bad' in it[1] for it in f.script)
    if res['loop_exceptions']:
        ctxv(f'exception reached the event loop: {res["loop_exceptions"][0]}')
    if res['task_exceptions']:
        ctxv(f'task died with {res["task_exceptions"][0]}')
    # the harness plays the transport: an exception out of data_received / connection_lost is an exception in the loop's own callback
    for ev, obs in res['log']:
        if (ev == 'eof' or (isinstance(ev, list) and ev[:1] == ['data'])) and any(isinstance(o, list) and o[0] == 'raised' for o in obs):
            o = [o for o in obs if isinstance(o, list) and o[0] == 'raised'][0]
            ctxv(f'exception reached the event loop: the protocol callback for {"a received segment" if ev != "eof" else "the disconnect"} raised {o[1]}')
            break
    # what reached the consumer: either the session stopped at the malformed frame, or it skipped it and went on
    before, _ = f.wire_msgs()
    full = []
    for it in f.script:
        if it[0] == 'data':
            stop = False
            for t in it[1]:
                if t == 'logout':
                    stop = True
                    break
                if t not in ('hb', 'bad'):
                    full.append(int(t[1]))
            if stop:
                break
    delivered = f.delivered()
    if delivered != before[:len(delivered)] and delivered != full[:len(delivered)]:
        ctxv(f'after a malformed frame the consumer saw {delivered}; the peer sent {full} (well-formed frames lost, invented or reordered)')
    if had_bad and not res['closed']:
        if f.cfg['mode'] == 'callback' and 'ok' in f.rets().values() and len(delivered) < len(full):
            ctxv(f'malformed frame received; session still reports open but delivered only {len(delivered)} of the {len(full)} well-formed messages: deaf')
        elif f.cfg['mode'] != 'callback' or 'ok' not in f.rets().values():
            # nobody is consuming: an open session must at least still have a live reader
            if 'R' not in res['alive']:
                ctxv('malformed frame received, session reports open but its reader task is gone: deaf')
    last_close = [it for it in f.script if it[0] == 'close']
    if last_close and f.rets().get(last_close[-1][1]) != 'ok' and any(ev == ['close', last_close[-1][1]] for ev, _ in res['log']):
        ctxv(f'close() after hostile input ended with {f.rets().get(last_close[-1][1])!r}')
    if res['closed'] and res['tcloses'] < 1:
        ctxv('closed after hostile input but the transport was never closed')


def oracle_login(f, ctxv):
    """C11: two outcomes; active ⇒ login first, heartbeats started, no callback before acceptance; refused/cancelled ⇒ closed and clean."""
    res, cfg = f.res, f.cfg
    logins = [it[1] for it in f.script if it[0] == 'login']
    if not logins:
        return
    u = logins[0]
    if not any(ev == ['login', u] for ev, _ in res['log']):
        return
    r = f.rets().get(u)
    cancelled = any(it[0] == 'cancel' and it[1] == u for it in f.script)
    if r is None:
        # a heartbeat is not an answer: the attempt may legitimately still be waiting
        if any(it[0] == 'eof' or (it[0] == 'data' and any(t != 'hb' for t in it[1])) for it in f.script):
            ctxv('the peer answered / disconnected but the login attempt never returned')
        return
    cancel_delivered = any(ev == ['cancel', u] for ev, _ in res['log'])      # cancel() reached the still pending call
    if cancel_delivered and r == 'ok':
        ctxv('the caller cancelled the pending login attempt but the cancellation did not propagate: login() returned a session')
        return
    if r not in ('ok', 'refused') and not (cancelled and r == 'cancelled'):
        ctxv(f'login attempt ended with {r!r} (expected success, a connection-refused error, or the caller\'s own cancellation)')
        return
    # the attempt's own first bytes: the step in which login() starts must begin by writing the login request
    for ev, obs in res['log']:
        if ev == ['login', u]:
            if not obs or obs[0] != ['w', 'login']:
                ctxv(f'login() started with {obs[:1]} instead of writing the login request first')
            break
    k_ret = [k for k, o in enumerate(f.obs) if o == ['ret', u, r]][0]
    first_reply = next((int(t[1]) for it in f.script if it[0] == 'data' for t in it[1] if t not in ('hb', 'logout', 'bad')), None)
    first_frame = next((t for it in f.script if it[0] == 'data' for t in it[1] if t != 'hb'), None)
    if r == 'ok' and (first_frame in ('logout', 'bad') or (first_reply is not None and first_reply != 0)):
        ctxv(f'login succeeded although the first reply was not an acceptance (first frame: {first_frame})')
    if (r == 'refused' and first_frame is not None and not isinstance(first_frame, str) and first_reply == 0
            and not any(it[0] in ('eof', 'cancel', 'close', 'iclose', 'logout') for it in f.script)):
        # "an acceptance yields the first outcome for all segmentations/timings of the reply": every byte of the acceptance arrived
        # (the script lists a frame with the segment that completes it), nobody disconnected, cancelled or closed
        ctxv('the peer accepted the login — every byte of the acceptance arrived, nobody disconnected, cancelled or closed — but the attempt was refused')
    if r == 'ok' and res.get('login_active') is False:
        # "returns an active, logged-in session": active at the moment of return — `is_active()`, i.e. neither closed nor with the
        # closing task already scheduled (a disconnect reported while the reply travelled from the reader to login())
        ctxv('login() returned a session that is not active at the moment of return (is_active() is false: '
             + ('already closed' if res.get('login_closed') else 'the closing task is already scheduled') + ')')
    if r == 'ok':
        early = [o for o in f.obs[:k_ret] if isinstance(o, list) and o[0] == 'msgEnter']
        if early:
            ctxv(f'message {early[0][1]} handed to the callback before the login acceptance was processed')
        # heartbeating started: both monitor tasks took their first step
        ran = {ev[1] for ev, _ in res['log'] if isinstance(ev, list) and ev[0] == 'run'}
        if not ({'L', 'M'} <= ran):
            ctxv('login succeeded but the heartbeat monitors were never started')
    else:
        if not res['closed']:
            ctxv(f'login attempt ended with {r} but the session was left open')
        else:
            oracle_clean(f, ctxv)
            if res['tcloses'] < 1:
                ctxv(f'login attempt ended with {r} but the transport was never closed')


ORACLES = {'C04': [oracle_delivery], 'C05': [oracle_close], 'C06': [oracle_clean, ], 'C07': [oracle_hostile],
           'C11': [oracle_login]}
FOCUS = {'C04': ['deliver', 'latecancel', 'deliver', None], 'C05': ['close', None, 'close'], 'C06': ['close', None, 'login'],
         'C07': ['hostile'], 'C11': ['login']}


def run_one(cfg, script, seed, settle=0.05):
    return SC.Scenario(cfg, script, seed=seed, settle=settle).run()


def violations_of(prop, cfg, script, res):
    out = []
    f = Facts(cfg, script, res)
    for orc in ORACLES[prop]:
        orc(f, out.append)
    return out


def split_kind(v):
    return v if isinstance(v, tuple) else (v, 'scenario')


def shrink(prop, cfg, script, seed, what, budget=60):
    """greedy removal of script items while the same kind of oracle failure persists"""
    key = what.split(':')[0][:40]
    cur = list(script)
    tries = 0
    changed = True
    while changed and tries < budget:
        changed = False
        for i in range(len(cur) - 1, 0, -1):
            if tries >= budget:
                break
            cand = cur[:i] + cur[i + 1:]
            tries += 1
            try:
                v = violations_of(prop, cfg, cand, run_one(cfg, cand, seed))
            except Exception:   # noqa
                continue
            if any(split_kind(x)[0][:40] == key for x in v):
                cur = cand
                changed = True
    return cur


def run_family(ctx, prop):
    rng = ctx.rng
    quick = ctx.tier == 'quick'
    n = {'quick': 1500, 'thorough': 25000}[ctx.tier]
    ctx.cov['rule'] = ('random scenarios (config x script of external events: connect/login/data under random segmentation/eof/close/'
                       'initiate_close/logout/receive/cancel/send, gaps of 0..4 loop turns or timer intervals) run on the real '
                       'session under virtual time with every task step logged; the step log is replayed through the Lean session '
                       'machine (per-event observables + final task set compared) and the property oracle is evaluated on the '
                       'implementation alone; distinct = distinct (config, script); non-trivial = at least 5 logged events with observables')
    cases = []
    ext_corpus = []         # corpus scenarios using API outside the Lean machine (`"ext": true`): oracle only
    cdir = os.path.join(VERIF, 'corpus', prop)
    if os.path.isdir(cdir):
        for fn in sorted(os.listdir(cdir)):
            c = json.load(open(os.path.join(cdir, fn)))
            if 'app_scenario' in c:
                continue            # application-session regressions: run by app_sessions.run_family_app
            if c.get('kind') == 'hostile' or (c.get('replay') or {}).get('kind') == 'hostile':
                continue            # byte-level hostile streams: run by sess_hostile.run_hostile (C07)
            if c.get('ext'):
                ext_corpus.append((cfg_from_json(c['cfg']), script_from_json(c['script']), c.get('seed', 0), c.get('settle', 0.05), fn))
                continue
            cases.append((cfg_from_json(c['cfg']), script_from_json(c['script']), c.get('seed', 0), 'corpus:' + fn))
    if prop == 'C11':
        for cfg, script in SG.login_window_cases():
            cases.append((cfg, script, 0, 'login-window'))
    foci = FOCUS[prop]
    for i in range(n):
        focus = foci[i % len(foci)]
        r = random.Random(rng.random())
        # C11 quantifies over soup and fix logins: the FIX client session runs the same scenarios (Cfg.fixLogin on the model side)
        cfg = SG.gen_cfg(r, kind='fix-client' if (prop == 'C11' and r.random() < 0.4) else 'soup-client')
        if focus == 'latecancel':
            # pull mode, or callback mode before login (no dispatcher yet): a receive can be pending
            cfg = SG.gen_cfg(r, kind='soup-client', mode=r.choice(['pull', 'pull', 'callback']))
            script = SG.gen_late_cancel(r, cfg)
        else:
            script = SG.gen_script(r, cfg, focus=focus)
        if prop == 'C07' and r.random() < 0.7:
            script = script + [('advance', 0.001), ('close', 99)]
        cases.append((cfg, script, r.randrange(1 << 30), focus or 'mixed'))
    results, reqs = [], []
    for cfg, script, seed, tag in cases:
        try:
            res = run_one(cfg, script, seed)
        except Exception as e:   # noqa — the library (possibly modified) broke the harness run itself: an observation
            ctx.violation(f'running the scenario raised {type(e).__name__}: {e}',
                          {'kind': 'scenario', 'cfg': cfg_to_json(cfg), 'script': script_to_json(script), 'seed': seed})
            continue
        results.append((cfg, script, seed, tag, res))
        reqs.append(SC.model_request(cfg, res['log']))
    answers = ctx.driver.ask(reqs) if (ctx.driver and ctx.driver.available and ctx.lean.build_ok) else [None] * len(reqs)
    for (cfg, script, seed, tag, res), ans in zip(results, answers):
        n_obs = sum(1 for _, o in res['log'] if o)
        ctx.case({'cfg': cfg_to_json(cfg), 'script': script_to_json(script)[:12]}, nontrivial=n_obs >= 5, sample_every=701)
        ctx.count('focus:' + tag.split(':')[0])
        ctx.count('closed' if res['closed'] else 'open')
        for ev, _ in res['log']:
            if isinstance(ev, list) and ev[0] == 'run':
                ctx.count('steps:' + ev[1][:1])
        for it in script:
            if it[0] != 'data':
                ctx.count('ext:' + it[0])
            else:
                for t in it[1]:
                    ctx.count('frame:' + (t if isinstance(t, str) else 'msg'))
        rep = {'kind': 'scenario', 'cfg': cfg_to_json(cfg), 'script': script_to_json(script), 'seed': seed}
        lc = late_cancels(Facts(cfg, script, res))
        if lc:
            # receives / logins cancelled in the one-turn window after the helper task took a message (the former finding)
            ctx.count('late-cancel-window', lc)
            ctx.count('late-cancel-window:' + tag.split(':')[0], lc)
        v = violations_of(prop, cfg, script, res)
        if v:
            what, kind = split_kind(v[0])
            small = shrink(prop, cfg, script, seed, what) if (len(ctx.violations) < 3 and kind == 'scenario') else script
            rep = {'kind': kind, 'cfg': cfg_to_json(cfg), 'script': script_to_json(small), 'seed': seed}
            ctx.violation(what, rep)
        if ans is not None:
            try:
                dis = SC.compare(cfg, res, ans)
            except Exception as e:   # noqa
                dis = [f'could not compare: {e}']
            if dis:
                ctx.disagree(dis[0], rep)
    ctx.cov['events_replayed'] = sum(len(r[4]['log']) for r in results)
    # ---- extended scenarios: API and callback shapes outside the Lean machine (pause_dispatching, start_dispatching at any time,
    # callbacks that work and then close, slow cancellation clean-up): property oracle only
    if prop in ('C04', 'C05', 'C06'):
        n_ext = 400 if quick else 8000
        ext_cases = [(cfg, script, settle, seed) for cfg, script, seed, settle, _ in ext_corpus]
        for _ in range(n_ext):
            r = random.Random(rng.random())
            cfg, script, settle = SG.gen_ext_late(r) if r.random() < 0.2 else SG.gen_ext(r)
            ext_cases.append((cfg, script, settle, r.randrange(1 << 30)))
        for cfg, script, settle, seed in ext_cases:
            rep = {'kind': 'scenario', 'ext': True, 'settle': settle, 'cfg': cfg_to_json(cfg), 'script': script_to_json(script), 'seed': seed}
            try:
                res = run_one(cfg, script, seed, settle)
            except Exception as e:   # noqa
                ctx.violation(f'running the extended scenario raised {type(e).__name__}: {e}', rep)
                continue
            n_obs = sum(1 for _, o in res['log'] if o)
            ctx.case({'ext': True, 'cfg': cfg_to_json(cfg), 'script': script_to_json(script)[:12]}, nontrivial=n_obs >= 5, sample_every=499)
            ctx.count('focus:ext')
            for it in script:
                if it[0] in ('paused_recv', 'startdisp'):
                    ctx.count('ext:' + it[0])
            lc = late_cancels(Facts(cfg, script, res))
            if lc:
                ctx.count('late-cancel-window', lc)
                ctx.count('late-cancel-window:ext', lc)
            for b in cfg['msg_beh'].values():
                if isinstance(b, tuple) and b[0] in ('sleep_close', 'cleanup'):
                    ctx.count('ext:beh-' + b[0])
            v = violations_of(prop, cfg, script, res)
            if v:
                what, kind = split_kind(v[0])
                ctx.violation(what + '  [extended scenario, not modelled]', dict(rep, kind=kind))
        ctx.notes.append('extended scenarios (pause_dispatching around a pull, start_dispatching at any moment incl. after close, callbacks that work '
                         'and then close, cancellation clean-up slower than a heartbeat interval) are evaluated by the property oracle only')
    # ---- application-session layer (ITCH / OUCH / SQF / ASN.1 on top of soup): implementation run, step-log replay through the Lean
    # product machine Model/AppSession.lean, property oracle (harness/app_sessions.py)
    if prop in ('C04', 'C05', 'C06'):
        import app_sessions as AS
        AS.run_family_app(ctx, prop)
    # ---- C11 at the connectors (soup / fix / itch / ouch / sqf / asn1 connect_async): oracle scenarios of harness/login_app.py
    if prop == 'C11':
        import login_app
        login_app.run_connectors(ctx)


def replay_family(ctx, prop, path):
    r = json.load(open(path))
    rep = r.get('replay') or (r.get('no_longer_checks') or [{}])[-1].get('case') or r
    if 'app_scenario' in rep:
        import app_sessions as AS
        AS.replay_app(ctx, prop, rep)
        return
    if 'late_construct' in rep:
        import app_sessions as AS
        ctx.cov['rule'] = 'replay of: late cancel of a pull, then an application session constructed on the soup session'
        ctx.case('replay-marker')
        AS.construct_on_stash(ctx, only=list(rep['late_construct']))
        return
    cfg, script, seed = cfg_from_json(rep['cfg']), script_from_json(rep['script']), rep.get('seed', 0)
    res = run_one(cfg, script, seed, rep.get('settle', 0.05))
    ans = ctx.driver.ask([SC.model_request(cfg, res['log'])])[0] if (ctx.driver.available and not rep.get('ext')) else None
    ctx.cov['rule'] = 'replay of ' + path
    ctx.case({'cfg': cfg_to_json(cfg)})
    ctx.case('replay-marker')
    print('script:', [(x[0], x[1]) if x[0] == 'data' else x for x in script])
    print('log:', [(sx(SC.ev_sx(e)), [SC.obs_canon(x) for x in o]) for e, o in res['log'] if o or not (isinstance(e, list) and e[0] == 'run')])
    print('closed', res['closed'], 'alive', res['alive'], 'task exceptions', res['task_exceptions'], res['loop_exceptions'])
    for v in violations_of(prop, cfg, script, res):
        what, kind = split_kind(v)
        print('ORACLE:', what)
        ctx.violation(what, dict(rep, kind=kind))
    if ans is not None:
        for d in SC.compare(cfg, res, ans):
            print('MODEL:', d)
            ctx.disagree(d, rep)
