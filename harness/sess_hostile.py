"""C07, byte level: hostile / extreme inbound streams fed to real sessions of every kind through a transport with flow control.

The session-machine family (sess_checks.run_family) abstracts a malformed frame to the token `bad` and only drives soup client
sessions.  This module covers what that abstraction hides:

* session kinds: SoupClientSession, SoupServerSession, Fix44Session — each before and after login (before login there are no
  heartbeat monitors that could rescue a deaf session) — and ITCH / OUCH / SQF client sessions on top of a logged-in soup session
  (applications with numbers, variable-length strings, arrays of shorts and of strings, fixed strings: `app_libs`);
* inbound stream = valid frames + ONE malformed / extreme frame (hostile_gen: every class x packet type; signed / zero /
  non-canonical / non-numeric BodyLength, maximum-size frames, repeating-group counts, heartbeat-only bursts of > 64 KiB, garbage;
  ONE length-consistent FIX frame of 5-17 MiB (known / unknown MsgType) and soup backlogs of 5-17 MiB of maximum-size data packets,
  in 64 KiB segments with / without reader polls in between (`huge_cases`: beyond any plausible bound on a receive buffer);
  application payloads: unknown indicator, empty, truncated, trailing bytes, two messages in one packet, string length / array count
  negative, zero, beyond the payload, maximal)
  + valid frames, under a segmentation (whole, per frame, at the class's own zones — after the length field, before the last byte,
  between `9=` and SOH —, byte-wise, random) with or without reader polls between the segments;
* the bytes go through `FakeTransport.feed`: a session that pauses reading gets nothing until it resumes, as on a real transport;
* afterwards the peer keeps sending numbered valid frames (*probes*) for a bounded stretch of virtual time.

Oracle (implementation only, the statement of C07):
  - nothing reaches the loop's exception handler, no library task dies with an exception;
  - not deaf while open: at the deadline the session reports closed, or a probe has been delivered (and the two probes sent after
    the first delivered one are delivered too, in order);  classes whose announced length the scenario cannot satisfy (`wants`
    unknown: garbage) are only held to "an open session still has a live reader task";
  - no single `deserialize()` call takes more than WALL_PER_FRAME seconds and no scenario more than CASE_WALL seconds of CPU time (a
    frame must not block the event loop; the costliest legitimate scenario, 128 KiB of heartbeats, needs about one second);
  - a final `close()` returns normally, the transport is closed exactly once, the close callback ran exactly once, `is_closed()`.
Correspondence: the session's own reader (an instrumented subclass installed through `reader_factory`) logs every `on_data` /
`deserialize()` / emission / close signal; Model/Framing.lean (`frame.run`, driver drv_C03) is folded over the observed data / tick
sequence and must predict the same emissions and the same close signal — the byte-level classifier of the model agrees with the
code on every class x segmentation that was run.
"""
import asyncio
import gc
import json
import logging
import os
import signal
import time

import common
from common import err_name, VERIF
import hostile_gen as HG
from vloop import VirtualLoop, FakeTransport

POLL = 0.0001
CHASE_CAP = 8                  # reader polls a `chase` gap waits for the reader to stop before it goes on anyway
HB = 0.05                      # heartbeat interval (both directions) of logged-in sessions, virtual seconds
WALL_PER_FRAME = 1.0           # seconds one deserialize() call may take (measured as CPU time of this process: robust against a loaded machine)
CASE_WALL = 4.0                # CPU seconds after which a scenario is aborted (the loop is blocked); the costliest legitimate one takes < 1.5 s
MAX_DESER = 400000
KINDS = [('soup-client', 'pre'), ('soup-client', 'post'), ('soup-server', 'pre'), ('soup-server', 'post'), ('fix', 'pre'), ('fix', 'post')]
UNDELIMITED_OBSERVATION = os.environ.get('VERIF_UNDELIMITED_OBSERVATION') == '1'   # for the record only, never part of a verdict (see hostile_gen)

APP_KINDS = [('itch', 'post'), ('ouch', 'post'), ('sqf', 'post')]      # application sessions on top of a logged-in soup client session
_L = {}
_APP = {}


def app_libs(kind):
    """one small application per protocol, written the way the code generator writes it (own app name: registries are global):
    message 1 `Num` {n: long}; 2 `Txt` {n: long, s: variable-length ASCII string, m: long}; 3 `Arr` {n: long, a: array of short,
    t: array of strings}; 4 `Fix` {n: long, f: fixed string of 4}"""
    if kind in _APP:
        return _APP[kind]
    from nasdaq_protocols.common import Record, Field, LongBE, ShortBE, AsciiString, FixedAsciiString, Array
    from nasdaq_protocols import itch, ouch, sqf
    impl = {'itch': itch, 'ouch': ouch, 'sqf': sqf}[kind]
    app = 'h07_' + kind

    class Base(impl.Message, app_name=app):
        def __init_subclass__(cls, **kwargs):
            kwargs['app_name'] = app
            super().__init_subclass__(**kwargs)
    extra = {} if kind == 'itch' else {'direction': 'outgoing'}

    class Num(Base, indicator=1, **extra):
        class BodyRecord(Record):
            Fields = [Field('n', LongBE)]

    class Txt(Base, indicator=2, **extra):
        class BodyRecord(Record):
            Fields = [Field('n', LongBE), Field('s', AsciiString), Field('m', LongBE)]

    class Arr(Base, indicator=3, **extra):
        class BodyRecord(Record):
            Fields = [Field('n', LongBE), Field('a', Array(ShortBE, length_type=ShortBE)), Field('t', Array(AsciiString, length_type=ShortBE))]

    class Fxd(Base, indicator=4, **extra):
        class BodyRecord(Record):
            Fields = [Field('n', LongBE), Field('f', FixedAsciiString(4))]

    class Sess(impl.ClientSession):
        @classmethod
        def decode(cls, bytes_):
            return Base.from_bytes(bytes_)
    _APP[kind] = {'Session': Sess, 'Base': Base, 'classes': (Num, Txt, Arr, Fxd)}
    return _APP[kind]


APP_MARK = 0x5A5A5A         # top three bytes of the 8-byte number of the harness's own numbered application messages


def app_payload(n):
    """independent encoder of the numbered application message `Num` (indicator byte 1, 8-byte big-endian number: 5A 5A 5A + n in
    5 bytes — no truncated, padded or random hostile payload decodes to such a number)"""
    return b'\x01' + ((APP_MARK << 40) | int(n)).to_bytes(8, 'big')


def libs():
    if _L:
        return _L
    from nasdaq_protocols import soup
    from nasdaq_protocols.soup import session as soup_session
    import monitor_common
    F = monitor_common._fix_libs()
    fix, fixm, fs = F['fix'], F['fixm'], F['fix_session']

    class Server(soup_session.SoupServerSession):
        async def on_login(self, msg):
            self.h_sink(('login', msg))
            return soup.LoginAccepted('sess', 1)

        async def on_unsequenced(self, msg):
            self.h_sink(('msg', msg))

        async def on_debug(self, msg):
            self.h_sink(('msg', msg))

    # a message with two repeating groups of distinct members (tags 7001.. are used by nothing else in this process)
    def fld(tag, name, ty):
        return type(name, (fix.Field,), {}, Tag=tag, Name=name, Type=ty)
    f = {t: fld(t, n, ty) for t, n, ty in ((7001, 'H07NoA', fix.FixInt), (7002, 'H07A1', fix.FixInt), (7003, 'H07A2', fix.FixString),
                                           (7011, 'H07NoB', fix.FixInt), (7012, 'H07B1', fix.FixInt), (7013, 'H07B2', fix.FixString))}
    ga = type('H07GroupA', (fix.Group,), {'Entries': [fix.Entry(f[7002], True), fix.Entry(f[7003], False)]})
    gb = type('H07GroupB', (fix.Group,), {'Entries': [fix.Entry(f[7012], True), fix.Entry(f[7013], False)]})
    ca = type('H07ContA', (fix.GroupContainer,), {}, CountCls=f[7001], GroupCls=ga)
    cb = type('H07ContB', (fix.GroupContainer,), {}, CountCls=f[7011], GroupCls=gb)
    body = type('H07Body', (fix.DataSegment,), {'Entries': [fix.Entry(fixm.Username, False), fix.Entry(ca, False), fix.Entry(cb, False)]})
    gm = type('H07GroupMsg', (fix.Message,), {}, Name='H07GroupMsg', Type='H7', Category='h07', HeaderCls=fixm.Header, BodyCls=body,
              TrailerCls=fixm.Trailer)
    # fields WITH enumeration tables, the way nasdaq-fix-codegen writes them (`Values = {wire value: symbolic name}` plus one class
    # attribute per symbolic name); the suite's dictionary has none (its `Values` are None / {}).  Tags 7054.. are used by nothing else.
    def efld(tag, name, ty, values):
        ns = {'Values': values}
        ns.update({sym: wire for wire, sym in (values or {}).items()})
        return type(name, (fix.Field,), ns, Tag=tag, Name=name, Type=ty)
    e = {7054: efld(7054, 'H07Side', fix.FixString, {'1': 'BUY', '2': 'SELL', '5': 'SELL_SHORT'}),
         7098: efld(7098, 'H07EncryptMethod', fix.FixInt, {0: 'NONE_OTHER', 1: 'PKCS', 2: 'DES'}),
         7040: efld(7040, 'H07OrdType', fix.FixChar, {'1': 'MARKET', '2': 'LIMIT', 'P': 'PEGGED'}),
         7059: efld(7059, 'H07NoEnum', fix.FixString, {}),
         7060: efld(7060, 'H07NoneEnum', fix.FixInt, None),
         7071: efld(7071, 'H07NoLegs', fix.FixInt, None),
         7072: efld(7072, 'H07LegSide', fix.FixString, {'B': 'BUY', 'S': 'SELL'}),
         7073: efld(7073, 'H07LegQty', fix.FixInt, None),
         7143: efld(7143, 'H07HdrFlag', fix.FixString, {'Y': 'YES', 'N': 'NO'})}
    gl = type('H07LegGroup', (fix.Group,), {'Entries': [fix.Entry(e[7072], True), fix.Entry(e[7073], False)]})
    cl = type('H07LegCont', (fix.GroupContainer,), {}, CountCls=e[7071], GroupCls=gl)
    ehdr = type('H07EnumHeader', (fix.DataSegment,), {'Entries': list(fixm.Header.Entries) + [fix.Entry(e[7143], False)]})
    ebody = type('H07EnumBody', (fix.DataSegment,), {'Entries': [fix.Entry(fixm.Username, False), fix.Entry(e[7054], False), fix.Entry(e[7098], False),
                                                                fix.Entry(e[7040], False), fix.Entry(e[7059], False), fix.Entry(e[7060], False),
                                                                fix.Entry(cl, False)]})
    em = type('H07EnumMsg', (fix.Message,), {}, Name='H07EnumMsg', Type='H8', Category='h07', HeaderCls=ehdr, BodyCls=ebody, TrailerCls=fixm.Trailer)
    # a Logon-like message with an enumerated field (FIX Logon carries EncryptMethod 98): what a session over a generated dictionary
    # logs in with, and what the counterparty answers with
    lbody = type('H07LogonBody', (fix.DataSegment,), {'Entries': [fix.Entry(fixm.Username, False), fix.Entry(e[7098], False), fix.Entry(e[7054], False)]})
    lm = type('H07Logon', (fix.Message,), {}, Name='H07Logon', Type='HA', Category='h07', HeaderCls=ehdr, BodyCls=lbody, TrailerCls=fixm.Trailer)
    _L.update(soup=soup, soup_session=soup_session, fix=fix, fixm=fixm, fs=fs, Server=Server, GroupMsg=gm, EnumMsg=em, EnumLogon=lm)
    return _L


def fix_login_msg(ty='L'):
    """the logon message a FIX session of the scenario logs in with: the suite's `Login` (type L) or the logon over the dictionary
    with enumerations (type HA, EncryptMethod-like field set to a member of its enumeration)"""
    L = libs()
    fix, fixm = L['fix'], L['fixm']
    hdr = {'SenderCompID': 'ME', 'TargetCompID': 'PEER', 'MsgSeqNum': 1}
    if ty == 'HA':
        return L['EnumLogon']({fix.MessageSegments.HEADER: hdr, fix.MessageSegments.BODY: {'Username': 'u', 'H07EncryptMethod': 0}})
    return fixm.Login({fix.MessageSegments.HEADER: hdr, fix.MessageSegments.BODY: {'Username': 'u'}})


# ====================================================================== valid frames (independent encoders) and what a message carries
FIX_VER = b'FIX.4.4'


def fix_fields(ty, seq, user=None, extra=()):
    fl = [(35, ty), (49, 'PEER'), (56, 'ME'), (34, seq), (52, '20260930-00:00:00')]
    if user is not None:
        fl.append((553, user))
    return fl + list(extra)


def valid_frame(kind, tok, seq=1):
    """tok: ('msg', n) | 'hb' | 'login' (the frame that completes / starts the login of this kind of session)"""
    if kind in ('itch', 'ouch', 'sqf'):
        if tok == 'hb':
            return HG.soup_pkt(b'H')
        if tok == 'login':
            return HG.soup_pkt(b'A', b'sess      ' + b'1'.rjust(20))
        return HG.soup_pkt(b'S', app_payload(tok[1]))
    if kind == 'soup-client':
        if tok == 'hb':
            return HG.soup_pkt(b'H')
        if tok == 'login':
            return HG.soup_pkt(b'A', b'sess      ' + b'1'.rjust(20))
        return HG.soup_pkt(b'S', str(tok[1]).encode())
    if kind == 'soup-server':
        if tok == 'hb':
            return HG.soup_pkt(b'R')
        if tok == 'login':
            return HG.soup_pkt(b'L', b'u     ' + b'p         ' + b's         ' + b'1'.rjust(20))
        return HG.soup_pkt(b'U', str(tok[1]).encode())
    if tok == 'hb':
        return HG.fix_good(FIX_VER, fix_fields('0', seq))
    if tok == 'login':
        return HG.fix_good(FIX_VER, fix_fields('L', seq, 'u'))
    return HG.fix_good(FIX_VER, fix_fields('N', seq, 'n%d' % tok[1]))


def number_of(kind, m):
    """the number a delivered message carries (None: not one of the harness's numbered data messages)"""
    if kind in ('itch', 'ouch', 'sqf'):
        try:
            n = m.n if type(m) in app_libs(kind)['classes'] else None
            return (n & 0xFFFFFFFFFF) if isinstance(n, int) and (n >> 40) == APP_MARK else None
        except Exception:  # noqa
            return None
    L = libs()
    try:
        if kind == 'fix':
            u = m.Username if type(m).Type in ('N', 'H7', 'H8') else None
            return int(u[1:]) if isinstance(u, str) and u[:1] == 'n' and u[1:].isdigit() else None
        soup = L['soup']
        if isinstance(m, (soup.SequencedData, soup.UnSequencedData)):
            d = bytes(m.data)
            return int(d) if d.isdigit() and len(d) < 12 else None
    except Exception:  # noqa
        return None
    return None


# ====================================================================== instrumented reader
class ReaderHang(KeyboardInterrupt):
    """raised inside a blocked / spinning reader (KeyboardInterrupt: neither the library's `except Exception` nor asyncio's task
    wrapper swallow it)"""


_PROBES = {}


def probe_cls(reader_cls):
    if reader_cls in _PROBES:
        return _PROBES[reader_cls]

    class Probe(reader_cls):
        h_rec = None

        def on_data(self, data):
            rec = Probe.h_rec
            if rec is not None and rec['on']:
                rec['log'].append(('d', bytes(data)))
            return super().on_data(data)

        def deserialize(self):
            rec = Probe.h_rec
            if rec is None or not rec['on']:
                return super().deserialize()
            rec['log'].append(('t',))
            rec['n_deser'] += 1
            if rec['n_deser'] > MAX_DESER:
                raise ReaderHang(f'the reader called deserialize() more than {MAX_DESER} times in one scenario')
            t0 = time.process_time()
            stopping = True            # an exception out of deserialize() ends the session, like a logout frame
            try:
                r = super().deserialize()
                try:
                    stopping = bool(r[1])
                except Exception:  # noqa
                    stopping = False
                return r
            finally:
                dt = time.process_time() - t0
                if dt > rec['max_wall']:
                    rec['max_wall'] = dt
                if stopping and rec.get('stop_evt') is not None:
                    rec['stop_evt'].set()          # (`chase` gaps continue in the loop turn after this reader step)
    Probe.__name__ = 'H07Probe' + reader_cls.__name__
    _PROBES[reader_cls] = Probe
    return Probe


def _on_alarm(signum, frame):
    where = []
    f = frame
    while f is not None and len(where) < 4:
        where.append(f'{os.path.basename(f.f_code.co_filename)}:{f.f_lineno} {f.f_code.co_name}')
        f = f.f_back
    raise ReaderHang(f'the event loop was blocked: the scenario did not finish within {CASE_WALL} s of CPU time [at {" < ".join(where)}]')


# ====================================================================== one scenario on the implementation
def stream_of(case):
    """(bytes, [(start, end, tok)]) of the scripted part of the stream"""
    out, spans, seq = bytearray(), [], 2
    for p in case['parts']:
        if p['tok'] == 'bad':
            b = HG.expand(p['b'])
        else:
            tok = tuple(p['tok']) if isinstance(p['tok'], list) else p['tok']
            b = valid_frame(case['sess'], tok, seq)
            seq += 1
        spans.append((len(out), len(out) + len(b), p['tok']))
        out += b
    return bytes(out), spans


def est_frames(case):
    n = 0
    for p in case['parts']:
        if p['tok'] == 'bad':
            for q in p['b']:
                n += q[2] if q[0] in ('rep', 'repp') else (len(q[1]) // 4 + 1 if q[0] == 'x' and not p.get('delimited', True) else 1)
        else:
            n += 1
    return n


async def _scenario(case, rec, res):
    L = libs()
    soup = L['soup']
    kind, phase = case['sess'], case['phase']
    loop = asyncio.get_running_loop()
    delivered = res['delivered'] = []         # (virtual time, number | None)
    cb = res['close_cb'] = []

    def sink(item):
        if item[0] == 'msg':
            delivered.append((loop.time(), number_of(kind, item[1])))

    async def on_msg(m):
        sink(('msg', m))

    async def on_close():
        cb.append(loop.time())

    hb = case.get('hb', HB)
    app = None
    if kind in ('itch', 'ouch', 'sqf'):
        s = soup.SoupClientSession(client_heartbeat_interval=hb, server_heartbeat_interval=hb)
    elif kind == 'soup-client':
        s = soup.SoupClientSession(on_msg_coro=on_msg, on_close_coro=on_close, client_heartbeat_interval=hb, server_heartbeat_interval=hb)
    elif kind == 'soup-server':
        s = L['Server'](client_heartbeat_interval=hb, server_heartbeat_interval=hb)
        s.h_sink = sink
    else:
        s = L['fs'].Fix44Session(on_msg_coro=on_msg, on_close_coro=on_close, client_heartbeat_interval=hb, server_heartbeat_interval=hb)
    res['session'] = s
    has_cb = kind != 'soup-server'
    try:
        pc = probe_cls(s.reader_factory)
        pc.h_rec = rec
        s.reader_factory = pc
    except Exception as e:  # noqa — no reader_factory to instrument: oracle only
        res['no_probe'] = err_name(e)
    tr = res['tr'] = FakeTransport()
    tr.protocol = s
    s.connection_made(tr)
    rec['stop_evt'] = asyncio.Event()
    escapes = res['feed_exceptions'] = []

    def feed(data):
        """the peer's bytes reach `protocol.data_received` (or wait while reading is paused).  The harness plays the transport: an
        exception out of `data_received` is an exception in the event loop's read callback (asyncio logs 'Fatal error:
        protocol.data_received() call failed.' and aborts the connection) — recorded, never propagated into the scenario"""
        try:
            tr.feed(data)
        except Exception as e:  # noqa
            escapes.append(f'{err_name(e)}: {e!r:.100}')
    r = getattr(s, '_reader', None)
    if r is not None and hasattr(r, 'on_msg_coro') and hasattr(r, 'on_close_coro'):
        om, oc = r.on_msg_coro, r.on_close_coro
        depth = [0]

        async def om2(m):
            if rec['on']:
                rec['log'].append(('m', m))
            await om(m)

        async def oc2():
            own = asyncio.current_task() is getattr(r, '_task', None)
            if rec['on'] and own and depth[0] == 0:
                rec['log'].append(('c',))
            depth[0] += 1
            try:
                await oc()
            finally:
                depth[0] -= 1
        r.on_msg_coro, r.on_close_coro = om2, oc2
    pull_task = login_task = None

    async def puller():
        try:
            while True:
                sink(('msg', await s.receive_msg()))
        except asyncio.CancelledError:
            raise
        except Exception:  # noqa — EndOfQueue when the session closes
            return

    # ---- login
    if phase == 'post':
        if kind in ('soup-client', 'itch', 'ouch', 'sqf'):
            t = asyncio.create_task(s.login(soup.LoginRequest('u', 'p', 's', '1')), name='U-login')
        elif kind == 'fix':
            t = asyncio.create_task(s.login(fix_login_msg(case.get('logon', 'L'))), name='U-login')
        else:
            t = None
        for _ in range(3):
            await asyncio.sleep(0)
        feed(valid_frame(kind, 'login', 1) if case.get('logon', 'L') == 'L' else
             HG.fix_good(FIX_VER, fix_fields('HA', 1, 'u', [(7098, 0)])))
        if t is not None:
            await asyncio.wait_for(t, 0.02)
            if kind in ('itch', 'ouch', 'sqf'):
                app = res['app'] = app_libs(kind)['Session'](s, on_msg_coro=on_msg, on_close_coro=on_close)
        else:
            for _ in range(60):
                if tr.writes:
                    break
                await asyncio.sleep(POLL)
            if not tr.writes:
                raise RuntimeError('server session never answered the login request')
            for _ in range(3):
                await asyncio.sleep(0)
    elif phase == 'login':
        # the hostile stream IS what answers the login request: `login()` is pending while it arrives
        if kind == 'fix':
            login_task = asyncio.create_task(s.login(fix_login_msg(case.get('logon', 'L'))), name='U-login')
        else:
            login_task = asyncio.create_task(s.login(soup.LoginRequest('u', 'p', 's', '1')), name='U-login')
        for _ in range(3):
            await asyncio.sleep(0)
    elif kind != 'soup-server':
        pull_task = asyncio.create_task(puller(), name='U-pull')
        await asyncio.sleep(0)
    res['t_start'] = loop.time()
    # ---- the scripted stream
    stream, spans = stream_of(case)
    pos = 0
    for c, gap in list(case['cuts']) + [[len(stream), ['t', 0]]]:
        c = min(c, len(stream))
        if c > pos:
            feed(stream[pos:c])
            pos = c
        if gap[0] == 't':
            for _ in range(gap[1]):
                await asyncio.sleep(0)
        elif gap[0] == 'chase':
            # the peer KEEPS SENDING: go on in the loop turn after the reader step in which `deserialize()` raised / announced the
            # end of the session (the close that follows takes a few loop turns and no time), plus gap[1] turns
            try:
                await asyncio.wait_for(rec['stop_evt'].wait(), CHASE_CAP * POLL)
            except asyncio.TimeoutError:
                pass
            for _ in range(gap[1]):
                await asyncio.sleep(0)
        else:
            await asyncio.sleep(gap[1])
    res['t_fed'] = loop.time()
    # ---- probes: the peer goes on sending numbered valid frames
    n_est = est_frames(case)
    deadline = loop.time() + (n_est + 30) * POLL * 2.5 + 0.003
    res['deadline'] = deadline
    gap, k, seq = 5 * POLL, 0, 1000
    first_ok = None
    probes = res['probes'] = []
    while loop.time() < deadline and not s.is_closed():
        n = 9000 + k
        probes.append(n)
        feed(valid_frame(kind, ('msg', n), seq))
        k += 1
        seq += 1
        await asyncio.sleep(gap)
        gap = min(gap * 1.5, hb / 4)
        got = [x for _, x in delivered if x is not None and x >= 9000]
        if got:
            first_ok = got[0]
            break
    res['first_probe_delivered'] = first_ok
    if first_ok is not None and not s.is_closed():
        # it goes on: two more probes must arrive, in order
        more = [9000 + k, 9001 + k]
        for n in more:
            probes.append(n)
            feed(valid_frame(kind, ('msg', n), seq))
            seq += 1
        t_end = loop.time() + (len(probes) + 20) * POLL * 2.5
        while loop.time() < t_end and not s.is_closed():
            await asyncio.sleep(5 * POLL)
            got = [x for _, x in delivered if x is not None and x >= 9000]
            if got[-2:] == more:
                break
        res['follow_up'] = more
    # ---- verdict data
    if s.is_closed():
        await asyncio.sleep(30 * POLL)           # is_closed() turns true when the close starts: let it complete
    rec['on'] = False
    res['closed_before_final'] = bool(s.is_closed())
    res['paused'] = not tr.is_reading() and not tr.closes
    res['pending_inbound'] = tr.pending_inbound()
    rt = getattr(r, '_task', None)
    res['reader_alive'] = bool(isinstance(rt, asyncio.Task) and not rt.done())
    res['reader_stopped'] = bool(r.is_stopped()) if r is not None and hasattr(r, 'is_stopped') else None
    res['n_tcloses_before_final'] = len(tr.closes)
    res['cb_before_final'] = len(cb)
    try:
        await asyncio.wait_for((app or s).close(), 1.0)
        res['final_close'] = 'ok'
    except asyncio.TimeoutError:
        res['final_close'] = 'blocked for more than 1 s of virtual time'
    except Exception as e:  # noqa
        res['final_close'] = 'raised ' + err_name(e)
    await asyncio.sleep(0.002)
    res['closed'] = bool(s.is_closed())
    res['n_tcloses'] = len(tr.closes)
    res['n_cb'] = len(cb)
    res['has_cb'] = has_cb
    if pull_task is not None and not pull_task.done():
        pull_task.cancel()
        await asyncio.gather(pull_task, return_exceptions=True)
    if login_task is not None:
        if not login_task.done():
            res['login'] = 'pending after close()'
            login_task.cancel()
        r_ = (await asyncio.gather(login_task, return_exceptions=True))[0]
        res.setdefault('login', 'ok' if not isinstance(r_, BaseException) else err_name(r_))
    res['vtime'] = loop.time()


class _FormatAndDrop(logging.Handler):
    """a handler that does what every real handler does first — format the record (`msg % args`, hence `str()` / `repr()` of every
    argument) — and then drops the text.  A formatting failure is swallowed by `logging` itself on a real handler (`handleError`
    prints it to stderr): counted here, never a verdict."""
    def __init__(self):
        super().__init__(logging.DEBUG)
        self.records, self.errors = 0, []

    def emit(self, record):
        self.records += 1
        try:
            record.getMessage()
        except Exception as e:  # noqa
            self.errors.append(f'{record.name}: {record.msg!r:.60}: {err_name(e)}')


class debug_logging:
    """`with debug_logging() as h:` — the library runs with logging ENABLED at DEBUG (the harness disables logging globally,
    `common.use_repo`): code guarded by `isEnabledFor`, lazily formatted arguments and `__str__` / `__repr__` of messages are executed"""
    def __enter__(self):
        self.h = _FormatAndDrop()
        root = logging.getLogger()
        self.level, self.disabled = root.level, logging.root.manager.disable
        root.addHandler(self.h)
        root.setLevel(logging.DEBUG)
        logging.disable(logging.NOTSET)
        return self.h

    def __exit__(self, *a):
        root = logging.getLogger()
        root.removeHandler(self.h)
        root.setLevel(self.level)
        logging.disable(self.disabled)
        return False


def run_case(case):
    """-> res dict (never raises for what the library does)"""
    if case.get('debug_log'):
        with debug_logging() as h:
            res = _run_case(case)
        res['log_records'], res['log_format_errors'] = h.records, h.errors[:3]
        return res
    return _run_case(case)


def _run_case(case):
    rec = {'on': True, 'log': [], 'n_deser': 0, 'max_wall': 0.0}
    res = {'log': rec['log'], 'rec': rec}
    loop = VirtualLoop()
    signal.signal(signal.SIGPROF, _on_alarm)
    signal.setitimer(signal.ITIMER_PROF, CASE_WALL)
    t0 = time.perf_counter()
    try:
        loop.run(_scenario(case, rec, res))
    except ReaderHang as e:
        res['hang'] = str(e)
    except Exception as e:  # noqa
        res['raised'] = f'{err_name(e)}: {e!r:.200}'
    finally:
        signal.setitimer(signal.ITIMER_PROF, 0)
        for pc in _PROBES.values():
            pc.h_rec = None
    res['wall'] = time.perf_counter() - t0
    res['max_wall'] = rec['max_wall']
    me_done = [t for t in loop.tasks_created if t.done() and not t.cancelled() and t.exception() is not None]
    res['task_exceptions'] = [(t.get_name(), err_name(t.exception())) for t in me_done
                              if not t.get_name().startswith('U-') and not isinstance(t.exception(), ReaderHang)
                              and t.get_coro().__qualname__ != '_scenario']
    res['loop_exceptions'] = [str(c.get('message')) + (':' + err_name(c['exception']) if c.get('exception') else '') for c in loop.loop_exceptions]
    signal.setitimer(signal.ITIMER_PROF, CASE_WALL)       # (a loop torn out of a blocked call may not wind down either)
    try:
        loop.shutdown()
    except BaseException:  # noqa
        try:
            loop.close()
        except BaseException:  # noqa
            pass
    finally:
        signal.setitimer(signal.ITIMER_PROF, 0)
    res.pop('session', None)
    res.pop('tr', None)
    res.pop('app', None)
    return res


# ====================================================================== oracle
def oracle(case, res):
    """-> list of violation strings (the statement of C07 evaluated on the implementation's behaviour alone)"""
    out = []
    cls = case['cls']
    if 'raised' in res:
        return [f'SCENARIO-SETUP: {res["raised"]}']
    if 'hang' in res:
        return [f'{cls}: {res["hang"]}' + (f' (longest single deserialize() call: {res["max_wall"]:.2f} s)' if res['max_wall'] > 0.1 else
                                            ' (not inside deserialize(): a task above the reader never gave control back)')]
    if res['max_wall'] > WALL_PER_FRAME:
        out.append(f'{cls}: one deserialize() call blocked the event loop for {res["max_wall"]:.2f} s (CPU time)')
    if res['loop_exceptions']:
        out.append(f'{cls}: exception reached the event loop: {res["loop_exceptions"][0]}')
    if res.get('feed_exceptions'):
        out.append(f'{cls}: exception reached the event loop: protocol.data_received() raised {res["feed_exceptions"][0]} '
                   f'(on a real transport: "Fatal error: protocol.data_received() call failed.")')
    if res['task_exceptions']:
        out.append(f'{cls}: task {res["task_exceptions"][0][0]} died with {res["task_exceptions"][0][1]}')
    if not res['closed_before_final']:
        waited = res['vtime'] and (res['deadline'] - res['t_fed'])
        if case.get('wants') is None:
            if not res['reader_alive']:
                out.append(f'{cls}: session reports open but its reader task is gone: deaf')
        elif res['first_probe_delivered'] is None:
            why = (f' (reading was paused on the transport and never resumed, {res["pending_inbound"]} bytes wait in it)' if res['paused'] else
                   '' if res['reader_alive'] else ' (reader task gone)')
            out.append(f'{cls}: {waited:.4f} s after the hostile frame the session still reports open but none of the {len(res["probes"])} '
                       f'well-formed frames sent since was delivered: deaf while open{why}')
        elif res.get('follow_up'):
            got = [x for _, x in res['delivered'] if x is not None and x >= 9000]
            if got[-2:] != res['follow_up']:
                out.append(f'{cls}: delivery resumed with probe {res["first_probe_delivered"]} but the next two probes {res["follow_up"]} '
                           f'were not delivered in order (delivered probes: {got[-4:]}), session open')
    else:
        if res['n_tcloses_before_final'] < 1:
            out.append(f'{cls}: session closed itself but the transport was not closed')
        if res['has_cb'] and res['cb_before_final'] != 1:
            out.append(f'{cls}: session closed itself, close callback ran {res["cb_before_final"]} times')
    if res['final_close'] != 'ok':
        out.append(f'{cls}: close() after hostile input {res["final_close"]}')
    elif not res['closed']:
        out.append(f'{cls}: close() returned but is_closed() is false')
    else:
        if res['n_tcloses'] != 1:
            out.append(f'{cls}: transport closed {res["n_tcloses"]} times after close()')
        if res['has_cb'] and res['n_cb'] != 1:
            out.append(f'{cls}: close callback ran {res["n_cb"]} times after close()')
    # whatever numbered messages were delivered are the ones sent, in order, each once
    nums = [x for _, x in res['delivered'] if x is not None]
    sent = [p['tok'][1] for p in case['parts'] if p['tok'] != 'bad' and p['tok'] != 'hb'] + res.get('probes', [])
    it = iter(sent)
    for x in nums:
        for y in it:
            if y == x:
                break
        else:
            out.append(f'{cls}: delivered numbered messages {nums[:12]} are not a subsequence of those sent {sent[:12]} (duplicate, reordering or invention)')
            break
    return out


# ====================================================================== correspondence with Model/Framing.lean (driver drv_C03)
class _FixSide:
    name = 'fix'

    @staticmethod
    def canon(m):
        import c03
        return c03.fix_canon_col(type(m).Type, m.as_collection())


def side_of(case):
    import c03
    return c03.SoupSide if case['sess'] != 'fix' else _FixSide


def model_cost(log):
    buf, cost = 0, 0
    for e in log:
        if e[0] == 'd':
            buf += len(e[1])
        elif e[0] == 't':
            cost += buf
    return cost


def correspond(ctx, drv, todo):
    import c03
    if not drv.available or not todo:
        return
    lines, keep = [], []
    for case, res in todo:
        log = res['log']
        if not any(e[0] == 't' for e in log):
            continue
        if model_cost(log) > 4_000_000:
            ctx.count('corr:skipped-heavy')
            continue
        if 'MODEL_BOUNDARY' in case['cls']:
            ctx.count('corr:skipped-model-boundary')
            continue
        lines.append(c03.model_line(side_of(case), log))
        keep.append((case, res))
    try:
        answers = drv.ask(lines)
    except Exception as e:  # noqa
        ctx.disagree(f'model driver (drv_C03) failed: {e!r:.200}', {'kind': 'driver'})
        return
    for (case, res), a in zip(keep, answers):
        side = side_of(case)
        ctx.count('corr:frame.run')
        try:
            pred, final = c03.predicted_log(side, res['log'], a)
            if pred is None:
                ctx.disagree(f'frame.run {side.name} [{case["cls"]}]: {final}', case)
                continue
            obs = c03.observed_log(side, res['log'])
            if pred != obs:
                i = next((i for i, (x, y) in enumerate(zip(pred, obs)) if x != y), min(len(pred), len(obs)))
                ctx.disagree(f'frame.run {side.name} [{case["cls"]}]: event #{i}: model {pred[i][:60] if i < len(pred) else "end"} vs '
                             f'implementation {obs[i][:60] if i < len(obs) else "end"}', case)
            elif final['stopped'] and not res.get('closed_before_final', True):
                ctx.disagree(f'frame.run {side.name} [{case["cls"]}]: the model reader stopped ({final["failed"]}) but the session stayed open', case)
        except Exception as e:  # noqa
            ctx.disagree(f'comparing model and implementation raised {err_name(e)}: {e!r:.100}', case)


# ====================================================================== generation
def gen_cuts(rng, spans, bad_i, zones, total, style):
    """cut positions + what happens after each segment"""
    bs = spans[bad_i][0]
    ends = [e for _, e, _ in spans[:-1]]
    if style == 'chase':
        # the peer keeps sending while the session reacts to the hostile frame: everything up to the end of the hostile frame, then —
        # `k` loop turns after the reader step that parsed it — one further frame per segment, 0..2 loop turns apart, no virtual time
        k = rng.choice([0, 1, 2, 3]) if zones == 'k?' else zones
        be = spans[bad_i][1]
        head = [[bs, rng.choice([['t', 0], ['a', POLL], ['a', 2 * POLL]])]] if bs > 0 and rng.random() < 0.5 else []
        if rng.random() < 0.3 and be - bs > 1:
            head.append([be - 1, rng.choice([['t', 0], ['a', POLL]])])           # the last byte of the hostile frame arrives alone
        tail = [[e, ['t', rng.choice([0, 1, 1, 2])]] for _, e, _ in spans[bad_i + 1:-1]]
        return head + [[be, ['chase', k]]] + tail
    if style == 'whole':
        cuts = []
    elif style == 'per-frame':
        cuts = ends
    elif style == 'zone1':
        cuts = [bs + rng.choice(zones)] if zones else ends
    elif style == 'zone2':
        cuts = [bs + z for z in rng.sample(zones, min(len(zones), 2))] if zones else ends
    elif style == 'frame+zone':
        cuts = [bs] + ([bs + rng.choice(zones)] if zones else [])
    elif style == 'before-last-byte':
        cuts = [spans[bad_i][1] - 1]
    elif style in ('seg64k', 'seg64k-burst'):
        # what a socket does with megabytes: segments of 64 KiB from the start of the big frame / backlog on, the rest per frame
        cuts = list(range(bs + 65536, spans[bad_i][1], 65536)) + [bs, spans[bad_i][1]] + ends
    elif style == 'bytes':
        cuts = list(range(1, total))
    else:
        cuts = [rng.randrange(1, total) for _ in range(rng.randint(1, 4))] if total > 1 else []
    cuts = sorted({c for c in cuts if 0 < c < total})
    g = rng.random() if style != 'seg64k-burst' else 0.0
    if g < 0.35:
        gaps = [['t', 0]] * len(cuts)                      # back to back: the reader sees everything at its next poll
    elif g < 0.7:
        gaps = [['a', POLL * rng.choice([1, 1, 2, 5])] for _ in cuts]
    else:
        gaps = [rng.choice([['t', 0], ['t', rng.randint(1, 3)], ['a', POLL], ['a', 3 * POLL]]) for _ in cuts]
    return [[c, gp] for c, gp in zip(cuts, gaps)]


def build_case(rng, kind, phase, bad, style=None, chase_k=None, logon=None):
    n_pre, n_post = rng.choice([0, 0, 1, 2]), rng.choice([0, 1, 1, 2, 3])
    if style == 'chase':
        n_post = rng.choice([3, 4, 6])
    if phase == 'login':
        n_pre = 0                       # the hostile frame is the first thing the peer says after the login request
    nxt = [1]

    def valid():
        if rng.random() < 0.2:
            return {'tok': 'hb'}
        nxt[0] += 1
        return {'tok': ['msg', nxt[0] - 1]}
    parts = [valid() for _ in range(n_pre)]
    bad_i = len(parts)
    parts.append({'tok': 'bad', 'b': bad['parts'], 'delimited': bad['delimited']})
    parts += [valid() for _ in range(n_post)]
    case = {'kind': 'hostile', 'sess': kind, 'phase': phase, 'cls': bad['cls'], 'wants': bad['wants'], 'parts': parts, 'cuts': []}
    if logon:
        case['logon'] = logon
    stream, spans = stream_of(case)
    total = len(stream)
    if bad['cls'] == 'fix:garbage':
        # unconstrained bytes announce whatever length their digits happen to spell (`…8=950␁…` makes the reader wait for 950 bytes):
        # not a delimited frame — the statement holds such streams to the no-escape / close-still-works clauses and "an open session
        # has a live reader" only
        case['wants'] = None
    elif 'UNDELIMITED_OBSERVATION' in bad['cls']:
        case['wants'] = bad['len']     # the observation is exactly that the reader waits for such an announcement
    elif case['wants'] is not None and case['wants'] > bad['len'] + (total - spans[bad_i][1]) + 400:
        case['wants'] = None           # the announcement cannot be satisfied by what the scenario sends: weak clause only
    if style is None:
        styles = ['whole', 'per-frame', 'zone1', 'zone1', 'zone2', 'frame+zone', 'before-last-byte', 'random']
        if total <= 120:
            styles.append('bytes')
        style = rng.choice(styles)
    case['cuts'] = gen_cuts(rng, spans, bad_i, bad['zones'] if style != 'chase' else ('k?' if chase_k is None else chase_k), total, style)
    case['style'] = style
    return case


def malformed_for(rng, kind, follow_len=120, undelimited=False):
    if kind in ('itch', 'ouch', 'sqf'):
        # the application layer: malformed application payloads inside well-formed SequencedData packets, plus a sample of the
        # soup-level classes (the soup session underneath must still close / go on, and take the application session with it)
        soup_level = HG.soup_malformed(rng, to_client=True)
        return HG.app_malformed(rng) + rng.sample([b for b in soup_level if b['len'] < 5000], 12)
    if kind == 'fix':
        good = fix_fields('N', 7, 'hostile')
        out = HG.fix_malformed(rng, good, FIX_VER, follow_len=follow_len, undelimited=undelimited)
        out += fix_group_classes(rng)
        out += fix_enum_classes(rng)
        out.append(HG.fix_garbage(rng))
        return out
    out = HG.soup_malformed(rng, to_client=(kind == 'soup-client'))
    out.append(HG.soup_garbage(rng))
    return out


def fix_group_classes(rng):
    """repeating-group count that does not match what follows (message type H7: groups A = 7001 x (7002, 7003), B = 7011 x (7012, 7013))"""
    out = []
    head = fix_fields('H7', 9, 'hostile')
    hd = b''.join(str(t).encode() + b'=' + str(v).encode() + HG.SOH for t, v in head)

    def mk(cls, body, trailer=True):
        rest = hd + body
        if trailer:
            f = HG.fix_frame_raw(FIX_VER, str(len(rest)).encode(), rest)
        else:       # the frame ends with the count field: its last 7 bytes are taken for the trailer
            f = HG.fix_frame_raw(FIX_VER, str(len(rest) - 7).encode(), rest, trailer=False)
        return HG._mk(cls, f, [len(f) - 8, len(f) - 1, len(f) - len(body)], delimited=True)
    S = HG.SOH
    inst = lambda k: b''.join(b'7002=%d' % i + S + b'7003=x' + S for i in range(k))
    for cnt in (1, 2, 1000, 10**6, 10**9):
        c = b'7001=%d' % cnt + S
        out.append(mk(f'fix:group-count:{cnt}:then-foreign-tag', c + b'99=1' + S))
        out.append(mk(f'fix:group-count:{cnt}:then-trailer', c))
        out.append(mk(f'fix:group-count:{cnt}:end-of-frame', c, trailer=False))
        out.append(mk(f'fix:group-count:{cnt}:then-other-group-members', c + b'7012=1' + S + b'7013=y' + S))
        out.append(mk(f'fix:group-count:{cnt}:then-other-group', c + b'7011=1' + S + b'7012=1' + S))
    out.append(mk('fix:group-count:0:then-members', b'7001=0' + S + inst(2)))
    out.append(mk('fix:group-count:negative:then-members', b'7001=-1' + S + inst(1)))
    out.append(mk('fix:group-count:negative:alone', b'7001=-5' + S))
    out.append(mk('fix:group-count:too-small', b'7001=1' + S + inst(3)))
    out.append(mk('fix:group-count:too-large', b'7001=3' + S + inst(2)))
    out.append(mk('fix:group-count:nonnumeric', b'7001=two' + S + inst(2)))
    out.append(mk('fix:group-count:right', b'7001=2' + S + inst(2) + b'7011=1' + S + b'7012=5' + S))       # a well-formed one for contrast
    out.append(mk('fix:group-member-without-count', inst(1)))
    return out


def fix_enum_classes(rng):
    """well-formed frames over the dictionary WITH enumeration tables (message type H8, logon type HA): every enumerated field in and
    out of its enumeration — string, int, char, inside a repeating group, in the header —, spellings `int()` maps into / out of the
    table, empty values, fields with an empty / absent table for contrast.  The decoder does not check enumerations: each of these
    frames decodes; anything the session does with the decoded message afterwards (logging it, dispatching it) must cope."""
    out = []

    def mk(cls, ty, body, hdr=()):
        fl = fix_fields(ty, 9)
        fl = fl[:5] + list(hdr) + [(553, 'hostile')] + list(body)
        f = HG.fix_good(FIX_VER, fl)
        return HG._mk(cls, f, [len(f) - 8, len(f) - 1, len(f) // 2], delimited=True)
    legs = lambda a, b: [(7071, 2), (7072, a), (7073, 5), (7072, b), (7073, 6)]
    out.append(mk('fix:enum:in-enumeration', 'H8', [(7054, rng.choice('125')), (7098, rng.choice([0, 1, 2])), (7040, rng.choice('12P')),
                                                   (7059, 'x'), (7060, 5)] + legs('B', 'S'), [(7143, rng.choice('YN'))]))
    for what, body, hdr in (('string', [(7054, rng.choice(['7', '0', 'BUY', '11', 'x']))], ()),
                            ('int', [(7098, rng.choice([9, 3, -1, 100, 10 ** 12]))], ()),
                            ('char', [(7040, rng.choice(['Z', 'p', '3', '12']))], ()),
                            ('in-group', legs('B', rng.choice(['X', 'b', '1'])), ()),
                            ('in-group-first', legs(rng.choice(['X', '']), 'S'), ()),
                            ('in-header', [(7054, '1')], [(7143, rng.choice(['Q', 'y', 'YES']))]),
                            ('empty-value', [(rng.choice([7054, 7040]), '')], ()),
                            ('padded', [(7054, rng.choice([' 1', '1 ', '01']))], ()),
                            ('several', [(7054, '9'), (7098, 9), (7040, '9')] + legs('9', '9'), [(7143, '9')])):
        out.append(mk('fix:enum:out-of-enumeration:' + what, 'H8', body, hdr))
    for sp in ('01', '+1', ' 2', '1_0', '-0'):            # what int() turns into a member / a non-member of the int enumeration
        out.append(mk('fix:enum:int-spelling', 'H8', [(7098, sp)]))
    out.append(mk('fix:enum:empty-or-absent-table', 'H8', [(7059, rng.choice(['', 'anything', '7'])), (7060, rng.choice([7, -1, 0]))]))
    # the logon message of that dictionary, as the counterparty's reply: enumerated field inside / outside / absent
    out.append(mk('fix:enum-logon:in-enumeration', 'HA', [(7098, rng.choice([0, 1, 2]))]))
    out.append(mk('fix:enum-logon:out-of-enumeration', 'HA', [(7098, rng.choice([9, 3, 7, -1]))]))
    out.append(mk('fix:enum-logon:out-of-enumeration-string', 'HA', [(7098, 0), (7054, rng.choice(['7', 'x']))]))
    out.append(mk('fix:enum-logon:field-absent', 'HA', []))
    out.append(mk('fix:enum-logon:unknown-tag', 'HA', [(7098, 0), (99999, 'x')]))
    return out


LOGIN_KINDS = [('soup-client', 'login'), ('fix', 'login')]


def gen_cases(ctx, quick):
    """yield hostile cases: every class x (session kind, phase), segmentation drawn per case; a few expensive ones per run"""
    rng = ctx.rng
    per_class = 1 if quick else 20
    # ---- the hostile frame answers the login request (login() pending), over the suite's dictionary and over the one with enumerations
    for kind, phase in LOGIN_KINDS:
        classes = [b for b in malformed_for(rng, kind) if b['len'] < 5000 and 'MODEL_BOUNDARY' not in b['cls']]
        enum_logon = [b for b in classes if b['cls'].startswith('fix:enum')]
        rest = [b for b in classes if not b['cls'].startswith('fix:enum')]
        for bad in enum_logon + (rng.sample(rest, min(len(rest), 25)) if quick else rest):
            for _ in range(1 if quick else 6):
                logon = None if kind != 'fix' else ('HA' if bad['cls'].startswith('fix:enum') or rng.random() < 0.3 else None)
                yield build_case(rng, kind, phase, bad, logon=logon)
    # ---- the peer keeps sending while the session reacts to the hostile frame: a further segment 0, 1, 2, 3 loop turns after the
    # reader step that parsed it, then one frame per turn (client before login with a receive pending, server before login, after
    # login, login pending, application sessions)
    for kind, phase in KINDS + APP_KINDS + LOGIN_KINDS:
        classes = [b for b in malformed_for(rng, kind) if b['len'] < 5000 and b['delimited'] and 'MODEL_BOUNDARY' not in b['cls']]
        for k in (0, 1, 2, 3):
            for bad in (rng.sample(classes, min(len(classes), 3)) if quick else classes):
                yield build_case(rng, kind, phase, bad, 'chase', chase_k=k)
    for kind, phase in KINDS + APP_KINDS:
        classes = malformed_for(rng, kind, undelimited=UNDELIMITED_OBSERVATION)
        small = [b for b in classes if b['len'] < 5000 or 'MODEL_BOUNDARY' in b['cls']]
        big = [b for b in classes if b['len'] >= 5000 and 'MODEL_BOUNDARY' not in b['cls']]
        for bad in small:
            for _ in range(per_class):
                yield build_case(rng, kind, phase, bad)
        if kind in ('itch', 'ouch', 'sqf'):
            continue
        # maximum-size frames: the cuts that matter are after the length field, in the middle, before the last byte, and none
        for bad in (rng.sample(big, min(len(big), 6)) if quick else big):
            for style in (rng.sample(['whole', 'zone1', 'before-last-byte', 'frame+zone'], 2) if quick else
                          ['whole', 'zone1', 'zone1', 'zone2', 'before-last-byte', 'frame+zone', 'random']):
                yield build_case(rng, kind, phase, bad, style)
        # legal maximum-size data frames, cut before the last byte / after the length field
        for n in (rng.sample(HG.BIG_LENGTHS, 2) if quick else HG.BIG_LENGTHS):
            if kind == 'fix':
                bad = HG.fix_big_valid(rng, FIX_VER, fix_fields('N', 7), 553, rng.choice([n, 70000, 65536 - 60, 66000]))
            else:
                bad = HG.soup_valid_big(rng, ord('S') if kind == 'soup-client' else ord('U'), n)
            for style in (['before-last-byte', rng.choice(['whole', 'zone1', 'zone2'])] if quick else
                          ['whole', 'zone1', 'zone2', 'before-last-byte', 'frame+zone', 'random']):
                yield build_case(rng, kind, phase, bad, style)
    # ---- megabytes: ONE length-consistent FIX frame larger than any plausible bound on a receive buffer (known / unknown MsgType),
    # and a multi-megabyte backlog of maximum-size soup data packets, arriving in 64 KiB segments with / without a reader poll in
    # between (a reader that bounds what it buffers meets its bound here; whatever it does then, the session must close or go on
    # delivering the probes).  0.02 - 0.4 s each: three per quick run, the full product in the thorough tier
    yield from huge_cases(rng, quick)
    # heartbeat-only bursts of more than 64 KiB (legal traffic): expensive (one poll per heartbeat), a few per run
    combos = KINDS if not quick else rng.sample(KINDS[::2], 2) + rng.sample(KINDS[1::2], 1)
    for kind, phase in combos:
        total = rng.choice([66000, 70000, 131072 + 10])
        if kind == 'fix':
            bad = HG.fix_hb_burst(rng, FIX_VER, fix_fields('0', 5), total)
        else:
            bad = HG.soup_hb_burst(rng, kind == 'soup-client', total)
        yield build_case(rng, kind, phase, bad, rng.choice(['whole', 'random', 'per-frame']))


def huge_case(rng, kind, phase, total, style, known=True):
    if kind == 'fix':
        bad = HG.fix_huge(rng, FIX_VER, fix_fields('N' if known else rng.choice(['ZQ', 'zz9', '~']), 7), 553, total, known)
    else:
        bad = HG.soup_backlog(rng, ord('S') if kind == 'soup-client' else ord('U'), total)
    case = build_case(rng, kind, phase, bad, style)
    case['heavy'] = True          # (never run with logging at DEBUG: every `on_data` would format megabytes)
    return case


def huge_cases(rng, quick):
    fixk = [k for k in KINDS if k[0] == 'fix']
    soupk = [k for k in KINDS if k[0] != 'fix']
    if quick:
        yield huge_case(rng, *rng.choice(fixk), rng.choice(HG.HUGE_SIZES_QUICK), rng.choice(['seg64k', 'seg64k-burst']), known=False)
        yield huge_case(rng, *rng.choice(fixk), rng.choice(HG.HUGE_SIZES_QUICK), rng.choice(['seg64k', 'seg64k-burst', 'whole']), known=True)
        yield huge_case(rng, *rng.choice(soupk), rng.choice(HG.HUGE_SIZES_QUICK), 'seg64k-burst')
        return
    for total in HG.HUGE_SIZES:
        for kind, phase in fixk:
            for known in (False, True):
                for style in ('seg64k', 'seg64k-burst', 'whole', 'before-last-byte'):
                    yield huge_case(rng, kind, phase, total, style, known)
        for kind, phase in soupk:
            for style in ('seg64k-burst', 'seg64k', 'whole'):
                yield huge_case(rng, kind, phase, total, style)


# ====================================================================== shrinking, entry points
def shrink(case, key):
    """greedy: drop valid frames around the bad one, drop cuts, plain gaps"""
    def fails(c):
        try:
            return any(v.split(':', 3)[-1][:30] == key for v in oracle(c, run_case(c)))
        except Exception:  # noqa
            return False
    cur = case
    changed, budget = True, 25
    while changed and budget > 0:
        changed = False
        for i, p in enumerate(cur['parts']):
            if p['tok'] == 'bad':
                continue
            st, spans = stream_of(cur)
            a, b, _ = spans[i]
            cuts = [[(c if c <= a else max(a, c - (b - a))), g] for c, g in cur['cuts']]
            c2 = dict(cur, parts=cur['parts'][:i] + cur['parts'][i + 1:], cuts=cuts)
            budget -= 1
            if fails(c2):
                cur, changed = c2, True
                break
        if changed or budget <= 0:
            continue
        for i in range(len(cur['cuts'])):
            c2 = dict(cur, cuts=cur['cuts'][:i] + cur['cuts'][i + 1:])
            budget -= 1
            if fails(c2):
                cur, changed = c2, True
                break
    return cur


def corpus_cases():
    cdir = os.path.join(VERIF, 'corpus', 'C07')
    out = []
    if os.path.isdir(cdir):
        for fn in sorted(os.listdir(cdir)):
            if fn.endswith('.json'):
                c = json.load(open(os.path.join(cdir, fn)))
                c = c.get('replay', c)
                if c.get('kind') == 'hostile':
                    out.append((fn, c))
    return out


def describe(case):
    return {'sess': case['sess'], 'phase': case['phase'], 'cls': case['cls'], 'style': case.get('style'), 'logon': case.get('logon'),
            'log': bool(case.get('debug_log')), 'parts': [p['tok'] for p in case['parts']], 'cuts': case['cuts'][:8]}


def family_of(cls):
    """cases that block the loop for seconds are not repeated: one family = the classes that exercise the same mechanism"""
    if cls.startswith('fix:group-count:'):
        n = cls.split(':')[2]
        return 'fix:group-count:large' if n.isdigit() and int(n) >= 1000 else 'fix:group-count:' + n
    return cls


def run_hostile(ctx):
    quick = ctx.tier == 'quick'
    drv = common.Driver('drv_C03')
    ctx.cov['rule'] += ('; byte level (sess_hostile): valid frames + one malformed/extreme frame (class x packet type, hostile_gen) + valid frames '
                        'x segmentation x {soup client, soup server, FIX} x {before, after login}, fed through a transport with flow control, '
                        'followed by numbered probe frames; oracle on the implementation, reader event log replayed through Model/Framing.lean')
    todo, shrunk, blocked, hangs = [], [0], set(), {}
    t_start = time.time()
    # the session family that ran before leaves hundreds of thousands of objects in reference cycles (loops, tasks, frames): collect them
    # here, not in the middle of a scenario whose CPU time is limited (a full collection of that heap takes seconds)
    gc.collect()

    def do(case, tag):
        fam = family_of(case['cls'])
        if fam in blocked or hangs.get(case['sess'], 0) >= 2:
            ctx.count('hostile:skipped-after-block:' + fam)       # (every further case would cost CASE_WALL seconds again)
            return
        res = run_case(case)
        if 'hang' in res or res.get('max_wall', 0) > WALL_PER_FRAME:
            # CPU time of this process also grows with what the machine does on its behalf (page faults under memory pressure on a
            # loaded box): a blocked loop must be repeatable to count
            res2 = run_case(case)
            if 'hang' not in res2 and res2.get('max_wall', 0) <= WALL_PER_FRAME:
                ctx.count('hostile:cpu-time-overrun-not-repeatable (machine load, not a verdict)')
                res = res2
        ctx.case(describe(case), nontrivial=True, sample_every=211)
        ctx.count(f'hostile:{case["sess"]}:{case["phase"]}')
        if case.get('debug_log'):
            ctx.count('hostile:logging-enabled-at-DEBUG')
            ctx.cov['log_records_formatted'] = ctx.cov.get('log_records_formatted', 0) + res.get('log_records', 0)
            for e in res.get('log_format_errors', []):
                ctx.count('hostile:log-call-whose-formatting-raised (swallowed by logging, not a verdict)')
                if len(ctx.notes) < 40:
                    ctx.notes.append('log call whose formatting raised: ' + e)
        if any(g[0] == 'chase' for _, g in case['cuts']):
            ctx.count('hostile:peer-keeps-sending:' + ('reader-stopped' if res.get('rec', {}).get('stop_evt') is not None
                                                         and res['rec']['stop_evt'].is_set() else 'reader-went-on'))
        ctx.count('hostile-class:' + ':'.join(case['cls'].split(':')[:3 if case['cls'].startswith(('fix:group-count:', 'soup:big:')) else 2]))
        ctx.count('hostile-style:' + str(case.get('style', tag)))
        ctx.count('hostile-outcome:' + ('hang' if 'hang' in res else 'setup-failed' if 'raised' in res else
                                         'closed' if res.get('closed_before_final') else 'open-delivering' if res.get('first_probe_delivered') else 'open'))
        v = oracle(case, res)
        setup = [x for x in v if x.startswith('SCENARIO-SETUP')]
        if setup:
            ctx.disagree(f'hostile scenario could not be set up on this tree ({case["sess"]}/{case["phase"]}): {setup[0]}', case)
            return
        if v:
            rep = case
            if 'hang' in res or res['max_wall'] > WALL_PER_FRAME:
                blocked.add(fam)           # every further case of the family would block the loop again
                hangs[case['sess']] = hangs.get(case['sess'], 0) + 1
            elif shrunk[0] < 3:
                shrunk[0] += 1
                rep = shrink(case, v[0].split(':', 3)[-1][:30])
            ctx.violation(v[0], dict(rep, what=v))
        if case.get('heavy'):
            ctx.count('corr:skipped-heavy')            # (megabytes of reader log: not kept for the model, oracle only)
            res.pop('log', None)
            res.get('rec', {}).pop('log', None)
        elif 'hang' not in res:
            todo.append((case, res))
        if len(todo) >= 400:
            correspond(ctx, drv, todo)
            del todo[:]
            gc.collect()

    for fn, c in corpus_cases():
        do(c, 'corpus')
    for case in gen_cases(ctx, quick):
        # a share of the (small) scenarios runs with logging enabled at DEBUG; every scenario over the dictionary with enumerations
        # runs both ways
        small = (not case.get('heavy')
                 and sum((q[2] if q[0] != 'x' else len(q[1]) // 2) for p_ in case['parts'] if p_['tok'] == 'bad' for q in p_['b']) < 3000)
        if small and case['cls'].startswith('fix:enum'):
            do(dict(case, debug_log=True), 'gen')
        elif small and ctx.rng.random() < 0.12:
            case = dict(case, debug_log=True)
        do(case, 'gen')
    correspond(ctx, drv, todo)
    if not drv.available:
        ctx.notes.append('drv_C03 unavailable: hostile streams checked by the oracle only')
    ctx.notes.append('C07 byte level: the reader-level model (Model/Framing.lean) has no notion of transport flow control; pause_reading/'
                     'resume_reading behaviour is checked by the oracle only (FakeTransport.feed queues bytes while reading is paused)')
    ctx.cov['hostile_wall_s'] = round(time.time() - t_start, 1)


def replay_hostile(ctx, rep):
    case = rep
    ctx.cov['rule'] = 'replay of a hostile-stream scenario'
    ctx.case(describe(case))
    ctx.case('replay-marker')
    res = run_case(case)
    stream, spans = stream_of(case)
    print('session  :', case['sess'], case['phase'], ' class:', case['cls'])
    print('stream   :', [(a, b, t) for a, b, t in spans], 'cuts:', case['cuts'])
    print('bad frame:', HG.expand(case['parts'][[p['tok'] for p in case['parts']].index('bad')]['b'])[:120])
    print('result   :', {k: v for k, v in res.items() if k not in ('log', 'rec', 'delivered')})
    print('delivered:', [x for _, x in res.get('delivered', [])][:30])
    for v in oracle(case, res):
        print('ORACLE   :', v)
        ctx.violation(v, dict(case, what=[v]))
    drv = common.Driver('drv_C03')
    if 'hang' not in res:
        correspond(ctx, drv, [(case, res)])
