"""C20 — the synchronous facade always returns or raises; its thread always ends.

Parent side (`run`, `replay`): configurations (1..3 caller threads x programs over {recv, send, sendUnseq, close, logout,
execTimed} x peer events {reply, eos, disc}) are drawn from ctx.rng; for each one the Lean model (drv_C20) produces
pseudo-random *maximal* interleavings (`sync.gen`) and the state it predicts after every step (`sync.run`).
Worker side (`python c20.py --worker`, one subprocess per batch with a hard timeout): every interleaving is *forced* on the
real classes — `soup.connect` against a loopback soup server of the library, every caller thread and the executor's loop
thread are held at gates placed (from outside, nothing in /repo is edited) at exactly the statements the model's program
counters name: `_must_be_active`, `run_coroutine_threadsafe`, `future.result`, `close_lock` enter/exit,
`closed_event.is_set/wait/set`, `SyncExecutor.stop/join`, `AsyncSession.close` entry, the injected `on_close_coro`, the
`loop.stop` callback (a `_wait_for` that polls `future.result` in slices passes the `wait` gate once).  After each step the observable state (where each thread stands, job states, lock owner, event, stop
requested, thread alive, is_closed, queue size) is compared with the model (correspondence); independently the oracle
checks the property statement on what the implementation did: every call returned or raised, the thread has exited and
the session reports closed when close/logout returns, later calls raise StateError.

Executor-level calls (`run_exec`, scenarios of type `exec`): `SyncExecutor.execute` / `execute_sync` with a coroutine /
callable that itself RAISES (TimeoutError under all its aliases, subclasses of it, CancelledError, StateError, EndOfQueue,
ValueError, other Exceptions, BaseException subclasses) or returns, with and without a caller-side timeout.  The future
handed to `_wait_for` is scripted from outside: each `result(timeout)` poll (one pass of the slice loop) is made to
complete within the slice / expire / expire with the future completing between the expiry and the `done()` check / find
the executor stopped — so the coroutine ends at every phase relative to the slices, deterministically; further scenarios
run in real time (`asyncio.wait_for`, `asyncio.timeout`, a bounded `receive_msg` on a connected session whose peer stays
silent, `stop()` from another thread).  Correspondence: outcome class, identity of the exception and number of polls
against `execute` / `executeSync` / `passesUsed` of the model (`sync.exec`); oracle: the call came back within the
watchdog and with the coroutine's result, the underlying error, or a timeout / state error; a call WITHOUT a timeout whose
coroutine returned a value returns it, and raises a TimeoutError only if the coroutine itself ended with one.

OS scheduling and fairness are not modelled: the harness *is* the scheduler, the model allows every interleaving.
"""
import json
import os
import select
import subprocess
import sys
import threading
import time

HERE = os.path.dirname(os.path.abspath(__file__))
DRIVER = 'drv_C20'
OPS = ['recv', 'send', 'sendUnseq', 'close', 'logout', 'execTimed']
PEER = ['reply', 'eos', 'disc']

# Library fixes 86c1975 / 1753c2b / 564383d repaired submit-after-stop, the close_lock deadlock and send_unseq_data after
# close: their interleavings are regressions now (Witness theorems + corpus/C20, must pass).  What remains of the queue's
# single `_recv_task` slot cannot block for ever any more on the repaired tree (the forgotten receiver gets StateError once
# the thread has exited); the entry stays for trees without 1753c2b.
KNOWN_LOCAL = []      # nothing pending: C20-concurrent-receive cannot block for ever since /repo 1753c2b (recorded as `fixed`)


# =====================================================================================================================
#  worker: forces one interleaving on the real classes
# =====================================================================================================================
class Gates:
    """where every controlled thread stands; threads park at named gates until the scheduler lets them go"""

    def __init__(self):
        self.cv = threading.Condition()
        self.free = False
        self.where = {}      # tid -> [seq, name, parked]
        self.go = {}         # tid -> highest seq allowed to pass
        self.aev = {}        # tid -> (seq, asyncio.Event) for asynchronous parks on the loop thread
        self.done = {}       # tid -> True when the thread has finished

    def _arrive(self, tid, name, parked):
        seq = self.where.get(tid, [0, None, False])[0] + 1
        self.where[tid] = [seq, name, parked]
        self.cv.notify_all()
        return seq

    def park(self, tid, name):
        """blocking gate (caller threads; the loop thread only inside on_close_coro, where it runs nothing else anyway)"""
        with self.cv:
            seq = self._arrive(tid, name, True)
            while not self.free and self.go.get(tid, 0) < seq:
                self.cv.wait()
            self.where[tid][2] = False

    def mark(self, tid, name):
        with self.cv:
            self._arrive(tid, name, False)

    async def apark(self, tid, name):
        """asynchronous gate: the coroutine waits, the loop stays free"""
        import asyncio
        with self.cv:
            if self.free:
                self._arrive(tid, name, False)
                return
            seq = self._arrive(tid, name, True)
            ev = asyncio.Event()
            self.aev[tid] = (seq, ev)
        await ev.wait()
        with self.cv:
            if self.where[tid][0] == seq:
                self.where[tid][2] = False

    def finished(self, tid):
        with self.cv:
            self.done[tid] = True
            self.cv.notify_all()

    def position(self, tid):
        with self.cv:
            if self.done.get(tid):
                return 'end'
            w = self.where.get(tid)
            return w[1] if w else None

    def advance(self, tid, loop=None, timeout=2.0):
        """let `tid` pass its current gate; wait until it parks again / finishes.  Returns the new position or None"""
        with self.cv:
            w = self.where.get(tid)
            if w is None or self.done.get(tid):
                return None
            seq = w[0]
            a = self.aev.get(tid)
            if a and a[0] == seq:
                loop.call_soon_threadsafe(a[1].set)
            else:
                self.go[tid] = seq
                self.cv.notify_all()
            end = time.time() + timeout
            while True:
                w = self.where[tid]
                if self.done.get(tid):
                    return 'end'
                if w[0] > seq and (w[2] or w[1] in ('done',)):
                    return w[1]
                left = end - time.time()
                if left <= 0:
                    return None
                self.cv.wait(left)

    def open_all(self, loop, loop_free):
        """free run.  Coroutines already handed to the loop run first (asyncio's ready queue is FIFO: holding them at their
        gate while the close procedure is released would be a schedule the real loop cannot produce)"""
        if loop_free:
            for j in list(W.jobs.values()):
                if not j['released']:
                    j['released'] = True
                    try:
                        loop.call_soon_threadsafe(j['ev'].set)
                    except RuntimeError:
                        pass
            loop_sync()
        with self.cv:
            self.free = True
            self.cv.notify_all()
            evs = [a[1] for a in self.aev.values()]
        if loop_free:
            for ev in evs:
                try:
                    loop.call_soon_threadsafe(ev.set)
                except RuntimeError:
                    pass


class W:
    """worker-global instrumentation state (class-level patches are installed once; the targets change per scenario)"""
    gates = None
    bridge = None        # SyncExecutor of the scenario
    sess = None          # SoupClientSessionSync
    loop_thread = None
    tids = {}            # threading.Thread -> caller index
    jobs = {}            # caller index -> dict(ev, fut, kind, released, started)
    stop_called = False
    event_at_stop = None
    stop_released = False
    facts = {}           # caller index -> dict of samples used to classify a hang
    close_released = None
    lock = None
    orig = {}
    exec_ctl = None      # ExecCtl of the running `exec` scenario
    exec_hangs = 0       # exec scenarios of this worker that ended at the watchdog


def cur_tid():
    t = threading.current_thread()
    if t is W.loop_thread:
        return 'L'
    return W.tids.get(t)


def outcome_of(exc):
    n = type(exc).__name__
    return {'EndOfQueue': 'eoq', 'StateError': 'state', 'CancelledError': 'cancelled', 'TimeoutError': 'timeout'}.get(n, 'other:' + n)


class GatedLock:
    def __init__(self):
        self.real = threading.RLock()
        self.owner = None

    def __enter__(self):
        tid = cur_tid()
        if tid is not None:
            W.gates.park(tid, 'wantLock' if tid == 'L' else 'acq')
        self.real.acquire()
        self.owner = tid
        return self

    def __exit__(self, et, ev, tb):
        tid = cur_tid()
        if tid is not None:
            W.gates.park(tid, 'eventSet' if tid == 'L' else ('relExc' if et is not None else 'rel'))
        self.owner = None
        self.real.release()
        return False

    acquire = lambda self, *a, **k: self.__enter__() and True
    release = lambda self: self.__exit__(None, None, None)


class GatedEvent:
    def __init__(self):
        self.real = threading.Event()

    def is_set(self):
        tid = cur_tid()
        if tid is not None:
            W.gates.park(tid, 'inCb' if tid == 'L' else 'chkEvt')
        return self.real.is_set()

    def set(self):
        tid = cur_tid()
        if tid is not None:
            W.gates.park(tid, 'stopCalled' if tid == 'L' else 'set?')
        self.real.set()

    def wait(self, timeout=None):
        tid = cur_tid()
        if tid is not None:
            W.gates.park(tid, 'waitEvt')
        return self.real.wait(timeout)


class FutureProxy:
    """the future returned to `execute`; the gate `wait` is the first `result()` call (an implementation that polls
    `result(timeout)` in slices passes the gate once)"""

    def __init__(self, fut, tid):
        self.fut, self.tid, self.gated = fut, tid, False

    def _mark(self):
        j = W.jobs.get(self.tid)
        if j is not None and j['fut'] is self.fut:
            j['consumed'] = True

    def result(self, timeout=None):
        if not self.gated:
            self.gated = True
            W.gates.park(self.tid, 'wait')
        try:
            return self.fut.result(timeout=timeout)
        finally:
            if self.fut.done():
                self._mark()

    def cancel(self):
        self._mark()
        return self.fut.cancel()

    def __getattr__(self, n):
        return getattr(self.fut, n)


def install_patches():
    import asyncio
    from nasdaq_protocols.common.sync_executor import SyncExecutor
    from nasdaq_protocols.common.session import AsyncSession
    if W.orig:
        return
    W.orig['mba'] = SyncExecutor._must_be_active
    W.orig['stop'] = SyncExecutor.stop
    W.orig['join'] = SyncExecutor.join
    W.orig['rcts'] = asyncio.run_coroutine_threadsafe
    W.orig['close'] = AsyncSession.close

    def mba(self):
        ctl = W.exec_ctl
        if ctl is not None and self is ctl.bridge and threading.current_thread() is ctl.caller:
            # executor-level scenario: the executor may be stopped right behind the k-th activity check of the call
            ctl.checks += 1
            r = W.orig['mba'](self)
            if ctl.stop_after_check == ctl.checks:
                ctl.stop()
            return r
        tid = cur_tid()
        if self is W.bridge and tid is not None and tid != 'L':
            caller = sys._getframe(1).f_code.co_name
            W.gates.park(tid, 'chk1' if caller == 'execute_sync' else 'chk2')
            alive = self._thread.is_alive()
            try:
                r = W.orig['mba'](self)
            except BaseException:
                W.facts[tid]['last_check'] = ('raised', alive)
                raise
            W.facts[tid]['last_check'] = ('passed', alive)
            return r
        return W.orig['mba'](self)

    def stop(self, join=True):
        if self is W.bridge:
            W.stop_called = True
            W.event_at_stop = W.sess.closed_event.real.is_set() if isinstance(W.sess.closed_event, GatedEvent) else None
        return W.orig['stop'](self, join)

    def join(self):
        tid = cur_tid()
        if self is W.bridge and tid is not None and tid != 'L':
            W.gates.park(tid, 'join')
        return W.orig['join'](self)

    def rcts(coro, loop):
        ctl = W.exec_ctl
        if ctl is not None and loop is ctl.loop and threading.current_thread() is ctl.caller:
            return ctl.submit(coro, loop)
        tid = cur_tid()
        if tid is None or tid == 'L' or W.bridge is None or loop is not W.bridge._event_loop:
            return W.orig['rcts'](coro, loop)
        W.gates.park(tid, 'submit')
        ev = asyncio.Event()
        job = {'ev': ev, 'released': False, 'started': False, 'consumed': False,
               'kind': coro.cr_code.co_name if hasattr(coro, 'cr_code') else '?'}
        W.facts[tid]['closed_at_submit'] = W.sess.session.is_closed()
        W.facts[tid]['alive_at_submit'] = W.bridge._thread.is_alive()

        async def gated():
            if not W.gates.free:
                await ev.wait()
            job['started'] = True
            return await coro
        job['fut'] = W.orig['rcts'](gated(), loop)
        W.jobs[tid] = job
        return FutureProxy(job['fut'], tid)

    async def close(self):
        if W.sess is not None and self is W.sess.session and W.close_released is not None:
            if not W.close_released.is_set() and not W.gates.free:
                if W.gates.position('L') in (None, 'idle'):
                    W.gates.mark('L', 'spawned')
                await W.close_released.wait()
        return await W.orig['close'](self)

    SyncExecutor._must_be_active = mba
    SyncExecutor.stop = stop
    SyncExecutor.join = join
    asyncio.run_coroutine_threadsafe = rcts
    AsyncSession.close = close


class Server:
    """a loopback soup server of the library (SoupServerSession subclass) in its own loop thread"""

    def __init__(self):
        import asyncio
        import socket
        from nasdaq_protocols import soup, common
        self.soup = soup
        self.loop = asyncio.new_event_loop()
        self.thread = threading.Thread(target=self.loop.run_forever, daemon=True, name='c20-server')
        self.thread.start()
        self.sessions = []
        self.mode = 'accept'
        outer = self

        class Srv(soup.SoupServerSession):
            async def on_login(self, msg):
                if outer.mode == 'reject':
                    return soup.LoginRejected(soup.LoginRejectReason.NOT_AUTHORIZED)
                if outer.mode == 'drop':
                    self._transport.abort()
                    raise RuntimeError('drop')
                if outer.mode == 'accept-then-drop':
                    # the acceptance goes out, then the peer ends the connection a moment later
                    asyncio.get_running_loop().call_later(0.03, lambda: self._transport.abort() if self._transport else None)
                return soup.LoginAccepted('sess', 1)

            async def on_unsequenced(self, msg):
                pass

        s = socket.socket()
        s.bind(('127.0.0.1', 0))
        self.port = s.getsockname()[1]
        s.close()

        def factory():
            x = Srv(client_heartbeat_interval=1000, server_heartbeat_interval=1000)
            self.sessions.append(x)
            return x
        fut = W.orig['rcts'](common.start_server(('127.0.0.1', self.port), factory), self.loop)
        self.server, self.task = fut.result(10)

    def call(self, f, *a):
        async def _():
            return f(*a)
        try:
            return W.orig['rcts'](_(), self.loop).result(5)
        except Exception:  # noqa  (the peer may already be gone: a dropped event)
            return None

    def do(self, ev):
        s = self.sessions[-1]
        if ev == 'reply':
            self.call(s.send_seq_msg, b'x')
        elif ev == 'eos':
            self.call(s.end_session)
        elif ev == 'disc':
            self.call(lambda: s._transport.abort() if s._transport else None)


def loop_sync(n=8, timeout=1.0):
    """n round trips through the executor's loop: everything that was runnable has run"""
    async def noop():
        return None
    try:
        for _ in range(n):
            W.orig['rcts'](noop(), W.bridge._event_loop).result(timeout)
        return True
    except Exception:  # noqa
        return False


def qsize():
    try:
        return W.sess.session._msg_queue._msg_queue.qsize()
    except Exception:  # noqa  (private attribute gone after a refactor: weaker tie, not an alarm)
        return '?'


def job_state(tid):
    j = W.jobs.get(tid)
    if j is None or j['consumed']:
        return '-'
    if not j['released']:
        return 'sub'
    f = j['fut']
    if f.done():
        if f.cancelled():
            return 'done:cancelled'
        e = f.exception()
        if e is not None:
            return 'done:' + outcome_of(e)
        return 'done:ok' if f.result() is None else 'done:msg'
    return 'blocked' if j['kind'] == 'receive_msg' else 'running'


def real_summary(n, hist_len, peer_left):
    g = W.gates
    parts = []
    for i in range(n):
        pos = g.position(i)
        parts.append(f"{pos}/{job_state(i)}/{hist_len[i]}")
    cpc = g.position('L') or 'idle'
    owner = W.lock.owner
    lock = '-' if owner is None else ('loop' if owner == 'L' else f'T{owner}')
    q = qsize()
    b = lambda x: '1' if x else '0'
    return (' '.join(parts) + f" | alive={b(W.bridge._thread.is_alive())} stop={b(W.stop_called)} cpc={cpc} lock={lock} "
            f"evt={b(W.sess.closed_event.real.is_set())} closed={b(W.sess.session.is_closed())} q={q} peer={peer_left}")


def strip_q(s):
    import re
    return re.sub(r' q=\S+', '', s)


def run_scenario(server, sc):
    """force the interleaving `sc['labels']` for configuration `sc['cfg']`; returns the observation dict"""
    import asyncio
    from nasdaq_protocols import soup
    cfg, labels, expect = sc['cfg'], sc['labels'], sc.get('expect')
    progs, peer = cfg['progs'], list(cfg['peer'])
    n = len(progs)
    res = {'id': sc.get('id'), 'disagree': [], 'steps_done': 0, 'notes': []}
    g = W.gates = Gates()
    W.tids, W.jobs, W.facts = {}, {}, {i: {} for i in range(n)}
    W.stop_called, W.event_at_stop, W.stop_released = False, None, False
    W.bridge = W.sess = W.loop_thread = None
    W.close_released = None
    server.mode = 'accept'
    # ---- connect (real `soup.connect`: the first facade call of every scenario)
    box = {}

    def do_connect():
        try:
            box['c'] = soup.connect(('127.0.0.1', server.port), 'u', 'p', 'sess',
                                    client_heartbeat_interval=1000, server_heartbeat_interval=1000)
        except BaseException as e:  # noqa
            box['e'] = e
    t = threading.Thread(target=do_connect, daemon=True)
    t.start()
    t.join(10)
    if 'c' not in box:
        res['fatal'] = 'connect did not return a session: ' + repr(box.get('e', 'timeout'))
        return res
    c = box['c']
    loop = c.bridge._event_loop
    W.bridge, W.sess, W.loop_thread = c.bridge, c, c.bridge._thread
    W.lock = c.close_lock = GatedLock()
    c.closed_event = GatedEvent()
    W.close_released = asyncio.Event()
    orig_cc = c.session.on_close_coro

    async def on_close_wrapper():
        await g.apark('L', 'begun')
        try:
            await orig_cc()
        finally:
            g.mark('L', 'done')
    c.session.on_close_coro = on_close_wrapper
    real_stop = loop.stop

    def gated_stop():
        if W.stop_released or g.free:
            real_stop()
        else:
            loop.call_later(0.0005, gated_stop)
    loop.stop = gated_stop

    # ---- caller threads
    hist = [[] for _ in range(n)]        # (op, outcome, thread_alive_at_return, is_closed_at_return, start_no, end_no)
    clock = [0]
    clk = threading.Lock()

    def tick():
        with clk:
            clock[0] += 1
            return clock[0]

    def do_op(op):
        if op == 'recv':
            return c.receive()
        if op == 'send':
            return c.send_debug('x')
        if op == 'sendUnseq':
            return c.send_unseq_data(b'x')
        if op == 'close':
            return c.close()
        if op == 'logout':
            return c.logout()
        if op == 'execTimed':
            return c.bridge.execute(asyncio.sleep(60), timeout=0.05)
        raise ValueError(op)

    def body(i):
        for op in progs[i]:
            g.park(i, 'idle')
            start = tick()
            try:
                r = do_op(op)
                out = 'ok' if r is None else 'msg'
            except BaseException as e:  # noqa: an exception of the (possibly modified) library is an observation
                out = outcome_of(e)
            hist[i].append((op, out, c.bridge._thread.is_alive(), c.is_closed(), start, tick()))
        g.finished(i)
    threads = []
    for i in range(n):
        th = threading.Thread(target=body, args=(i,), daemon=True, name=f'T{i}')
        W.tids[th] = i
        threads.append(th)
    for th in threads:
        th.start()
    # wait until every thread stands at its first gate
    end = time.time() + 3
    while time.time() < end and any(g.position(i) is None for i in range(n)):
        time.sleep(0.0005)

    def hist_len():
        return [len(h) for h in hist]

    def check(k, label):
        if expect is None:
            return
        got = real_summary(n, hist_len(), len(peer))
        want = expect[k]
        if '?' in got:
            got, want = strip_q(got), strip_q(want)
        if got != want:
            res['disagree'].append({'step': k, 'label': label, 'model': want, 'impl': got})

    check(0, 'init')
    aborted = False

    def diverge(k, lab, model, impl):
        """first difference between model and implementation; the rest of the interleaving is still forced (same
        labels, same deterministic scheduler) so that the oracle judges a reproducible run"""
        if not res['disagree'] and expect is not None:
            res['disagree'].append({'step': k, 'label': lab, 'model': model, 'impl': impl})

    stalled, progress = {}, [0]

    def loop_free():
        return c.bridge._thread.is_alive() and g.position('L') not in ('wantLock', 'inCb', 'stopCalled', 'eventSet')

    for k, lab in enumerate(labels):
        diverged = bool(res['disagree'])
        tmo = 0.25 if (diverged or expect is None) else 6.0
        if lab[0] == 'c' and lab != 'close':
            i = int(lab[1:])
            if g.position(i) == 'end':
                diverge(k + 1, lab, 'enabled', f'thread T{i} has already finished')
            elif stalled.get(i) == progress[0]:
                pass        # it was blocked and nothing has happened since: still blocked
            else:
                pos = g.advance(i, loop, tmo)
                if pos is None:
                    stalled[i] = progress[0]
                    diverge(k + 1, lab, 'enabled', f'thread T{i} did not reach its next statement (blocked after {g.position(i)})')
                    res['steps_done'] = k + 1
                    continue
        elif lab[0] == 'j':
            i = int(lab[1:])
            j = W.jobs.get(i)
            if j is None or j['released']:
                diverge(k + 1, lab, 'enabled', 'no coroutine waiting to be run')
            else:
                j['released'] = True
                if loop_free():
                    loop.call_soon_threadsafe(j['ev'].set)
                    loop_sync()
                    if len(hist[i]) < len(progs[i]) and progs[i][len(hist[i])] == 'logout':
                        # the server ends the conversation when it gets the logout request: wait until it has, so that
                        # "nothing more arrives" does not depend on timing
                        srv = server.sessions[-1]
                        end = time.time() + 1.0
                        while time.time() < end and not srv.is_closed():
                            time.sleep(0.001)
                        del peer[:]
                        loop_sync()
                else:
                    diverge(k + 1, lab, 'enabled', 'loop thread not available')
        elif lab == 'close':
            pos = g.position('L')
            if pos == 'spawned':
                # AsyncSession.close may now begin; it runs up to the injected on_close_coro.  Coroutines handed to the
                # loop earlier run first (FIFO ready queue) — the model never schedules `close` here while one is pending
                for jb in list(W.jobs.values()):
                    if not jb['released'] and not jb['consumed']:
                        diverge(k + 1, lab, 'disabled while a coroutine is pending', 'harness ran the pending coroutine first')
                        jb['released'] = True
                        loop.call_soon_threadsafe(jb['ev'].set)
                        loop_sync()
                loop.call_soon_threadsafe(W.close_released.set)
                end = time.time() + tmo
                while time.time() < end and g.position('L') != 'begun':
                    time.sleep(0.0005)
                if g.position('L') != 'begun':
                    diverge(k + 1, lab, 'begun', f'close procedure at {g.position("L")}')
                else:
                    loop_sync()
            elif pos in (None, 'done'):
                diverge(k + 1, lab, 'enabled', f'close procedure at {pos}')
            else:
                np_ = g.advance('L', loop, tmo)
                if np_ is None:
                    diverge(k + 1, lab, 'enabled', f'loop thread did not move on from {pos}')
                elif np_ == 'done':
                    loop_sync()
        elif lab == 'stop':
            if not W.stop_called:
                diverge(k + 1, lab, 'enabled', 'loop.stop was not requested')
            W.stop_released = True
            c.bridge._thread.join(tmo)
        elif lab == 'peer':
            if not peer:
                continue
            ev = peer.pop(0)
            if ev != 'reply':
                del peer[:]          # the peer is gone afterwards
            live = loop_free()
            before = (qsize(), [job_state(i) for i in range(n)], g.position('L'))
            server.do(ev)
            if live:
                expect_effect = (ev == 'reply' and not c.session.is_closed()) or (ev != 'reply' and g.position('L') in (None, 'idle'))
                end = time.time() + (1.0 if expect_effect else 0.02)
                while time.time() < end:
                    loop_sync(2)
                    now = (qsize(), [job_state(i) for i in range(n)], g.position('L'))
                    if now != before:
                        break
                    time.sleep(0.001)
                loop_sync()
            else:
                time.sleep(0.005)
        res['steps_done'] = k + 1
        progress[0] += 1
        if not res['disagree']:
            check(k + 1, lab)

    # ---- let everything run freely; who is still inside a call after the grace period is hanging
    pre_alive = c.bridge._thread.is_alive()
    pre_lock_owner = W.lock.owner
    pre_L = g.position('L')
    g.open_all(loop, pre_alive and pre_L not in ('wantLock', 'inCb', 'stopCalled', 'eventSet'))
    W.stop_released = True
    if W.close_released is not None and pre_alive:
        try:
            loop.call_soon_threadsafe(W.close_released.set)
        except RuntimeError:
            pass
    grace = sc.get('grace', 1.0)
    end = time.time() + grace
    while time.time() < end and any(th.is_alive() for th in threads):
        time.sleep(0.002)
    stuck = [i for i, th in enumerate(threads) if th.is_alive()]
    waiting = []
    if stuck and c.bridge._thread.is_alive() and not c.is_closed() and W.lock.owner is None:
        # blocked in receive() on an open session with a live loop = waiting for the peer, which now goes away
        cand = [i for i in stuck if len(hist[i]) < len(progs[i]) and progs[i][len(hist[i])] == 'recv' and job_state(i) == 'blocked']
        if cand and len(cand) == len(stuck):
            waiting = cand
            server.do('disc')
            end = time.time() + grace
            while time.time() < end and any(th.is_alive() for th in threads):
                time.sleep(0.002)
            stuck = [i for i, th in enumerate(threads) if th.is_alive()]
    res['waiting'] = waiting
    res['hung'] = []
    for i in stuck:
        op = progs[i][len(hist[i])]
        f = W.facts[i]
        j = W.jobs.get(i)
        lock_dead = c.bridge._thread.is_alive() and W.lock.owner is not None and W.lock.owner != 'L' and g.position('L') in ('wantLock',)
        if lock_dead:
            kind = 'close-lock-deadlock'
        elif op == 'recv' and j is not None and j['started'] and not j['consumed']:
            kind = 'concurrent-receive'
        elif j is not None and not j['consumed'] and f.get('closed_at_submit') and f.get('last_check') == ('passed', True):
            kind = 'submit-after-stop' if op not in ('close', 'logout') else 'close-submit-after-stop'
        else:
            kind = 'hang'
        res['hung'].append({'caller': i, 'op': op, 'kind': kind, 'position': g.position(i), 'job': job_state(i),
                            'loop_thread_alive': c.bridge._thread.is_alive(), 'facts': {k: v for k, v in f.items()}})
    res['hist'] = [[list(x) for x in h] for h in hist]
    res['thread_alive'] = c.bridge._thread.is_alive()
    res['is_closed'] = c.is_closed()
    res['event_at_stop'] = W.event_at_stop
    res['aborted'] = aborted
    # ---- cleanup: never leave a running loop behind (blocked daemon threads are abandoned with the process)
    try:
        if c.bridge._thread.is_alive():
            loop.call_soon_threadsafe(real_stop)
    except Exception:  # noqa
        pass
    W.bridge = None
    W.sess = None
    return res


def run_connect(server, sc):
    """`soup.connect` against a server that accepts / rejects / drops the connection / is not there"""
    from nasdaq_protocols import soup
    mode = sc['mode']
    server.mode = {'accepted': 'accept', 'rejected': 'reject', 'peerClosed': 'drop', 'connRefused': 'accept',
                   'acceptedThenClosed': 'accept-then-drop'}[mode]
    unpatch = None
    if mode == 'acceptedThenClosed':
        # force the interleaving: the peer's disconnect is processed by the loop thread between "login returned" and "the
        # blocking wrapper has installed its close callback" whenever these are two separate steps (the statement at which the
        # wrapper is constructed is held for 0.25 s)
        from nasdaq_protocols.soup import session as _ss
        orig_init = _ss.SoupClientSessionSync.__attrs_post_init__

        def slow_init(self):
            time.sleep(0.25)
            orig_init(self)
        _ss.SoupClientSessionSync.__attrs_post_init__ = slow_init

        def unpatch():
            _ss.SoupClientSessionSync.__attrs_post_init__ = orig_init
    port = server.port
    if mode == 'connRefused':
        import socket
        s = socket.socket()
        s.bind(('127.0.0.1', 0))
        port = s.getsockname()[1]
        s.close()
    box = {}
    before = set(threading.enumerate())

    def go():
        try:
            box['c'] = soup.connect(('127.0.0.1', port), 'u', 'p', 'sess', client_heartbeat_interval=1000, server_heartbeat_interval=1000)
        except BaseException as e:  # noqa
            box['e'] = type(e).__name__
    t = threading.Thread(target=go, daemon=True)
    t.start()
    t.join(8)
    if unpatch:
        unpatch()
    time.sleep(0.05)
    execs = [x for x in threading.enumerate() if x not in before and x.name.startswith('sync-executor-') and x.is_alive()]
    res = {'id': sc.get('id'), 'connect': mode, 'returned': not t.is_alive(), 'raised': box.get('e'), 'executor_alive': bool(execs)}
    if 'c' in box:
        out = {}

        def cl():
            try:
                box['c'].close()
                out['ok'] = True
            except BaseException as e:  # noqa
                out['e'] = type(e).__name__
        t2 = threading.Thread(target=cl, daemon=True)
        t2.start()
        t2.join(5)
        res['close_after'] = out
        res['executor_alive_after_close'] = box['c'].bridge._thread.is_alive()
    return res


# ---------------------------------------------------------------------------------------------------------------------
#  executor-level calls whose coroutine / callable raises
# ---------------------------------------------------------------------------------------------------------------------
class _Abandon(BaseException):
    """ends a caller thread that is still polling after the scenario was judged (never seen by the oracle)"""


EXC_KINDS = ['TimeoutError', 'asyncio.TimeoutError', 'futures.TimeoutError', 'socket.timeout', 'TimeoutSub', 'OSError.ETIMEDOUT',
             'asyncio.CancelledError', 'futures.CancelledError', 'StateError', 'EndOfQueue', 'ValueError', 'KeyError',
             'ConnectionRefusedError', 'BaseSub']
# the class the model gives each of them (Model/SyncFacade.lean `Exc`)
EXC_MODEL = {'TimeoutError': 'timeout', 'asyncio.TimeoutError': 'timeout', 'futures.TimeoutError': 'timeout', 'socket.timeout': 'timeout',
             'TimeoutSub': 'timeoutSub', 'OSError.ETIMEDOUT': 'timeout', 'asyncio.CancelledError': 'cancelled',
             'futures.CancelledError': 'cancelled', 'StateError': 'state', 'EndOfQueue': 'eoq', 'ValueError': 'value',
             'KeyError': 'other', 'ConnectionRefusedError': 'other', 'BaseSub': 'base', None: 'returned'}


class TimeoutSub(TimeoutError):
    pass


class BaseSub(BaseException):
    pass


def make_exc(kind):
    import asyncio
    import concurrent.futures
    import errno
    import socket
    from nasdaq_protocols.common import StateError, EndOfQueue
    return {'TimeoutError': lambda: TimeoutError('own'), 'asyncio.TimeoutError': lambda: asyncio.TimeoutError('own'),
            'futures.TimeoutError': lambda: concurrent.futures.TimeoutError('own'), 'socket.timeout': lambda: socket.timeout('own'),
            'TimeoutSub': lambda: TimeoutSub('own'), 'OSError.ETIMEDOUT': lambda: OSError(errno.ETIMEDOUT, 'own'),
            'asyncio.CancelledError': lambda: asyncio.CancelledError(), 'futures.CancelledError': lambda: concurrent.futures.CancelledError(),
            'StateError': lambda: StateError('own'), 'EndOfQueue': lambda: EndOfQueue(), 'ValueError': lambda: ValueError('own'),
            'KeyError': lambda: KeyError('own'), 'ConnectionRefusedError': lambda: ConnectionRefusedError('own'),
            'BaseSub': lambda: BaseSub('own')}[kind]()


def exc_model_class(e, own):
    """class of a raised exception in the model's vocabulary (no reference to what was expected)"""
    import asyncio
    import concurrent.futures
    from nasdaq_protocols.common import StateError, EndOfQueue
    if isinstance(e, TimeoutError):
        if not own:
            return 'expiry' if type(e) is TimeoutError else 'expiry-subclass'
        return 'timeout' if type(e) is TimeoutError else 'timeoutSub'
    if isinstance(e, (asyncio.CancelledError, concurrent.futures.CancelledError)):
        return 'cancelled'
    if isinstance(e, StateError):
        return 'state'
    if isinstance(e, EndOfQueue):
        return 'eoq'
    if isinstance(e, ValueError):
        return 'value'
    if isinstance(e, Exception):
        return 'other'
    return 'base'


class ExecCtl:
    """the scripted future of one `exec` scenario: what every `result(timeout)` poll of the call finds"""

    def __init__(self, bridge, script, hold, realtime=False):
        self.bridge, self.loop = bridge, bridge._event_loop
        self.script, self.hold, self.realtime = list(script), hold, realtime
        self.caller = None
        self.fut = None
        self.release_ev = None
        self.released = False
        self.polls = 0             # result() calls
        self.polls_after_done = 0  # … made although an earlier poll had already found the future done
        self.seen_done = False
        self.dones = []            # what future.done() answered, in order
        self.cancel_called = False
        self.abandon = False
        self.stopped = False
        self.checks = 0            # `_must_be_active` calls of the call under test
        self.stop_after_check = None
        self.log = []

    def submit(self, coro, loop):
        import asyncio
        self.release_ev = asyncio.Event()
        ev = self.release_ev

        async def gated():
            await ev.wait()
            return await coro
        self.fut = W.orig['rcts'](gated(), loop)
        return ScriptedFuture(self)

    def release(self):
        if not self.released:
            self.released = True
            try:
                self.loop.call_soon_threadsafe(self.release_ev.set)
            except RuntimeError:
                pass

    def wait_done(self, t=2.0):
        end = time.time() + t
        while not self.fut.done() and time.time() < end:
            time.sleep(0.0002)
        return self.fut.done()

    def stop(self):
        if not self.stopped:
            self.stopped = True
            self.bridge.stop()         # loop.call_soon_threadsafe(loop.stop) + join: the thread is gone afterwards


class ScriptedFuture:
    def __init__(self, ctl):
        self.ctl = ctl

    def result(self, timeout=None):
        import concurrent.futures
        c = self.ctl
        if c.abandon:
            raise _Abandon()
        c.polls += 1
        if c.seen_done:
            c.polls_after_done += 1
        if c.fut.done():
            c.log.append('done')    # a finished future never waits: its outcome at once, no script step is spent
            c.seen_done = True
            return c.fut.result(timeout=timeout)
        act = c.script.pop(0) if c.script else 'real'
        if timeout is None and act in ('E', 'R', 'S', 'e'):
            act = 'real'            # a wait without a timeout cannot be made to expire
        c.log.append(act)
        try:
            if act == 'C':          # the coroutine ends within this slice
                c.release()
                c.wait_done()
                return c.fut.result(timeout=timeout)
            if act == 'CS':         # … and the executor is stopped right behind it
                c.release()
                c.wait_done()
                c.stop()
                return c.fut.result(timeout=timeout)
            if act == 'E':          # the slice expires (virtual time), the coroutine has not ended
                raise concurrent.futures.TimeoutError()
            if act == 'e':          # the slice expires in real time
                return c.fut.result(timeout=timeout)
            if act == 'R':          # the slice expires; the coroutine ends before the handler looks at future.done()
                c.release()
                c.wait_done()
                raise concurrent.futures.TimeoutError()
            if act == 'S':          # the executor is stopped under the call; the slice expires
                c.stop()
                raise concurrent.futures.TimeoutError()
            if not c.hold:
                c.release()
                if not c.realtime and not c.stopped:
                    c.wait_done()       # scripted scenario: "ends within this slice" must not depend on the machine's load
            return c.fut.result(timeout=timeout)
        finally:
            if c.fut.done():
                c.seen_done = True

    def done(self):
        v = self.ctl.fut.done()
        self.ctl.dones.append(v)
        if v:
            self.ctl.seen_done = True
        return v

    def cancel(self):
        self.ctl.cancel_called = True
        return self.ctl.fut.cancel()

    def __getattr__(self, n):
        return getattr(self.ctl.fut, n)


def run_exec(server, sc):
    """one call on a fresh SyncExecutor.  sc: api execute|execute_sync, exc (EXC_KINDS or None = returns), arg ok|bad,
    timeout None|float (execute only), script [C|CS|E|e|R|S …], hold (never let the coroutine end by itself),
    dead (executor stopped before the call), source raise|wait_for|timeout_cm|recv_bounded|sleep_raise, delay, stop_at"""
    import asyncio
    from nasdaq_protocols.common import SyncExecutor
    res = {'id': sc.get('id'), 'exec': True}
    source = sc.get('source', 'raise')
    client = None
    if source == 'recv_bounded':
        from nasdaq_protocols import soup
        server.mode = 'accept'
        client = soup.connect(('127.0.0.1', server.port), 'u', 'p', 'sess', client_heartbeat_interval=1000, server_heartbeat_interval=1000)
        bridge = client.bridge
    else:
        bridge = SyncExecutor(f"c20x{sc.get('id')}")
    ctl = W.exec_ctl = ExecCtl(bridge, sc.get('script', []), sc.get('hold', False), bool(sc.get('realtime')))
    ctl.stop_after_check = sc.get('stop_after_check')
    own = {'exc': None}
    delay = sc.get('delay', 0)

    def finish():
        # how the coroutine / callable itself ends: what "its result" / "the underlying error" of this call is
        if sc.get('exc') is None:
            own['ended'] = 'returned'
            return 'value'
        own['exc'] = make_exc(sc['exc'])
        own['ended'] = 'raised:' + type(own['exc']).__name__
        raise own['exc']

    async def coro_raise():
        if delay:
            await asyncio.sleep(delay)
        return finish()

    async def coro_wait_for():
        return await asyncio.wait_for(asyncio.sleep(60), delay)          # ends with asyncio's own TimeoutError

    async def coro_timeout_cm():
        async with asyncio.timeout(delay):
            await asyncio.sleep(60)

    def callable_raise():
        return finish()

    box = {}

    def call():
        t0 = time.monotonic()
        try:
            if sc['api'] == 'execute':
                if sc.get('arg') == 'bad':
                    arg = callable_raise
                elif source == 'wait_for':
                    arg = coro_wait_for()
                elif source == 'timeout_cm':
                    arg = coro_timeout_cm()
                elif source == 'recv_bounded':
                    arg = asyncio.wait_for(client.session.receive_msg(), delay)
                else:
                    arg = coro_raise()
                box['arg'] = arg
                if 'timeout' in sc and sc['timeout'] is not None:
                    box['r'] = ('returned', bridge.execute(arg, timeout=sc['timeout']))
                else:
                    box['r'] = ('returned', bridge.execute(arg))
            else:
                box['r'] = ('returned', bridge.execute_sync('not callable' if sc.get('arg') == 'bad' else callable_raise))
        except _Abandon:
            box['abandoned'] = True
        except BaseException as e:  # noqa: whatever the (possibly modified) library raises is the observation
            box['r'] = ('raised', e)
        box['elapsed'] = time.monotonic() - t0
    if sc.get('dead'):
        ctl.stop()
    th = threading.Thread(target=call, daemon=True, name='c20-exec-caller')
    ctl.caller = th
    stopper = None
    if sc.get('stop_at') is not None:
        stopper = threading.Timer(sc['stop_at'], ctl.stop)
        stopper.daemon = True
        stopper.start()
    th.start()
    watchdog = sc.get('watchdog', 2.0)
    if W.exec_hangs >= 2:       # this tree hangs in this family: the remaining scenarios need not wait as long
        tmo = sc.get('timeout') or 0
        watchdog = min(watchdog, 0.6 + delay + (tmo if tmo < 100 else 0))
    th.join(watchdog)
    res['hung'] = th.is_alive()
    res['polls'], res['polls_after_done'], res['log'] = ctl.polls, ctl.polls_after_done, ctl.log[:40]
    res['checks'] = ctl.checks
    res['future_done'] = bool(ctl.fut is not None and ctl.fut.done())
    # how the coroutine itself ended (what "its result" / "the underlying error" is), read off the future
    if ctl.fut is None:
        res['future'] = 'none'
    elif not ctl.fut.done():
        res['future'] = 'pending'
    elif ctl.fut.cancelled():
        res['future'] = 'cancelled'
    else:
        fe = ctl.fut.exception()
        res['future'] = 'returned' if fe is None else 'raised:' + type(fe).__name__
        res['future_timeout'] = isinstance(fe, TimeoutError)
    if 'ended' in own:          # the coroutine / callable ran to its end under the harness' eyes: independent of any future
        res['future'] = own['ended']
        res['future_timeout'] = isinstance(own['exc'], TimeoutError)
    res['cancel_called'] = ctl.cancel_called
    if res['hung']:
        W.exec_hangs += 1
        ctl.abandon = True
        th.join(1.0)
    elif 'r' in box:
        kind, v = box['r']
        res['elapsed'] = round(box['elapsed'], 4)
        if kind == 'returned':
            res['outcome'] = 'returned'
            res['value_ok'] = (v == 'value')
            res['value'] = repr(v)[:60]
        else:
            # asyncio hands an exception of exactly the class TimeoutError / CancelledError to the concurrent future as a new
            # instance with the same args (`_convert_future_exc`): the args carry the mark of the coroutine's own exception
            o = own['exc']
            is_own = o is not None and (v is o or (type(v) is type(o) and v.args == o.args and 'own' in [str(x) for x in v.args]))
            if source in ('wait_for', 'timeout_cm', 'recv_bounded'):
                is_own = res['future_done'] and not ctl.fut.cancelled() and ctl.fut.exception() is v
            res['outcome'] = 'raised:' + exc_model_class(v, is_own)
            res['raised'] = type(v).__name__
            res['own'] = is_own
    else:
        res['outcome'] = 'abandoned'
    res['thread_alive_after'] = bridge._thread.is_alive()
    # ---- cleanup
    if stopper is not None:
        stopper.cancel()
    a = box.get('arg')
    if a is not None and hasattr(a, 'close'):
        try:
            a.close()           # a coroutine that was never handed to the loop (dead executor, bad call)
        except Exception:  # noqa
            pass
    W.exec_ctl = None

    def cleanup():
        try:
            if client is not None:
                client.close()
            elif bridge._thread.is_alive():
                bridge.stop()
        except BaseException:  # noqa
            pass
    ct = threading.Thread(target=cleanup, daemon=True)
    ct.start()
    ct.join(3.0)
    return res


def worker_main():
    sys.path.insert(0, HERE)
    import common
    common.use_repo()
    import logging
    logging.disable(logging.CRITICAL)
    import warnings
    warnings.simplefilter('ignore')
    install_patches()
    server = Server()
    out = sys.stdout
    for line in sys.stdin:
        line = line.strip()
        if not line:
            continue
        sc = json.loads(line)
        try:
            if sc.get('type') == 'exec':
                r = run_exec(server, sc)
            elif sc.get('type') == 'connect':
                r = run_connect(server, sc)
            else:
                r = run_scenario(server, sc)
        except BaseException as e:  # noqa
            import traceback
            r = {'id': sc.get('id'), 'fatal': 'harness exception: ' + repr(e), 'tb': traceback.format_exc()[-1500:]}
        out.write(json.dumps(r, default=repr) + '\n')
        out.flush()
    out.flush()
    os._exit(0)


# =====================================================================================================================
#  parent
# =====================================================================================================================
class Pool:
    """worker subprocesses; one scenario at a time per worker, hard timeout per scenario"""

    def __init__(self, nworkers, per_scenario_timeout=25.0):
        self.n = nworkers
        self.timeout = per_scenario_timeout

    def _spawn(self):
        env = dict(os.environ)
        env['PYTHONPATH'] = HERE
        return subprocess.Popen([sys.executable, '-W', 'ignore', os.path.abspath(__file__), '--worker'], stdin=subprocess.PIPE,
                                stdout=subprocess.PIPE, stderr=subprocess.DEVNULL, env=env, text=True, bufsize=1)

    def map(self, scenarios):
        results = {}
        lock = threading.Lock()
        it = iter(list(enumerate(scenarios)))

        def feed():
            p = self._spawn()
            done_here = 0
            try:
                while True:
                    with lock:
                        nxt = next(it, None)
                    if nxt is None:
                        break
                    k, sc = nxt
                    if done_here >= 40:         # abandoned blocked threads accumulate: recycle the process
                        try:
                            p.stdin.close()
                            p.wait(5)
                        except Exception:  # noqa
                            p.kill()
                        p = self._spawn()
                        done_here = 0
                    try:
                        p.stdin.write(json.dumps(sc) + '\n')
                        p.stdin.flush()
                        r, _, _ = select.select([p.stdout], [], [], self.timeout)
                        line = p.stdout.readline() if r else ''
                    except Exception:  # noqa
                        line = ''
                    if not line:
                        # the scenario process itself did not answer: that is the observation "hang"
                        p.kill()
                        results[k] = {'id': sc.get('id'), 'process_timeout': True}
                        p = self._spawn()
                        done_here = 0
                    else:
                        results[k] = json.loads(line)
                        done_here += 1
            finally:
                try:
                    p.stdin.close()
                    p.wait(3)
                except Exception:  # noqa
                    p.kill()
        ths = [threading.Thread(target=feed, daemon=True) for _ in range(self.n)]
        for t in ths:
            t.start()
        for t in ths:
            t.join()
        return [results.get(k, {'process_timeout': True}) for k in range(len(scenarios))]


# ---------------------------------------------------------------------------------------------------------------------
#  executor-level calls: generation, model request, oracle, correspondence
# ---------------------------------------------------------------------------------------------------------------------
EXEC_SCRIPTS = [['C'], ['E', 'C'], ['E', 'E', 'E', 'C'], ['R'], ['E', 'R'], ['E', 'E', 'R'], ['S'], ['E', 'S'], ['E', 'E', 'E', 'S'],
                ['CS'], ['E', 'CS'], []]


def gen_exec(rng, tier):
    """every exception class x every phase script x {execute without / with a far / with an expired caller-side timeout,
    execute_sync}; real-time scenarios; dead executor; bad argument"""
    out = []
    for exc in EXC_KINDS + [None]:
        for script in EXEC_SCRIPTS:
            for api, tmo in (('execute', None), ('execute', 1000.0), ('execute', 0), ('execute_sync', None)):
                sc = {'type': 'exec', 'api': api, 'exc': exc, 'script': list(script)}
                if tmo is not None:
                    sc['timeout'] = tmo
                out.append(sc)
        for api in ('execute', 'execute_sync'):
            out.append({'type': 'exec', 'api': api, 'exc': exc, 'script': [], 'dead': True})
        # stop() wins the race between the call's activity check and what the call does next (second check / submission)
        for api, k, tmo in (('execute', 1, None), ('execute', 1, 0), ('execute', 1, 1000.0), ('execute_sync', 1, None), ('execute_sync', 2, None)):
            sc = {'type': 'exec', 'api': api, 'exc': exc, 'script': [], 'stop_after_check': k}
            if tmo is not None:
                sc['timeout'] = tmo
            out.append(sc)
            out.append({'type': 'exec', 'api': api, 'exc': exc, 'script': ['C'], 'arg': 'bad'})
        # a caller-side timeout that really runs out while the coroutine is pending / that the coroutine beats
        out.append({'type': 'exec', 'api': 'execute', 'exc': exc, 'script': ['e', 'e'], 'hold': True, 'timeout': 0.08, 'realtime': True})
        out.append({'type': 'exec', 'api': 'execute', 'exc': exc, 'script': ['e', 'C'], 'timeout': 0.3, 'realtime': True})
    # ---- real time, nothing scripted: the coroutine ends by itself at a phase of the 50 ms slices
    n_rt = 40 if tier == 'quick' else 400
    main = ['TimeoutError', 'TimeoutSub', 'asyncio.CancelledError', 'StateError', 'EndOfQueue', 'ValueError', 'BaseSub', None]
    for _ in range(n_rt):
        d = rng.choice([0.0, 0.01, 0.045, 0.05, 0.055, 0.1, 0.12, 0.21])
        sc = {'type': 'exec', 'api': 'execute', 'exc': rng.choice(main), 'script': [], 'source': 'raise', 'delay': d, 'realtime': True}
        r = rng.random()
        if r < 0.35:
            sc['timeout'] = rng.choice([0.03, 0.05, 0.08, 0.13, 5.0])
        elif r < 0.5:
            sc['stop_at'] = rng.choice([0.0, 0.02, 0.05, 0.07, 0.15])
        out.append(sc)
    for d in ([0.03, 0.12] if tier == 'quick' else [0.0, 0.01, 0.03, 0.05, 0.12, 0.26]):
        for src in ('wait_for', 'timeout_cm', 'recv_bounded'):
            for tmo in (None, 2.0):
                sc = {'type': 'exec', 'api': 'execute', 'exc': 'asyncio.TimeoutError', 'script': [], 'source': src, 'delay': d, 'realtime': True}
                if tmo is not None:
                    sc['timeout'] = tmo
                out.append(sc)
    return out


def exec_model_request(sc):
    """the passes the script forces, for `sync.exec`; None when the scenario is not scripted pass by pass"""
    if sc.get('realtime'):
        return None
    alive = not sc.get('dead')
    arg_ok = sc.get('arg') != 'bad'
    dl = 1 if sc.get('timeout') == 0 else 0
    passes, done = [], False
    k = sc.get('stop_after_check')
    if k is not None:
        # the executor dies behind the k-th `_must_be_active`: execute_sync's second check fails (k = 1), or the coroutine is
        # handed to a dead loop and the first slice finds the thread gone
        a1 = 0 if (sc['api'] == 'execute_sync' and k == 1) else 1
        ps = f'((0 0 {dl} 0 0))'
        return f"sync.exec {sc['api']} 1 1 {EXC_MODEL[sc.get('exc')]} {ps} 0 {a1}"
    for act in list(sc.get('script', [])) + ['real']:
        a = 1 if alive else 0
        if act in ('C', 'real'):
            passes.append([1, 1, dl, a, 1])
            done = True
            break
        if act == 'CS':
            passes.append([1, 1, dl, 0, 1])
            done = True
            break
        if act == 'E':
            passes.append([0, 0, dl, a, 0])
        elif act == 'R':
            passes.append([0, 1, dl, a, 1])
            done = True
            break
        elif act == 'S':
            alive = False
            passes.append([0, 0, dl, 0, 0])
        if dl or not alive:
            break
    ps = '(' + ' '.join('(' + ' '.join(map(str, q)) + ')' for q in passes) + ')'
    return (f"sync.exec {sc['api']} {0 if sc.get('dead') else 1} {1 if arg_ok else 0} {EXC_MODEL[sc.get('exc')]} {ps} {1 if done else 0}")


def exec_desc(sc):
    what = 'returns a value' if sc.get('exc') is None else f"raises {sc['exc']}"
    src = {'wait_for': 'asyncio.wait_for(sleep(60), %s)' % sc.get('delay'), 'timeout_cm': 'asyncio.timeout(%s) around sleep(60)' % sc.get('delay'),
           'recv_bounded': 'asyncio.wait_for(session.receive_msg(), %s) on a connected session, peer silent' % sc.get('delay')}.get(sc.get('source'))
    body = src if src else (('a coroutine that ' if sc['api'] == 'execute' else 'a callable that ') + what +
                            (f" after {sc['delay']} s" if sc.get('delay') else ''))
    extra = []
    if 'timeout' in sc:
        extra.append(f"timeout={sc['timeout']}")
    if sc.get('script'):
        extra.append('polls: ' + ' '.join(sc['script']))
    if sc.get('hold'):
        extra.append('coroutine never ends by itself')
    if sc.get('dead'):
        extra.append('executor stopped before the call')
    if sc.get('stop_after_check') is not None:
        extra.append(f"executor stopped right behind the call's activity check no. {sc['stop_after_check']}")
    if sc.get('arg') == 'bad':
        extra.append('argument is not a coroutine / callable')
    if sc.get('stop_at') is not None:
        extra.append(f"stop() from another thread after {sc['stop_at']} s")
    return f"{sc['api']}({body})" + (' [' + '; '.join(extra) + ']' if extra else '')


def exec_findings(sc, r):
    """the statement on one executor-level call: it came back, and with its result, the underlying error, or a timeout /
    state error (ValueError for an argument that is no coroutine / callable)"""
    base = {'exec': {k: v for k, v in sc.items() if k not in ('id', 'corpus')}}
    if r.get('process_timeout'):
        return [('the scenario process itself did not finish within its hard timeout (hang): ' + exec_desc(sc), dict(base, kind='exec-process-timeout'))]
    if r.get('fatal'):
        return [('scenario could not be run: ' + r['fatal'], dict(base, kind='fatal'))]
    if r.get('hung'):
        return [(f"{exec_desc(sc)} neither returned nor raised within the watchdog: {r.get('polls')} polls of future.result(), "
                 f"{r.get('polls_after_done')} of them after the future was found done (future done: {r.get('future_done')})",
                 dict(base, kind='exec-hang'))]
    out = []
    o = r.get('outcome', '?')
    under = EXC_MODEL[sc.get('exc')]
    if sc.get('source') in ('wait_for', 'timeout_cm', 'recv_bounded'):
        under = 'timeout'
    if o == 'returned':
        if sc.get('arg') == 'bad' or sc.get('dead'):
            out.append((f"{exec_desc(sc)} returned {r.get('value')}", dict(base, kind='exec-returned-without-running')))
        elif under != 'returned':
            out.append((f"{exec_desc(sc)} returned {r.get('value')} although the coroutine ended with an exception", dict(base, kind='exec-error-swallowed')))
        elif not r.get('value_ok'):
            out.append((f"{exec_desc(sc)} returned {r.get('value')} instead of the coroutine's value", dict(base, kind='exec-wrong-value')))
    elif o.startswith('raised:'):
        cls = o[7:]
        allowed = {under, 'expiry', 'expiry-subclass', 'timeout', 'timeoutSub', 'state'}
        if sc.get('arg') == 'bad':
            allowed.add('value')
        untimed = sc.get('timeout') is None
        is_tmo = cls in ('expiry', 'expiry-subclass', 'timeout', 'timeoutSub')
        if cls not in allowed:
            out.append((f"{exec_desc(sc)} raised {r.get('raised')}: neither the underlying error nor a timeout / state error",
                        dict(base, kind='exec-wrong-error')))
        elif untimed and r.get('future') == 'returned':
            # "returns its result": no timeout was asked for and the coroutine did return a value
            out.append((f"{exec_desc(sc)}: no timeout was given and the coroutine returned its value, yet the call raised "
                        f"{r.get('raised')} - the result is lost", dict(base, kind='exec-result-lost')))
        elif untimed and is_tmo and not r.get('future_timeout'):
            # a timeout error from a call without a timeout is only the underlying error if the coroutine raised it
            out.append((f"{exec_desc(sc)}: no timeout was given and the coroutine did not end with a TimeoutError "
                        f"(future: {r.get('future')}), yet the call raised {r.get('raised')}", dict(base, kind='exec-untimed-timeout')))
    else:
        out.append((f"{exec_desc(sc)}: no outcome recorded ({o})", dict(base, kind='exec-no-outcome')))
    return out


def exec_correspondence(ctx, sc, r, ans):
    if ans is None or r.get('process_timeout') or r.get('fatal') or r.get('hung'):
        return
    base = {'exec': {k: v for k, v in sc.items() if k != 'id'}, 'kind': 'exec-correspondence'}
    if not ans.startswith('ok '):
        ctx.disagree(f'model answered {ans[:80]} for {exec_desc(sc)}', base)
        return
    want, passes = ans[3:].split(' polls=')
    got = r.get('outcome')
    if got == 'raised:expiry-subclass':
        got = 'raised:expiry?'
    if got != want:
        ctx.disagree(f"{exec_desc(sc)}: model {want} vs implementation {r.get('outcome')} ({r.get('raised')}, own={r.get('own')})", base)
    elif int(passes) != r.get('polls'):
        ctx.disagree(f"{exec_desc(sc)}: model calls future.result() {passes} times until it leaves the slice loop, implementation {r.get('polls')} times", base)


def shrink_exec(sc, kind):
    """simpler calls of the same family that still fail the same way"""
    keep = {k: sc[k] for k in ('type', 'api', 'exc', 'source', 'delay') if k in sc}
    cands = []
    if not sc.get('realtime'):
        for api in (['execute', sc['api']] if sc['api'] != 'execute' else ['execute']):
            for script in (['C'], ['E', 'C']):
                cands.append(dict(keep, api=api, script=script))
    pool = Pool(1)
    for c in cands:
        if c == {k: v for k, v in sc.items() if k != 'id'}:
            return None
        r = pool.map([dict(c, id=0)])[0]
        for w, rep in exec_findings(c, r):
            if rep['kind'] == kind:
                return (w, rep)
    return None


def cfg_sx(cfg):
    return '((progs ' + ' '.join('(' + ' '.join(p) + ')' for p in cfg['progs']) + ') (peer ' + ' '.join(cfg['peer']) + '))'


def gen_cfg(rng, tier):
    n = rng.choice([1, 2, 2, 3, 3])
    progs = []
    for _ in range(n):
        k = rng.choice([1, 1, 2, 2, 3])
        w = rng.choice([[3, 3, 1, 3, 2, 1], [4, 2, 1, 2, 1, 0], [1, 3, 1, 4, 3, 1]])
        progs.append([rng.choices(OPS, weights=w)[0] for _ in range(k)])
    m = rng.choice([0, 1, 1, 2, 3])
    peer = [rng.choice(['reply', 'reply', 'eos', 'disc']) for _ in range(m)]
    return {'progs': progs, 'peer': peer}


def parse_trace(resp):
    """driver `sync.run` answer -> (summaries per step incl. initial, ok flags, final dict, disabled label or None)"""
    import re
    assert resp.startswith('ok '), resp[:200]
    parts = [p.strip() for p in resp[3:].split(';;')]
    summ = [parts[0]]
    oks = []
    disabled = None
    for p in parts[1:-1]:
        if p.startswith('disabled '):
            disabled = p.split()[1]
            continue
        lab, okf, rest = p.split(' ', 2)
        summ.append(rest)
        oks.append(okf == 'ok=1')
    fin = parts[-1]
    m = re.match(r'end terminal=(\d) enabled=\(([^)]*)\) hung=\(([^)]*)\) waiting=\(([^)]*)\) hist=(.*)$', fin)
    final = {'terminal': m.group(1) == '1', 'enabled': m.group(2).split(), 'hung': [int(x) for x in m.group(3).split()],
             'waiting': [int(x) for x in m.group(4).split()],
             'hist': [[tuple(e.split(':')) for e in h.split()] for h in re.findall(r'\(([^)]*)\)', m.group(5))]}
    return summ, oks, final, disabled


def expected_after_close(op):
    return {'recv': 'state', 'send': 'state', 'execTimed': 'state', 'close': 'ok', 'logout': 'ok', 'sendUnseq': 'state'}[op]


def oracle_findings(sc, r):
    """the property statement evaluated on what the implementation did (no model involved).
    Returns [(description, replay dict)]"""
    out = []
    base = {'cfg': sc['cfg'], 'labels': sc['labels']}
    if r.get('process_timeout'):
        return [('the scenario process itself did not finish within its hard timeout (hang)', dict(base, kind='process-timeout'))]
    if r.get('fatal'):
        return [('scenario could not be run: ' + r['fatal'], dict(base, kind='fatal'))]
    for h in r.get('hung', []):
        out.append((f"T{h['caller']} {h['op']}() never returned nor raised (blocked at {h['position']}, job {h['job']}, "
                    f"loop thread alive={h['loop_thread_alive']}): {h['kind']}",
                    dict(base, kind=h['kind'], caller=h['caller'], op=h['op'])))
    # after close/logout returned: thread exited, session closed
    closes = []
    for i, hs in enumerate(r.get('hist', [])):
        for (op, out_, alive, closed, start, endno) in hs:
            if op in ('close', 'logout') and out_ == 'ok':
                closes.append(endno)
                if alive:
                    out.append((f'T{i} {op}() returned while the executor thread was still alive',
                                dict(base, kind='returned-thread-alive', caller=i, op=op)))
                if not closed:
                    out.append((f'T{i} {op}() returned but is_closed() is False', dict(base, kind='returned-not-closed', caller=i, op=op)))
    first_close = min(closes) if closes else None
    if first_close is not None:
        for i, hs in enumerate(r['hist']):
            for (op, out_, alive, closed, start, endno) in hs:
                if start > first_close and out_ != expected_after_close(op):
                    kind = 'no-state-error-after-close'
                    out.append((f'T{i} {op}() started after close()/logout() had returned and ended with {out_!r} instead of '
                                f'{expected_after_close(op)!r}', dict(base, kind=kind, caller=i, op=op, outcome=out_)))
    return out


def oracle(ctx, sc, r):
    found = oracle_findings(sc, r)
    for what, rep in found:
        ctx.count('oracle:' + rep['kind'])
        ctx.violation(what, rep)
    return found


def drop_caller(cfg, labels, i):
    progs = [p for k, p in enumerate(cfg['progs']) if k != i]
    out = []
    for l in labels:
        if l[0] in 'cj' and l != 'close':
            k = int(l[1:])
            if k == i:
                continue
            out.append(l[0] + str(k - 1 if k > i else k))
        else:
            out.append(l)
    return {'progs': progs, 'peer': list(cfg['peer'])}, out


def shrink(sc, kind, budget=40):
    """greedy reduction of a failing (configuration, interleaving): drop threads, trailing calls, peer events, trailing
    labels while the oracle still reports a failure of the same kind.  Every candidate is executed on the implementation."""
    pool = Pool(1)
    cur = {'cfg': sc['cfg'], 'labels': list(sc['labels'])}

    def fails(cfg, labels):
        r = pool.map([{'id': 0, 'cfg': cfg, 'labels': labels, 'expect': None, 'grace': 1.0}])[0]
        for w, rep in oracle_findings({'cfg': cfg, 'labels': labels}, r):
            if rep['kind'] == kind:
                return (w, rep)
        return None
    used = 0
    last = None
    progress = True
    while progress and used < budget:
        progress = False
        cands = []
        cfg, labels = cur['cfg'], cur['labels']
        if len(cfg['progs']) > 1:
            for i in range(len(cfg['progs'])):
                cands.append(drop_caller(cfg, labels, i))
        for i, p in enumerate(cfg['progs']):
            if len(p) > 1:
                cands.append(({'progs': [q[:-1] if k == i else q for k, q in enumerate(cfg['progs'])], 'peer': list(cfg['peer'])}, labels))
        if cfg['peer']:
            lb = list(labels)
            if 'peer' in lb:
                idx = len(lb) - 1 - lb[::-1].index('peer')
                del lb[idx]
            cands.append(({'progs': cfg['progs'], 'peer': cfg['peer'][:-1]}, lb))
        if len(labels) > 1:
            cands.append((cfg, labels[:-1]))
        for c2, l2 in cands:
            if used >= budget:
                break
            used += 1
            try:
                f = fails(c2, l2)
                if f:
                    cur = {'cfg': c2, 'labels': l2}
                    last = f
                    progress = True
                    break
            except Exception:  # noqa
                pass
    return last


def correspondence(ctx, sc, r, final):
    base = {'cfg': sc['cfg'], 'labels': sc['labels'], 'kind': 'correspondence'}
    if r.get('process_timeout') or r.get('fatal'):
        return
    for d in r.get('disagree', [])[:1]:
        ctx.disagree(f"step {d['step']} ({d['label']}): model {d['model']!r} vs implementation {d['impl']!r}", dict(base, **d))
    if r.get('disagree'):
        return
    # callers that were waiting for the peer are woken by the harness' own cleanup (a disconnect, free running): what
    # happens to them then is judged by the oracle only, it is not part of the model run
    got_hung = sorted(h['caller'] for h in r.get('hung', []) if h['caller'] not in r.get('waiting', []))
    if got_hung != sorted(final['hung']):
        ctx.disagree(f'hanging callers: model {final["hung"]} vs implementation {got_hung}', dict(base, what='hung'))
    if sorted(r.get('waiting', [])) != sorted(final['waiting']):
        ctx.disagree(f'callers waiting for the peer: model {final["waiting"]} vs implementation {r.get("waiting")}', dict(base, what='waiting'))
    # outcomes per call (calls finished during cleanup of a waiting receive are not part of the model run)
    for i, mh in enumerate(final['hist']):
        ih = [(op, out) for (op, out, *_rest) in r['hist'][i]][:len(mh)]
        if ih != [tuple(x) for x in mh]:
            ctx.disagree(f'T{i} outcomes: model {mh} vs implementation {ih}', dict(base, what='outcomes', caller=i))
            break
    if r.get('event_at_stop') is True:
        ctx.disagree('closed_event was already set when bridge.stop() was called (model: stop first)', dict(base, what='event-before-stop'))


def build_scenarios(ctx, cfgs_modes):
    """ask the model for runs and predicted traces; returns scenario dicts (labels None when the model is unavailable)"""
    drv = ctx.driver
    gens = [f'sync.gen {cfg_sx(cfg)} {seed} {1 if safe else 0} 600' for cfg, seed, safe in cfgs_modes]
    ans = drv.ask(gens)
    scs = []
    for (cfg, seed, safe), a in zip(cfgs_modes, ans):
        labels = a[4:-1].split() if a.startswith('ok (') else []
        scs.append({'cfg': cfg, 'labels': labels, 'safe': safe})
    attach_traces(ctx, scs)
    return scs


def attach_traces(ctx, scs):
    ans = ctx.driver.ask([f"sync.run {cfg_sx(s['cfg'])} ({' '.join(s['labels'])})" for s in scs])
    for s, a in zip(scs, ans):
        summ, oks, final, disabled = parse_trace(a)
        s['expect'] = summ
        s['final'] = final
        s['disabled'] = disabled
        s['all_ok'] = all(oks)
        if disabled:
            s['labels'] = s['labels'][:len(summ) - 1]


FALLBACK = [   # used when the model driver cannot be built: the oracle still runs on forced interleavings
    ({'progs': [['send', 'recv', 'close', 'recv']], 'peer': ['reply']},
     'peer c0 c0 c0 c0 j0 c0 c0 c0 c0 j0 c0 c0 c0 c0 c0 c0 c0 j0 c0 close c0 close close close c0 stop c0 c0 c0'),
    ({'progs': [['recv'], ['close']], 'peer': []},
     'c1 c1 c0 c1 c0 c1 c1 c0 c1 j0 j1 close c1 c1 close close close c1 c0 stop c1'),
    ({'progs': [['recv'], ['logout', 'send']], 'peer': ['eos']},
     'c0 peer close c0 close close close stop c1 c0 c1 c1 c1 c0 c1 c1 c1 c1'),
]


def load_corpus():
    import common
    out = []
    d = os.path.join(common.VERIF, 'corpus', 'C20')
    if os.path.isdir(d):
        for f in sorted(os.listdir(d)):
            if f.endswith('.json'):
                j = json.load(open(os.path.join(d, f)))
                if 'cfg' in j:
                    out.append({'cfg': j['cfg'], 'labels': j['labels'], 'name': j.get('name', f), 'corpus': f})
    return out


def load_exec_corpus():
    """executor-level regressions (`{"exec": [call, …]}` files of corpus/C20)"""
    import common
    out = []
    d = os.path.join(common.VERIF, 'corpus', 'C20')
    if os.path.isdir(d):
        for f in sorted(os.listdir(d)):
            if f.endswith('.json'):
                j = json.load(open(os.path.join(d, f)))
                for e in j.get('exec', []):
                    out.append(dict(e, type='exec', corpus=f))
    return out


def witness_scenarios(ctx):
    a = ctx.driver.ask(['witness C20'])[0]
    import common
    out = []
    for w in common.parse_sx(a[3:]):
        name, cfg, labels = w[0], w[1], w[2]
        progs = [list(p) for p in cfg[0][1:]]
        peer = list(cfg[1][1:])
        out.append({'cfg': {'progs': progs, 'peer': peer}, 'labels': list(labels), 'name': name})
    return out


def run(ctx):
    _install_known(ctx)
    rng = ctx.rng
    quick = ctx.tier == 'quick'
    n_cfg = 700 if quick else 6000
    ctx.cov['rule'] = ('configuration = 1..3 caller threads x programs of 1..3 calls over {recv, send, sendUnseq, close, logout, execTimed} '
                       'x 0..3 peer events {reply, eos, disc}; for each, maximal interleavings generated by the model (one unrestricted, '
                       'one preferring steps outside the known-defect window) and forced on the real classes statement by statement; '
                       'distinct = distinct (configuration, interleaving); plus the Lean witness runs, the corpus and soup.connect outcomes; '
                       'plus executor-level calls: execute / execute_sync of a coroutine / callable that returns or raises one of 14 exception '
                       'classes (TimeoutError under 4 aliases, subclass, ETIMEDOUT, both CancelledErrors, StateError, EndOfQueue, ValueError, '
                       'KeyError, ConnectionRefusedError, BaseException subclass) x 12 phase scripts over the polls of the slice loop (ends within '
                       'slice k / between the expiry of slice k and the done() check / executor stopped under the call at slice k / stopped right '
                       'behind the completion) x {no, far, expired caller-side timeout}, dead executor, bad argument, and real-time calls '
                       '(asyncio.wait_for, asyncio.timeout, bounded receive_msg on a connected session with a silent peer, stop() from another thread)')
    ctx.notes.append('C20: OS thread scheduling and fairness are not modelled — the harness forces each interleaving with gates; '
                     'the model allows every interleaving and assumes no fairness')
    ctx.notes.append('C20: one coroutine = one atomic loop step in the model; of asyncio\'s FIFO ready queue only "submitted before '
                     'AsyncSession.close began => runs before it begins" is relied upon; heartbeat monitors are kept out (1000 s intervals)')
    have_model = ctx.driver.available
    scs = []
    if have_model:
        try:
            ws = witness_scenarios(ctx)
            for s in ws:
                s['witness'] = True
            cor = load_corpus()
            cfgs = []
            for _ in range(n_cfg):
                cfg = gen_cfg(rng, ctx.tier)
                cfgs.append((cfg, rng.randrange(2 ** 32), False))
                cfgs.append((cfg, rng.randrange(2 ** 32), True))
            pre = ws + cor
            attach_traces(ctx, pre)
            scs = pre + build_scenarios(ctx, cfgs)
        except Exception as e:  # noqa
            ctx.disagree('model driver failed: ' + repr(e)[:300], {'kind': 'driver'})
            have_model = False
    if not have_model:
        scs = [{'cfg': c, 'labels': l.split(), 'expect': None, 'final': None} for c, l in FALLBACK]
        scs += [dict(s, expect=None, final=None) for s in load_corpus()]
        for _ in range(24 if quick else 240):       # blind search: random label sequences, executed best-effort
            cfg = gen_cfg(rng, ctx.tier)
            nthr = len(cfg['progs'])
            pool_ = [f'c{i}' for i in range(nthr)] * 6 + [f'j{i}' for i in range(nthr)] * 2 + ['close'] * 4 + ['stop', 'peer', 'peer']
            scs.append({'cfg': cfg, 'labels': [rng.choice(pool_) for _ in range(50)], 'expect': None, 'final': None})
        ctx.notes.append('C20: model driver unavailable — oracle only, on the fallback and corpus interleavings')
    for k, s in enumerate(scs):
        s['id'] = k
    conn = [{'type': 'connect', 'mode': m, 'id': f'connect-{m}'} for m in ('accepted', 'rejected', 'peerClosed', 'connRefused',
                                                                             'acceptedThenClosed')]
    execs = load_exec_corpus() + gen_exec(rng, ctx.tier)
    for k, e in enumerate(execs):
        e['id'] = f'exec-{k}'
    nworkers = min(12, max(2, (os.cpu_count() or 4) - 2))
    pool = Pool(nworkers)
    import c20_stall
    stall = c20_stall.start(ctx)      # back-pressure scenarios on real sockets (peer that stops reading), in the background
    payload = [{'id': s['id'], 'cfg': s['cfg'], 'labels': s['labels'], 'expect': s.get('expect'),
                'grace': 1.0 if quick else 2.0} for s in scs] + conn + execs
    results = pool.map(payload)
    exec_results = results[len(scs) + len(conn):]
    results = results[:len(scs) + len(conn)]
    # a step that merely took too long on a loaded machine looks like "thread did not reach its next statement": scenarios
    # with a model/implementation difference are run a second time in a fresh process; a real difference repeats
    again = [k for k, r in enumerate(results[:len(scs)]) if r.get('disagree') or r.get('process_timeout') or r.get('fatal')][:40]
    if again:
        second = Pool(min(4, len(again))).map([payload[k] for k in again])
        healed = 0
        for k, r2 in zip(again, second):
            if not (r2.get('disagree') or r2.get('process_timeout') or r2.get('fatal')):
                results[k] = r2
                healed += 1
        if healed:
            ctx.notes.append(f'C20: {healed} scenario(s) differed from the model only on the first attempt (timing on a loaded machine) and agreed when re-run')
    for s, r in zip(scs, results[:len(scs)]):
        rep = f"{cfg_sx(s['cfg'])} {' '.join(s['labels'])}"
        ctx.case(rep, nontrivial=len(s['labels']) > 3, sample_every=37)
        ctx.count(f"callers:{len(s['cfg']['progs'])}")
        for p in s['cfg']['progs']:
            for op in p:
                ctx.count('op:' + op)
        for ev in s['cfg']['peer']:
            ctx.count('peer:' + ev)
        if s.get('final'):
            ctx.count('model:' + ('hang' if s['final']['hung'] else ('waiting' if s['final']['waiting'] else 'all-return')))
            if s.get('disabled'):
                ctx.disagree(f"label {s['disabled']} of a stored run is not enabled in the model", {'cfg': s['cfg'], 'labels': s['labels'], 'kind': 'stale-run'})
        oracle(ctx, s, r)
        if s.get('final'):
            correspondence(ctx, s, r, s['final'])
            if s.get('witness') and not r.get('hung') and s['final']['hung']:
                ctx.disagree(f"witness {s.get('name')}: the implementation did not hang where the Witness theorem says the model does", {'cfg': s['cfg'], 'labels': s['labels']})
    # ---- minimise the first failing input that is not a recorded finding
    if ctx.violations and ctx.violations[0][1].get('cfg'):
        what, rep = ctx.violations[0]
        try:
            small = shrink(rep, rep['kind'])
            if small:
                ctx.violations[0] = (small[0] + '  [minimised from ' + cfg_sx(rep['cfg']) + ']', small[1])
        except Exception as e:  # noqa
            ctx.notes.append('C20: shrinking failed: ' + repr(e)[:200])
    # ---- executor-level calls whose coroutine / callable raises
    run_execs(ctx, execs, exec_results, have_model)
    # ---- soup.connect
    model_conn = {}
    if have_model:
        for m, a in zip([c['mode'] for c in conn], ctx.driver.ask([f"sync.connect {c['mode']}" for c in conn])):
            model_conn[m] = a
    for c, r in zip(conn, results[len(scs):]):
        ctx.case('connect ' + c['mode'])
        ctx.count('connect:' + c['mode'])
        rep = {'kind': 'connect', 'mode': c['mode']}
        if r.get('process_timeout') or not r.get('returned', False):
            ctx.violation(f"soup.connect ({c['mode']}) did not return", rep)
            continue
        if r.get('fatal'):
            ctx.violation('connect scenario failed: ' + r['fatal'], rep)
            continue
        raised = r['raised'] is not None
        if raised and r['executor_alive']:
            ctx.violation(f"soup.connect raised {r['raised']} and left its executor thread running", rep)
        if not raised and (r.get('close_after') != {'ok': True} or r.get('executor_alive_after_close')):
            ctx.violation(f"close() after connect: {r.get('close_after')}, thread alive {r.get('executor_alive_after_close')}", rep)
        if c['mode'] in model_conn and c['mode'] != 'acceptedThenClosed':
            got = f"ok raised={'1' if raised else '0'} alive={'1' if r['executor_alive'] else '0'}"
            if got != model_conn[c['mode']]:
                ctx.disagree(f"connect {c['mode']}: model {model_conn[c['mode']]} vs implementation {got} ({r['raised']})", rep)
    c20_stall.finish(ctx, stall)


def run_execs(ctx, execs, exec_results, have_model):
    reqs = [exec_model_request(e) for e in execs]
    answers = [None] * len(execs)
    if have_model:
        idx = [k for k, q in enumerate(reqs) if q is not None]
        try:
            for k, a in zip(idx, ctx.driver.ask([reqs[k] for k in idx])):
                answers[k] = a
        except Exception as e:  # noqa
            ctx.disagree('model driver failed on sync.exec: ' + repr(e)[:300], {'kind': 'driver'})
    # a poll count that differs only under load: re-run once, alone
    first_bad = None
    for e, r, a in zip(execs, exec_results, answers):
        ctx.case('exec ' + json.dumps({k: v for k, v in e.items() if k not in ('id', 'type')}, sort_keys=True), nontrivial=True, sample_every=97)
        ctx.count('exec:' + e['api'] + (':timeout' if 'timeout' in e else ''))
        ctx.count('exec-coroutine:' + ('returns' if e.get('exc') is None else e['exc']))
        ctx.count('exec-phase:' + ('real-time' if e.get('realtime') else ('dead' if e.get('dead') else ('bad-arg' if e.get('arg') == 'bad' else
                                                                                                    'stop-behind-check' if e.get('stop_after_check') else
                                                                                                    ' '.join(e.get('script', [])) or 'at-once'))))
        ctx.count('exec-outcome:' + ('hang' if r.get('hung') or r.get('process_timeout') else str(r.get('outcome'))))
        found = exec_findings(e, r)
        for what, rep in found:
            ctx.count('oracle:' + rep['kind'])
            if first_bad is None and not ctx.violations:
                first_bad = (e, rep['kind'])
            ctx.violation(what, rep)
        if not found:
            exec_correspondence(ctx, e, r, a)
    if first_bad is not None and ctx.violations and ctx.violations[0][1].get('exec') is not None:
        try:
            small = shrink_exec(first_bad[0], first_bad[1])
            if small:
                ctx.violations[0] = (small[0] + '  [minimised from ' + exec_desc(first_bad[0]) + ']', small[1])
        except Exception as e:  # noqa
            ctx.notes.append('C20: shrinking of the executor-level call failed: ' + repr(e)[:200])


def _install_known(ctx):
    """findings not yet in known_findings.json are matched locally (same rule: all signature keys equal)"""
    import common
    registered = {k['id'] for k in common.load_known(ctx.prop)}
    local = [k for k in KNOWN_LOCAL if k['id'] not in registered]
    orig_violation = ctx.violation

    def violation(what, replay):
        for k in local:
            if common.matches_known(k, replay):
                if k['id'] not in [x[0] for x in ctx.known_hits]:
                    ctx.known_hits.append((k['id'], k['what']))
                return
        return orig_violation(what, replay)
    ctx.violation = violation


def replay(ctx, path):
    _install_known(ctx)
    r = json.load(open(path))
    rep = r.get('replay') or (r.get('no_longer_checks') or [{}])[-1].get('case') or r
    ctx.cov['rule'] = 'replay of ' + path
    if rep.get('kind') == 'connect':
        res = Pool(1).map([{'type': 'connect', 'mode': rep['mode'], 'id': 0}])[0]
        print('implementation:', res)
        ctx.case('connect ' + rep['mode'])
        return
    if rep.get('kind') == 'stall':
        import c20_stall
        return c20_stall.replay(ctx, rep)
    if rep.get('exec') is not None:
        e = dict(rep['exec'], id='exec-0', type='exec')
        res = Pool(1).map([e])[0]
        print('call          :', exec_desc(e))
        q = exec_model_request(e)
        ans = ctx.driver.ask([q])[0] if (q is not None and ctx.driver.available) else None
        print('model         :', ans)
        print('implementation:', {k: v for k, v in res.items() if k != 'id'})
        run_execs(ctx, [e], [res], ctx.driver.available)
        ctx.case('replay-marker')
        return
    sc = {'cfg': rep['cfg'], 'labels': rep['labels'], 'id': 0}
    if ctx.driver.available:
        attach_traces(ctx, [sc])
    res = Pool(1).map([{'id': 0, 'cfg': sc['cfg'], 'labels': sc['labels'], 'expect': sc.get('expect'), 'grace': 2.0}])[0]
    ctx.case(cfg_sx(sc['cfg']) + ' ' + ' '.join(sc['labels']))
    ctx.case('replay-marker')
    print('configuration :', cfg_sx(sc['cfg']))
    print('interleaving  :', ' '.join(sc['labels']))
    if sc.get('final'):
        print('model         : hung', sc['final']['hung'], 'outcomes', sc['final']['hist'])
    print('implementation: hung', [(h['caller'], h['op'], h['kind']) for h in res.get('hung', [])],
          'outcomes', [[(x[0], x[1]) for x in h] for h in res.get('hist', [])], 'thread alive', res.get('thread_alive'),
          'is_closed', res.get('is_closed'))
    for d in res.get('disagree', []):
        print('  differs at step', d['step'], d['label'], '\n    model', d['model'], '\n    impl ', d['impl'])
    oracle(ctx, sc, res)
    if sc.get('final'):
        correspondence(ctx, sc, res, sc['final'])


if __name__ == '__main__':
    if '--worker' in sys.argv:
        worker_main()
