"""C10 on a transport with WRITE flow control — histories, runners, oracle (called from c10.flow_family).

The histories of harness/c10.py run on a transport that never talks back.  A real asyncio transport calls `protocol.pause_writing()`
(synchronously, from inside `transport.write`) once what the peer has not read exceeds its high-water mark and
`protocol.resume_writing()` (from a loop callback) once the peer has read it down again.  The statement of C10 quantifies over "any
interleaving of application sends and automatic heartbeats": the window in which the transport has asked for a pause is part of
that — sends, rejected sends, explicit heartbeats and, above all, TIMER-DRIVEN heartbeats fall into it.

A flow history is a C10 history (FIX: `gen_fix_history` shape, soup: `run_soup_history` shape) plus
    'flow': {'hw': high-water mark in bytes, 'lw': low-water mark or None}
and the operations
    ['wstop', k]          the peer stops reading (the kernel still takes k bytes)
    ['wgo'] | ['wgo', n]  the peer reads everything and keeps reading | reads n buffered bytes
    ['turns', k]          k loop turns without time passing (lets the transport's `_write_ready` callback run)
(`vloop.FakeTransport.enable_write_flow`).  For the session machine of Model/Seq.lean these are stutter steps — `AsyncSession`
inherits both callbacks from `asyncio.BaseProtocol` (empty bodies) and `send_msg` writes unconditionally; Model/SeqFlow.lean,
Props/C10Flow.lean state it — so the correspondence asks the model for the history with them erased.

  oracle (implementation alone)   FIX: the frames WRITTEN (handed to `transport.write`) from the logon on carry logon MsgSeqNum,
                                  +1, +2, …, whatever was due, sent, rejected or failed while writing was paused (c10.fix_oracle on
                                  the events + the same read directly off the transport's write log);
                                  soup: counter == initial + number of 'S' packets written after every operation (c10.soup_oracle)
"""
import asyncio
import json

import common
from common import sx, err_name
import vloop


def M():
    import c10
    return c10


# =====================================================================================================================
# FIX
# =====================================================================================================================
def run_fix_flow(h):
    """as c10.run_fix_history, on a transport with write flow control; events in the same format + out['flow'] (what the transport
    called), out['paused_auto'] (automatic heartbeats written while writing was paused), out['paused_ops'] (explicit operations
    executed while writing was paused)"""
    m = M()
    env = m.fixenv()
    fix = env['fix']
    HB = m.HB
    loop = m.GuardedLoop()
    out = {'events': [], 'frames': [], 'flow': [], 'paused_auto': 0, 'paused_ops': 0, 'due_while_paused': 0}

    def outcome(err, new):
        if new:
            return 'w ' + str(m.tag34(new[0]))
        return {'value': 'rej', 'type': 'type', 'unicode': 'enc', 'none': 'nothing'}.get(err, err)

    async def main():
        tr = vloop.FakeTransport(loop)
        fl = h.get('flow') or {}
        tr.enable_write_flow(high=fl.get('hw', 0), low=fl.get('lw'))
        cls = fix.Fix44Session if h['ver'] == '44' else fix.Fix50Session
        session = cls(client_heartbeat_interval=HB, server_heartbeat_interval=1.0)
        tr.protocol = session
        session.connection_made(tr)

        def do_send(label, spec, comp_ascii=True):
            before = len(tr.writes)
            err = 'none'
            try:
                msg, valid, segs = m.fix_build_segments(spec, comp_ascii)
                enc = all(segs)
            except Exception as e:  # noqa
                out['events'].append(('op', label, 'build:' + err_name(e), m.peek_counter(session), True, True, 'send', (True, True, True)))
                return
            if tr.is_write_paused():
                out['paused_ops'] += 1
            try:
                session.send_msg(msg)
            except Exception as e:  # noqa
                err = err_name(e)
            new = [w for _, w in tr.writes[before:]]
            out['events'].append(('op', label, outcome(err, new), m.peek_counter(session), valid, enc, 'send', segs))

        for i, spec in enumerate(h['pre']):
            do_send(f'pre {i}', spec)
        before = len(tr.writes)
        lmsg, lvalid, lsegs = m.fix_build_segments(h['logon'])
        lenc = all(lsegs)
        task = asyncio.ensure_future(session.login(lmsg))
        await vloop.turns(2)
        new = [w for _, w in tr.writes[before:]]
        lerr = 'none'
        if task.done():
            try:
                task.result()
            except Exception as e:  # noqa
                lerr = err_name(e)
        else:
            session.data_received(m.logon_reply_frame(b'FIX.4.4' if h['ver'] == '44' else b'FIXT.1.1'))
            try:
                await asyncio.wait_for(task, HB / 4)
            except Exception as e:  # noqa
                lerr = 'login:' + err_name(e)
        out['events'].append(('op', 'logon', outcome(lerr, new), m.peek_counter(session), lvalid, lenc, 'login', lsegs))
        out['login_error'] = lerr
        out['logon_frames'] = len(tr.writes)
        for i, op in enumerate(h['ops']):
            before = len(tr.writes)
            if op[0] == 'send':
                do_send(i, op[1])
            elif op[0] == 'hb':
                err = 'none'
                if tr.is_write_paused():
                    out['paused_ops'] += 1
                try:
                    await session.send_heartbeat()
                except Exception as e:  # noqa
                    err = err_name(e)
                new = [w for _, w in tr.writes[before:]]
                out['events'].append(('op', i, outcome(err, new), m.peek_counter(session), True, True, 'hb', (True, True, True)))
            elif op[0] == 'close':
                try:
                    await session.close()
                except Exception:  # noqa
                    pass
            elif op[0] in ('advance', 'wstop', 'wgo', 'turns'):
                was_paused = tr.is_write_paused()
                if op[0] == 'advance':
                    await asyncio.sleep(op[1] * HB / 2)
                elif op[0] == 'wstop':
                    tr.peer_stops_reading(op[1] if len(op) > 1 else 0)
                elif op[0] == 'wgo':
                    tr.peer_reads(op[1] if len(op) > 1 else None)
                else:
                    await vloop.turns(op[1])        # (a timer that is due at this very instant fires during these turns)
                autos = [w for _, w in tr.writes[before:]]
                for w in autos:
                    out['events'].append(('auto', 'w ' + str(m.tag34(w)), None, m.msgtype(w) == b'0'))
                if autos:
                    e = out['events'][-1]
                    out['events'][-1] = (e[0], e[1], m.peek_counter(session), e[3])
                if op[0] == 'advance' and was_paused and tr.is_write_paused():
                    out['paused_auto'] += len(autos)
                    out['due_while_paused'] += 1
            else:
                raise ValueError(op[0])
        out['frames'] = [w for _, w in tr.writes]
        out['flow'] = [n for n, _ in tr.flow_log]
        try:
            await session.close()
        except BaseException:  # noqa
            pass

    out['escaped'] = m.run_guarded(loop, main())
    return out


def fix_flow_oracle(h, out):
    """the statement on the implementation alone -> description or None"""
    m = M()
    paused = (f' ({out["paused_auto"]} automatic heartbeat(s) were written and {out["paused_ops"]} explicit operation(s) executed while the '
              f'transport had writing paused; transport callbacks: {out["flow"]})') if out.get('flow') else ''
    bad = m.fix_oracle(h, out)
    if bad:
        return bad[0] + paused
    # the same, read directly off what reached `transport.write`: the logon frame and everything after it
    if out.get('login_error') == 'none' and out.get('logon_frames'):
        q = h['logon_seq']
        frames = out['frames'][out['logon_frames'] - 1:]
        tags = [m.tag34(f) for f in frames]
        exp = [q + k for k in range(len(tags))]
        if tags != exp:
            k = next(i for i, (a, b) in enumerate(zip(tags, exp)) if a != b)
            return (f'frame number {k} written after the logon carries MsgSeqNum {tags[k]}, expected {q} + {k} = {exp[k]} '
                    f'(MsgSeqNum of the frames written from the logon on: {tags[:k + 2]})' + paused)
    return None


def fix_flow_model_ops(h, out):
    ops = []
    for ev in out['events']:
        if ev[0] == 'op':
            kind, valid, enc = ev[6], ev[4], ev[5]
            ops.append(['login', h['logon_seq'], valid, enc] if kind == 'login' else [kind, valid, enc])
        else:
            ops.append(['hb', True, True])
    return ops


def check_fix_flow(ctx, h, ans_for=None):
    m = M()
    rep = lambda hh: {'kind': 'flow-history', 'proto': 'fix', 'history': hh}
    try:
        out = run_fix_flow(h)
    except Exception as e:  # noqa
        m.report(ctx, f'FIX flow-control history could not be driven: {err_name(e)}: {e}', rep(h))
        return None
    if out.get('escaped'):
        ctx.count('history-did-not-complete:' + out['escaped'])
        ctx.disagree(f'FIX (flow control): the history did not run to its end on the implementation ({out["escaped"]})', rep(h))
    bad = fix_flow_oracle(h, out)
    if bad:
        small = h
        if len(ctx.violations) < 3:
            def failing(c):
                return fix_flow_oracle(c, run_fix_flow(c)) is not None
            small = m.shrink_fix(h, failing)
            bad = fix_flow_oracle(small, run_fix_flow(small)) or bad
        m.report(ctx, 'FIX on a transport with write flow control: ' + bad, rep(small))
    if ans_for is not None:
        ans = ans_for(f'seq.fix {m.VARIANT[0]} {sx(fix_flow_model_ops(h, out))}')
        d = m.fix_compare(h, out, ans)
        if d:
            ctx.disagree('FIX (flow control; pause_writing / resume_writing erased for the model): ' + d, rep(h))
    return out


FLOW_HW = [0, 0, 90, 260, 700]        # a FIX frame of these histories is 70-130 bytes


def gen_fix_flow_history(rng, shape=None):
    """logon -> [some traffic] -> the peer stops reading -> [sends that fill the transport's buffer] -> 1..5 heartbeat intervals pass
    (timer-driven heartbeats fall due inside the paused window; explicit heartbeats, valid / rejected / unencodable sends may be mixed
    in) -> the peer reads again (at once / partly first / never) -> more sends and heartbeats.  `shape` = 'random' sprinkles the
    transport events over an ordinary C10 FIX history instead."""
    m = M()
    shape = shape or rng.choice(['window', 'window', 'window', 'two-windows', 'random'])
    h = m.gen_fix_history(rng, 0)
    h['logon']['user'] = h['logon']['user'] if (h['logon']['user'] or 'x').isascii() else 'user'
    h['logon']['hdr'] = {k: v for k, v in h['logon']['hdr'].items() if not (isinstance(v, str) and not v.isascii())}
    h['flow'] = {'hw': rng.choice(FLOW_HW), 'lw': rng.choice([None, None, 0])}
    if h['flow']['lw'] is None:
        del h['flow']['lw']
    good = lambda: {'cls': rng.choice(['Order', 'Wide']), 'f1': rng.randint(0, 99), 'f2': rng.choice(['abc', 'x=y', ''])}
    ops = []

    def traffic(n):
        for _ in range(n):
            c = rng.random()
            ops.append(['send', good()] if c < 0.45 else ['send', m.gen_fix_msg(rng)] if c < 0.7 else ['hb'] if c < 0.8
                       else ['advance', rng.choice([1, 1, 2, 3])])

    def window():
        ops.append(['wstop', rng.choice([0, 0, 0, 50, 400])])
        fill = rng.choice([0, 0, 2, 4, 9])
        ops.extend(['send', good()] for _ in range(fill))
        # timer-driven heartbeats: n half-intervals without an application send
        for _ in range(rng.choice([1, 1, 2, 3])):
            ops.append(['advance', rng.choice([2, 3, 4, 5, 7, 10])])
            if rng.random() < 0.35:
                traffic(rng.choice([1, 1, 2]))
        r = rng.random()
        if r < 0.6:
            ops.append(['wgo'])
        elif r < 0.85:
            ops.extend([['wgo', rng.choice([1, 60, 300])], ['turns', 2], ['wgo']])
        # else: the peer never reads again
        if rng.random() < 0.7:
            ops.append(['turns', rng.choice([1, 2])])

    if shape == 'random':
        h2 = m.gen_fix_history(rng, rng.randint(6, 16))
        ops = [op for op in h2['ops'] if op[0] != 'close']
        for _ in range(rng.randint(1, 3)):
            i = rng.randrange(len(ops) + 1)
            j = rng.randrange(i, len(ops) + 1)
            ops.insert(j, ['wgo'])
            ops.insert(i, ['wstop', rng.choice([0, 0, 100])])
    else:
        traffic(rng.choice([0, 0, 1, 3]))
        window()
        traffic(rng.choice([1, 2, 4]))
        if shape == 'two-windows':
            window()
            traffic(rng.choice([1, 2, 3]))
        if rng.random() < 0.1:
            ops.append(['close'])
            traffic(1)
    h['ops'] = ops
    h['shape'] = shape
    return h


# =====================================================================================================================
# soup
# =====================================================================================================================
def run_soup_flow(h):
    """as c10.run_soup_history, on a transport with write flow control"""
    m = M()
    role = h['role']
    loop = m.GuardedLoop()
    out = {'trace': [], 'mops': [], 'writes': [], 'login': None, 'seq_after': [], 'flow': [], 'paused_writes': 0}

    async def main():
        s = m.soup()
        tr = vloop.FakeTransport(loop)
        fl = h.get('flow') or {}
        tr.enable_write_flow(high=fl.get('hw', 0), low=fl.get('lw'))
        state = {'reply': ('acc', 1)}
        kw = dict(sequence=h['init'], client_heartbeat_interval=m.HB, server_heartbeat_interval=m.HB)
        if role == 'server':
            session = m.make_server_cls()(**kw)
            session.reply_state = state
        else:
            session = s.SoupClientSession(**kw)
        tr.protocol = session
        session.connection_made(tr)
        out['initial_seq'] = session.sequence
        for op in h['ops']:
            if op[0] in ('wstop', 'wgo', 'turns'):
                before = len(tr.writes)
                if op[0] == 'wstop':
                    tr.peer_stops_reading(op[1] if len(op) > 1 else 0)
                elif op[0] == 'wgo':
                    tr.peer_reads(op[1] if len(op) > 1 else None)
                else:
                    await vloop.turns(op[1])        # (a timer that is due at this very instant fires during these turns)
                err, mops = 'none', [m.obs_to_model_op(role, w) for _, w in tr.writes[before:]]
            else:
                was = tr.is_write_paused()
                before = len(tr.writes)
                err, mops = await m.apply_soup_op(session, tr, role, op, state)
                if was and tr.is_write_paused():
                    out['paused_writes'] += len(tr.writes) - before
            out['trace'].append((err, session.sequence, len(mops)))
            out['mops'] += mops
            out['seq_after'].append((session.sequence, len(tr.writes)))
        out['writes'] = [w for _, w in tr.writes]
        out['flow'] = [n for n, _ in tr.flow_log]
        try:
            await session.close()
        except BaseException:  # noqa
            pass

    out['escaped'] = m.run_guarded(loop, main())
    return out


def check_soup_flow(ctx, h, ans_for=None):
    m = M()
    rep = lambda hh: {'kind': 'flow-history', 'proto': 'soup', 'history': m.h_json(hh)}
    try:
        out = run_soup_flow(h)
    except Exception as e:  # noqa
        m.report(ctx, f'soup flow-control history could not be driven: {err_name(e)}: {e}', rep(h))
        return None
    if out.get('escaped'):
        ctx.count('history-did-not-complete:' + out['escaped'])
        ctx.disagree(f'soup {h["role"]} (flow control): the history did not run to its end on the implementation ({out["escaped"]})', rep(h))
    bad = m.soup_oracle(h, out)
    if bad:
        small = h
        if len(ctx.violations) < 3:
            def failing(c):
                return m.soup_oracle(c, run_soup_flow(c)) is not None
            small = m.shrink_soup(h, failing)
            bad = m.soup_oracle(small, run_soup_flow(small)) or bad
        m.report(ctx, f'soup {h["role"]} on a transport with write flow control: {bad} (transport callbacks: {out["flow"]})', rep(small))
    if ans_for is not None:
        ans = ans_for(m.soup_model_request(h['role'], True, h['init'], None, out['mops']))
        d = m.soup_compare(h, out, ans)
        if d:
            ctx.disagree(f'soup {h["role"]} (flow control; pause_writing / resume_writing erased for the model): {d}', rep(h))
    return out


def gen_soup_flow_history(rng):
    m = M()
    role = rng.choice(['server', 'server', 'client'])
    seqd = lambda: (['seq_bytes', bytes(rng.randrange(256) for _ in range(rng.choice([0, 1, 5, 40])))] if role == 'server'
                    else ['unseq', bytes(rng.randrange(256) for _ in range(rng.choice([0, 1, 5])))])
    ops = [op for op in m.gen_soup_ops(rng, role, rng.randint(0, 4), False) if op[0] not in ('close', 'lost', 'end', 'logout')]
    for _ in range(rng.choice([1, 1, 2])):
        ops.append(['wstop', rng.choice([0, 0, 10])])
        ops.extend(seqd() for _ in range(rng.choice([0, 1, 3, 8])))
        for _ in range(rng.choice([1, 2, 3])):
            ops.append(['advance', rng.choice([2, 3, 5, 8])])
            if rng.random() < 0.4:
                ops.append(rng.choice([seqd(), ['hb'], ['send', m.gen_soup_pkt(rng)]]))
        if rng.random() < 0.8:
            ops.extend([['wgo'], ['turns', rng.choice([0, 1, 2])]])
        ops.extend(seqd() for _ in range(rng.choice([1, 2, 4])))
        ops += [op for op in m.gen_soup_ops(rng, role, rng.randint(0, 3), False) if op[0] not in ('close', 'lost')]
    ops = [op for op in ops if op != ['turns', 0]]
    return {'role': role, 'init': m.gen_init(rng), 'connected': True, 'ops': ops,
            'flow': {'hw': rng.choice([0, 0, 12, 60])}}


# =====================================================================================================================
# entry points (called from c10.flow_family)
# =====================================================================================================================
def run_case(ctx, rep, ans_for):
    m = M()
    if rep.get('proto') == 'soup':
        h = m.h_unjson(rep['history'])
        ctx.case(json.dumps(rep, default=repr)[:300], nontrivial=True, sample_every=53)
        ctx.count('flow-soup-' + h['role'])
        out = check_soup_flow(ctx, h, ans_for)
        if out:
            ctx.count('flow-soup-writes-while-write-paused', out['paused_writes'])
            ctx.count('flow-soup:' + ('paused' if 'pause_writing' in out['flow'] else 'never-paused'))
        return out
    h = rep['history']
    ctx.case(json.dumps(rep)[:300], nontrivial=True, sample_every=53)
    ctx.count('flow-fix-history:' + str(h.get('shape', 'corpus')))
    out = check_fix_flow(ctx, h, ans_for)
    if out:
        ctx.count('flow-fix:' + ('paused' if 'pause_writing' in out['flow'] else 'never-paused'))
        if 'resume_writing' in out['flow']:
            ctx.count('flow-fix:resumed')
        ctx.count('flow-fix-automatic-heartbeats-while-write-paused', out['paused_auto'])
        ctx.count('flow-fix-explicit-operations-while-write-paused', out['paused_ops'])
        if out['paused_auto'] and 'resume_writing' in out['flow']:
            ctx.count('flow-fix:pause-heartbeat-resume')
    return out


def load_corpus():
    import os
    d = os.path.join(common.VERIF, 'corpus', 'C10-flow')
    out = []
    if os.path.isdir(d):
        for f in sorted(os.listdir(d)):
            if f.endswith('.json'):
                c = json.load(open(os.path.join(d, f)))
                out.append(c.get('replay') or c)
    return out


def run(ctx, asker):
    import random
    rng = random.Random(f'C10-flow-{ctx.seed}')      # own stream: the histories of harness/c10.py keep theirs
    quick = ctx.tier == 'quick'
    ans_for = asker.ask if asker.ok else None
    n_fix, n_soup = (140, 60) if quick else (3000, 1200)
    for rep in load_corpus():
        run_case(ctx, rep, ans_for)
    for i in range(n_fix):
        h = gen_fix_flow_history(rng)
        run_case(ctx, {'kind': 'flow-history', 'proto': 'fix', 'history': h}, ans_for)
    for i in range(n_soup):
        h = gen_soup_flow_history(rng)
        run_case(ctx, {'kind': 'flow-history', 'proto': 'soup', 'history': M().h_json(h)}, ans_for)
    ctx.notes.append('transport write flow control (harness/c10_flow.py): FIX and soup histories on a transport that calls pause_writing() / '
                     'resume_writing() as asyncio does — the peer stops reading, sends fill the buffer, timer-driven and explicit heartbeats, '
                     'valid / rejected / unencodable sends fall into the paused window, the peer reads again (at once / partly / never), more '
                     'sends; oracle: k-th frame WRITTEN carries logon MsgSeqNum + k (FIX), counter = initial + S packets written (soup); the '
                     'model sees the history with the transport callbacks erased (Props/C10Flow.lean: they are stutter steps)')


def replay(ctx, asker, rep):
    m = M()
    ans_for = asker.ask if asker.ok else None
    out = run_case(ctx, rep, ans_for)
    ctx.case('replay-marker')
    if out is None:
        return
    if rep.get('proto') == 'soup':
        print('implementation: per operation (exception, session.sequence, model ops):', out['trace'])
        print('implementation: writes:', [w[:12].hex() for w in out['writes']], ' transport callbacks:', out['flow'])
    else:
        print('operations:', rep['history']['ops'])
        print('implementation events:', out['events'])
        print('implementation tag 34 of frames:', [m.tag34(f) for f in out['frames']], ' transport callbacks:', out['flow'])
