"""C10 — FIX histories on message OBJECTS (called from c10.obj_family).

In the histories of harness/c10.py every send builds its message afresh from a spec: messages are values.  The library's messages
are mutable objects and `FixSession.send_msg` writes into the one it is given (comp ids, MsgSeqNum, SendingTime stay on the header
after the call).  The statement quantifies over "all sequences of send operations of every kind (including rejected ones)": sending
the SAME object again — unchanged, after an in-place change that makes it invalid, valid again, not serialisable in the header / body /
trailer —, sending a message obtained from the reader (its header carries the peer's MsgSeqNum and framing fields), sending a message
whose header the application numbered itself, logging on with an object that went through any of that, are such sequences.

An object history:
    {'ver': '44'|'50',
     'objs': [{'src': 'new'|'decoded', 'spec': <message spec of c10.gen_fix_msg>, 'stamp': None | n}, ...]       object id = position
     'ops':  [op, ...]}
  'new'      built by the application; `stamp` n: `Header.MsgSeqNum = n` given at construction
  'decoded'  `Message.from_bytes` (what the reader calls) of a frame of the peer numbered n built from the spec
  op = ['send', i]                 send_msg(obj_i)
     | ['logon', i]                login(obj_i); the peer's reply is fed once the request is out (at most one per history)
     | ['mutate', i, spec, mode]   in-place change of obj_i so that it is what `spec` describes; mode 'field': every differing body / header /
                                   trailer field assigned or removed on the live segments; 'body': `msg.Body = <new segment>` + the rest by field
     | ['stamp', i, n, how]        n int: `obj_i.Header.MsgSeqNum = n`; n None: how 'pop' removes the field, 'newhdr' replaces `msg.Header` by a
                                   fresh header holding the spec's application-set fields only
     | ['recv', i, n]              the peer sends the message obj_i describes, numbered n; obj_i is from now on THE OBJECT THE SESSION'S READER
                                   DELIVERED (`receive_msg_nowait()`; `Message.from_bytes` when the session is not in a state to receive)
     | ['hb'] | ['advance', k] | ['close']         as in c10.run_fix_history (explicit heartbeat, k * HB/2 of virtual time, close)

  oracle (implementation alone)   c10.fix_oracle on the events: the k-th frame written since the logon carries (the number the logon
                                  object's header states at the moment of the logon) + k; a send of an object whose body misses a required
                                  field — whatever its header carries — writes nothing and leaves the counter alone
  correspondence                  Model/SeqObj.lean through `seq.obj repaired`: objects with the number their header carries and what
                                  send_msg can observe of them segment by segment; per send the outcome and the counter, tag 34 of all frames
                                  (Props/C10Obj.lean: the k-th-frame clause over all such histories; the session never reads an object's number;
                                  Witness/C10Obj.lean: the rollback that reads the number back from the object repeats numbers — those three
                                  histories are printed by the driver and replayed here every run)
"""
import asyncio
import copy
import json
import time

import common
from common import sx, err_name
import vloop


def M():
    import c10
    return c10


BODY_NAMES = (('f1', 'Field_1_Int'), ('f2', 'Field_2_Str'), ('user', 'Username'))
IDENT = ('SenderCompID', 'TargetCompID', 'SenderSubID', 'MsgSeqNum', 'SendingTime')     # header fields the session / the logon own
BAD = ['café', '€', 'naïve', '中']


# =====================================================================================================================
# specs -> dictionaries of the three segments (mirrors c10.fix_build_segments, which stays the source of the valid / encodable flags)
# =====================================================================================================================
def body_dict(spec):
    d = {}
    if spec['cls'] in ('Order', 'Wide'):
        if spec.get('f1') is not None:
            d['Field_1_Int'] = spec['f1']
        if spec.get('f2') is not None:
            d['Field_2_Str'] = spec['f2']
        if spec.get('group') is not None:
            d['Field_22_Int'] = [dict(Field_1_Int=g[0], **({'Field_2_Str': g[1]} if g[1] is not None else {})) for g in spec['group']]
    elif spec.get('user') is not None:
        d['Username'] = spec['user']
    return d


def hdr_dict(spec, ident=False):
    d = {k: v for k, v in (spec.get('hdr') or {}).items() if ident or k not in IDENT}
    if spec.get('hops') is not None:
        d['C10NoHops'] = [dict(C10HopRefID=g[0], **({'C10HopCompID': g[1]} if g[1] is not None else {})) for g in spec['hops']]
    return d


def trl_dict(spec):
    return dict(spec.get('trl') or {})


def flags(spec):
    """(body valid, (header, body, trailer serialisable)) of the message `spec` describes — computed by the harness, not by the library"""
    _msg, valid, segs = M().fix_build_segments(spec)
    return valid, tuple(bool(x) for x in segs)


def spec_ascii(spec):
    return not M().spec_unencodable(spec)


def decodable(spec):
    """a peer can put it on the wire and the harness keeps it simple: plain fields only, ASCII text"""
    return spec['cls'] in ('Order', 'Wide') and spec_ascii(spec) and spec.get('group') is None and spec.get('hops') is None \
        and not spec.get('trl')


def peer_frame(spec, n, begin):
    """the frame a peer writes for the message `spec` describes, numbered n (written from the protocol description, tag=value)"""
    m = M()
    ty = {'Order': b'D', 'Wide': b'W'}[spec['cls']]
    fields = [b'35=' + ty, b'49=SERVER', b'56=CLIENT', b'34=' + str(n).encode(), b'52=20240101-00:00:00']
    for k, v in hdr_dict(spec).items():
        tag = {'TargetSubID': b'57', 'C10OnBehalfOfCompID': b'115'}[k]
        fields.append(tag + b'=' + v.encode('ascii'))
    if spec.get('f1') is not None:
        fields.append(b'1=' + str(spec['f1']).encode())
    if spec.get('f2') is not None:
        fields.append(b'2=' + spec['f2'].encode('ascii'))
    body = b''.join(f + m.SOH for f in fields)
    data = b'8=' + begin + m.SOH + b'9=' + str(len(body)).encode() + m.SOH + body
    return data + b'10=' + str(sum(data) % 256).rjust(3, '0').encode() + m.SOH


def build_new(spec, stamp):
    s = copy.deepcopy(spec)
    if stamp is not None:
        s['hdr'] = dict(s.get('hdr') or {}, MsgSeqNum=stamp)
    return M().fix_build_segments(s)[0]


def build_decoded(spec, n, begin, notes):
    fix = M().fixenv()['fix']
    try:
        msg = fix.Message.from_bytes(peer_frame(spec, n, begin))[1]
        if 'MsgSeqNum' in msg.Header and type(msg).__name__ == type(build_new(spec, None)).__name__:
            return msg
        notes.append('decoded message is not what the frame says')
    except Exception as e:  # noqa
        notes.append('peer frame did not decode: ' + err_name(e))
    return build_new(spec, n)                      # decoding is C13's subject: go on with an object carrying the same number


def apply_spec(msg, old, new, mode):
    """change the live object in place from what `old` describes to what `new` describes"""
    fix = M().fixenv()['fix']
    seg = fix.MessageSegments
    tag = fix.Field.get_tag

    def by_field(segment, was, now):
        for name in list(was):
            if name not in now:
                segment.values.pop(tag(name), None)
        for name, v in now.items():
            if name not in was or was[name] != v:
                segment[name] = v

    if mode == 'body':
        msg.Body = type(msg).SegmentCls[seg.BODY].from_value(body_dict(new))
    else:
        by_field(msg.Body, body_dict(old), body_dict(new))
    by_field(msg.Header, hdr_dict(old), hdr_dict(new))
    by_field(msg.Trailer, trl_dict(old), trl_dict(new))


def differs_from(msg, spec):
    """harness self-check after an in-place change: the live object must read as a freshly built message of `spec` (body, trailer,
    application-set header fields); returns a description or None"""
    fresh = M().fix_build_segments(spec)[0]
    try:
        if msg.Body.as_collection() != fresh.Body.as_collection():
            return f'body {msg.Body.as_collection()} vs {fresh.Body.as_collection()}'
        own = {k: v for k, v in msg.Trailer.as_collection().items() if k != 10}
        if own != fresh.Trailer.as_collection():
            return f'trailer {own} vs {fresh.Trailer.as_collection()}'
        fix = M().fixenv()['fix']
        skip = {fix.Field.get_tag(n) for n in IDENT} | {8, 9, 35}
        a = {k: v for k, v in msg.Header.as_collection().items() if k not in skip}
        b = {k: v for k, v in fresh.Header.as_collection().items() if k not in skip}
        if a != b:
            return f'header {a} vs {b}'
    except Exception as e:  # noqa
        return 'could not be read: ' + err_name(e)
    return None


# =====================================================================================================================
# runner
# =====================================================================================================================
def run_obj_history(h):
    """-> {'events': as c10.run_fix_history (labels name the object), 'frames', 'logon_q': the number the logon object's header carried
    when login() was called (None: no such field), 'mobjs' / 'mops': objects and operations for the model, 'notes', 'stats'}"""
    m = M()
    env = m.fixenv()
    fix = env['fix']
    HB = m.HB
    loop = m.GuardedLoop()
    begin = b'FIX.4.4' if h['ver'] == '44' else b'FIXT.1.1'
    out = {'events': [], 'frames': [], 'logon_q': None, 'mobjs': [], 'mops': [], 'notes': [], 'stats': {}, 'logged_on': False}
    cur = [copy.deepcopy(o['spec']) for o in h['objs']]
    carried = [o.get('stamp') for o in h['objs']]          # harness bookkeeping for the statistics only (never used by the oracle)

    def stat(k):
        out['stats'][k] = out['stats'].get(k, 0) + 1

    def outcome(err, new):
        if new:
            return 'w ' + str(m.tag34(new[0]))
        return {'value': 'rej', 'type': 'type', 'unicode': 'enc', 'none': 'nothing'}.get(err, err)

    def mflags(spec):
        v, s = flags(spec)
        return [v, s[0], s[1], s[2]]

    async def main():
        tr = vloop.FakeTransport(loop)
        cls = fix.Fix44Session if h['ver'] == '44' else fix.Fix50Session
        session = cls(client_heartbeat_interval=HB, server_heartbeat_interval=1.0)
        session.connection_made(tr)
        objs = []
        for o in h['objs']:
            if o['src'] == 'decoded':
                objs.append(build_decoded(o['spec'], o['stamp'], begin, out['notes']))
            else:
                objs.append(build_new(o['spec'], o.get('stamp')))
            out['mobjs'].append(['none' if o.get('stamp') is None else o['stamp']] + mflags(o['spec']))
        closed = False

        def event(label, err, before, i, kind):
            valid, segs = flags(cur[i]) if i is not None else (True, (True, True, True))
            new = [w for _, w in tr.writes[before:]]
            outc = outcome(err, new)
            out['events'].append(('op', label, outc, m.peek_counter(session), valid, all(segs), kind, segs))
            return outc, valid, segs

        for idx, op in enumerate(h['ops']):
            before = len(tr.writes)
            k = op[0]
            if k == 'send':
                i = op[1]
                err = 'none'
                had = carried[i]
                try:
                    session.send_msg(objs[i])
                except Exception as e:  # noqa
                    err = err_name(e)
                outc, valid, segs = event(f'{idx} (object {i})', err, before, i, 'send')
                out['mops'].append(['send', i])
                if outc.startswith('w ') or outc == 'enc':
                    carried[i] = 'session'
                stat('send-of-object-' + ('never-numbered' if had is None else ('numbered-by-an-earlier-send' if had == 'session'
                                                                                   else 'numbered-by-application-or-peer'))
                     + ':' + outc.split()[0])
            elif k == 'logon':
                i = op[1]
                lmsg = objs[i]
                try:
                    out['logon_q'] = lmsg.Header.MsgSeqNum if 'MsgSeqNum' in lmsg.Header else None
                except Exception:  # noqa
                    out['logon_q'] = None
                task = asyncio.ensure_future(session.login(lmsg))
                await vloop.turns(2)
                lerr = 'none'
                if task.done():
                    try:
                        task.result()
                    except Exception as e:  # noqa
                        lerr = err_name(e)
                    new_now = None
                else:
                    new_now = len(tr.writes)
                    session.data_received(m.logon_reply_frame(begin))
                    try:
                        await asyncio.wait_for(task, HB / 4)
                    except Exception as e:  # noqa
                        lerr = 'login:' + err_name(e)
                valid, segs = flags(cur[i])
                new = [w for _, w in tr.writes[before:(new_now if new_now is not None else len(tr.writes))]]
                outc = outcome(lerr, new)
                out['events'].append(('op', f'logon (object {i})', outc, m.peek_counter(session), valid, all(segs), 'login', segs))
                out['mops'].append(['login', i])
                out['login_error'] = lerr
                out['logged_on'] = lerr == 'none'
                if outc.startswith('w ') or outc == 'enc':
                    carried[i] = 'session'
            elif k == 'mutate':
                i, new, mode = op[1], op[2], op[3]
                try:
                    apply_spec(objs[i], cur[i], new, mode)
                except Exception as e:  # noqa
                    out['notes'].append(f'operation {idx}: in-place change of object {i} raised {err_name(e)}: {e}')
                cur[i] = copy.deepcopy(new)
                bad = differs_from(objs[i], new)
                if bad:
                    out['notes'].append(f'operation {idx}: object {i} after the in-place change ({mode}) does not read as its spec: {bad}')
                out['mops'].append(['mutate', i] + mflags(new))
                stat('mutate-' + mode)
            elif k == 'stamp':
                i, n, how = op[1], op[2], op[3]
                if n is not None:
                    objs[i].Header.MsgSeqNum = n
                elif how == 'newhdr':
                    objs[i].Header = type(objs[i]).SegmentCls[fix.MessageSegments.HEADER].from_value(hdr_dict(cur[i], ident=True))
                    n = (cur[i].get('hdr') or {}).get('MsgSeqNum')
                else:
                    objs[i].Header.values.pop(fix.Field.get_tag('MsgSeqNum'), None)
                carried[i] = n
                out['mops'].append(['stamp', i, 'none' if n is None else n])
                stat('stamp-' + ('set' if op[2] is not None else how))
            elif k == 'recv':
                i, n = op[1], op[2]
                got = None
                if not decodable(cur[i]):                   # (only in shrunk histories) nothing a peer would put on the wire
                    objs[i] = build_new(cur[i], n)
                    carried[i] = n
                    out['mops'].append(['stamp', i, n])
                    stat('recv-not-decodable')
                    continue
                if out['logged_on'] and not closed:
                    try:
                        session.data_received(peer_frame(cur[i], n, begin))
                        await asyncio.sleep(0.0003)
                        got = session.receive_msg_nowait()
                    except Exception as e:  # noqa
                        out['notes'].append(f'operation {idx}: receiving the peer frame raised {err_name(e)}')
                        got = None
                if got is not None and type(got).__name__ == type(objs[i]).__name__ and 'MsgSeqNum' in got.Header:
                    objs[i] = got
                    stat('recv-through-the-session-reader')
                else:
                    objs[i] = build_decoded(cur[i], n, begin, out['notes'])
                    stat('recv-decoded-directly')
                carried[i] = n
                out['mops'].append(['stamp', i, n])
            elif k == 'hb':
                err = 'none'
                try:
                    await session.send_heartbeat()
                except Exception as e:  # noqa
                    err = err_name(e)
                event(idx, err, before, None, 'hb')
                out['mops'].append(['hb', True, True, True, True])
                continue
            elif k == 'advance':
                await asyncio.sleep(op[1] * HB / 2)
            elif k == 'close':
                closed = True
                try:
                    await session.close()
                except Exception:  # noqa
                    pass
            # frames the session wrote on its own meanwhile (timer-driven heartbeats)
            if k in ('advance', 'recv', 'close', 'mutate', 'stamp'):
                autos = [w for _, w in tr.writes[before:]]
                for w in autos:
                    out['events'].append(('auto', 'w ' + str(m.tag34(w)), None, m.msgtype(w) == b'0'))
                    out['mops'].append(['hb', True, True, True, True])
                if autos:
                    e = out['events'][-1]
                    out['events'][-1] = (e[0], e[1], m.peek_counter(session), e[3])
            elif k == 'logon' and new_now is not None:
                for w in [w for _, w in tr.writes[new_now:]]:          # nothing is expected here (the monitors start after the reply)
                    out['events'].append(('auto', 'w ' + str(m.tag34(w)), m.peek_counter(session), m.msgtype(w) == b'0'))
                    out['mops'].append(['hb', True, True, True, True])
        out['frames'] = [w for _, w in tr.writes]
        try:
            await session.close()
        except BaseException:  # noqa
            pass

    out['escaped'] = m.run_guarded(loop, main())
    return out


class _Anything:
    """compares equal to everything (stands for a counter reading the oracle is asked not to look at)"""
    def __eq__(self, other):
        return True

    def __ne__(self, other):
        return False

    __hash__ = None


def obj_oracle(h, out, wire_only=False):
    """the statement on the implementation alone (c10.fix_oracle); the logon MsgSeqNum is what the logon object's header stated when
    login() was called — when it stated none, the number its frame carries.  `wire_only`: judge by the frames handed to the transport
    alone (tag 34 of the k-th frame, nothing written by a rejected send), without reading `session.sequence`"""
    q = out.get('logon_q')
    if not isinstance(q, int):
        q = 0
        for ev in out['events']:
            if ev[0] == 'op' and ev[6] == 'login' and ev[2].startswith('w '):
                try:
                    q = int(ev[2][2:])
                except ValueError:
                    pass
    if wire_only:
        anything = _Anything()
        out = dict(out, events=[(ev[:3] + (anything,) + ev[4:]) if ev[0] == 'op' else (ev[:2] + (None,) + ev[3:]) for ev in out['events']])
    return M().fix_oracle({'logon_seq': q}, out)


# =====================================================================================================================
# shrink
# =====================================================================================================================
def renumber(h):
    """drop objects no operation names"""
    used = sorted({op[1] for op in h['ops'] if op[0] in ('send', 'logon', 'mutate', 'stamp', 'recv')})
    pos = {old: new for new, old in enumerate(used)}
    ops = [[op[0], pos[op[1]]] + list(op[2:]) if op[0] in ('send', 'logon', 'mutate', 'stamp', 'recv') else list(op) for op in h['ops']]
    return dict(h, objs=[h['objs'][i] for i in used], ops=ops)


def shrink_obj(h, failing, budget=20.0):
    deadline = time.time() + budget

    def bad(c):
        if time.time() > deadline:
            return False
        try:
            return bool(failing(c))
        except Exception:  # noqa
            return False
    h = json.loads(json.dumps(h))
    i = 0
    while i < len(h['ops']):
        cand = dict(h, ops=h['ops'][:i] + h['ops'][i + 1:])
        if bad(cand):
            h = cand
        else:
            i += 1
    cand = renumber(h)
    if cand != h and bad(cand):
        h = cand
    for i, o in enumerate(h['objs']):                      # plainer objects
        plain = {'cls': 'Login', 'user': 'user', 'hdr': {k: v for k, v in (o['spec'].get('hdr') or {}).items() if k in IDENT}} \
            if o['spec']['cls'] in ('Login', 'Nope') else {'cls': 'Order', 'f1': 1, 'f2': 'a'}
        for cand_o in (dict(o, spec=plain), dict(o, src='new')):
            cand = dict(h, objs=[cand_o if j == i else x for j, x in enumerate(h['objs'])])
            if cand != h and bad(cand):
                h = cand
                o = cand_o
    for i, op in enumerate(h['ops']):                      # plainer changes
        if op[0] == 'mutate' and op[2]['cls'] in ('Order', 'Wide'):
            v, _s = flags(op[2])
            plain = {'cls': op[2]['cls'], 'f1': 1, 'f2': 'a'} if v else {'cls': op[2]['cls'], 'f1': 1, 'f2': None}
            cand = dict(h, ops=[[op[0], op[1], plain, op[3]] if j == i else x for j, x in enumerate(h['ops'])])
            if cand != h and bad(cand):
                h = cand
    return h


# =====================================================================================================================
# check one history
# =====================================================================================================================
def model_request(out, variant='repaired'):
    return f'seq.obj {variant} {sx(out["mobjs"])} {sx(out["mops"])}'


def check_obj_history(ctx, h, ans_for=None):
    m = M()
    replay = lambda x: {'kind': 'fix-obj-history', 'history': x}
    try:
        out = run_obj_history(h)
    except Exception as e:  # noqa
        m.report(ctx, f'FIX history on message objects could not be driven: {err_name(e)}: {e}', replay(h))
        return None
    if out.get('escaped'):
        ctx.count('history-did-not-complete:' + out['escaped'])
        ctx.disagree(f'FIX (message objects): the history did not run to its end on the implementation ({out["escaped"]})', replay(h))
    for note in out['notes'][:2]:
        ctx.disagree('FIX (message objects): ' + note, replay(h))
    bad = obj_oracle(h, out)
    if bad and len(ctx.violations) >= 3:
        m.report(ctx, 'FIX (message objects): ' + bad[0], replay(h))                       # not shrunk
    elif bad:
        # numbers repeated / skipped ON THE WIRE are the plainest evidence: when the history shows that, shrink towards it
        wire = obj_oracle(h, out, wire_only=True) is not None

        def failing(c):
            return obj_oracle(c, run_obj_history(c), wire_only=wire) is not None
        s = shrink_obj(h, failing)
        try:
            o2 = run_obj_history(s)
            bad2 = obj_oracle(s, o2, wire_only=wire) or obj_oracle(s, o2) or bad
        except Exception:  # noqa
            s, o2, bad2 = h, out, bad
        tags = [m.tag34(f) for f in o2['frames']]
        m.report(ctx, f'FIX (message objects): {bad2[0]}; tag 34 of the frames written: {tags}', replay(s))
    if ans_for is not None and not out.get('escaped'):
        d = m.fix_compare(h, out, ans_for(model_request(out)))
        if d:
            ctx.disagree('FIX (message objects, Model/SeqObj): ' + d, replay(h))
    return out


# =====================================================================================================================
# generator
# =====================================================================================================================
def gen_app_spec(rng):
    """an application message object as it is first built: mostly complete and serialisable (it has to get on the wire before its
    later states matter), sometimes incomplete or not serialisable from the start"""
    cls = rng.choice(['Order', 'Order', 'Wide', 'Wide', 'Nope'])
    if cls == 'Nope':
        s = {'cls': 'Nope', 'user': rng.choice([None, 'user', 'x y'])}
    else:
        s = {'cls': cls, 'f1': rng.randint(-5, 99), 'f2': rng.choice(['abc', '', 'x=y', 'ok'])}
        c = rng.random()
        if c < 0.12:
            s[rng.choice(['f1', 'f2'])] = None
        elif c < 0.20:
            s['f2'] = rng.choice(BAD)
        elif c < 0.30:
            s['group'] = [[rng.randint(0, 9), rng.choice([None, 'g'])] for _ in range(rng.randint(0, 2))]
        if cls == 'Wide' and rng.random() < 0.3:
            s.update(hdr={'C10OnBehalfOfCompID': 'FIRM'}, hops=[[1, 'HOP'], [2, None]], trl={'C10SignatureText': 'sig'})
    if 'hdr' not in s and rng.random() < 0.3:
        s['hdr'] = {'TargetSubID': 'DESK'}
    return s


def mutate_spec(rng, spec):
    """one in-place change of the kind an application makes between two sends of the same object: a mandatory body field removed / put
    back, the body cleared, a text that cannot be serialised put into / taken out of the header, the body or the trailer, a harmless edit"""
    s = copy.deepcopy(spec)
    if s['cls'] in ('Login', 'Nope'):
        c = rng.random()
        if c < 0.4:
            s['user'] = rng.choice([None, 'user', 'u3']) if s.get('user') in BAD or rng.random() < 0.5 else rng.choice(BAD)
        else:
            hdr = dict(s.get('hdr') or {})
            if hdr.get('TargetSubID') in BAD or (hdr.get('TargetSubID') and rng.random() < 0.5):
                hdr.pop('TargetSubID')
            else:
                hdr['TargetSubID'] = rng.choice(BAD + ['DESK'])
            s['hdr'] = hdr
        return s
    valid = s.get('f1') is not None and s.get('f2') is not None
    c = rng.random()
    if c < 0.45:                                   # validity
        if valid:
            k = rng.random()
            if k < 0.4:
                s['f2'] = None
            elif k < 0.7:
                s['f1'] = None
            else:
                s['f1'] = s['f2'] = None
                s.pop('group', None)                # the body cleared
        else:
            if s.get('f1') is None:
                s['f1'] = rng.randint(0, 9)
            if s.get('f2') is None:
                s['f2'] = rng.choice(['back', 'z'])
    elif c < 0.60:                                 # body text
        if s.get('f2') in BAD or any(g[1] in BAD for g in (s.get('group') or [])):
            s['f2'] = 'ok' if s.get('f2') is not None else None
            s.pop('group', None)
        elif rng.random() < 0.6 or s.get('f2') is None:
            s['f2'] = rng.choice(BAD)
        else:
            s['group'] = [[1, 'g']] * rng.randint(0, 1) + [[1, rng.choice(BAD)]]
    elif c < 0.75:                                 # header text
        hdr = dict(s.get('hdr') or {})
        key = rng.choice(['TargetSubID', 'C10OnBehalfOfCompID', 'hops']) if s['cls'] == 'Wide' else 'TargetSubID'
        if key == 'hops':
            if s.get('hops') is not None and any(g[1] in BAD for g in s['hops']):
                s['hops'] = rng.choice([None, [[1, 'HOP']]])
            else:
                s['hops'] = [[1, 'HOP']] * rng.randint(0, 1) + [[2, rng.choice(BAD)]]
            if s['hops'] is None:
                s.pop('hops')
        else:
            if hdr.get(key) in BAD:
                hdr.pop(key) if rng.random() < 0.5 else hdr.update({key: 'DESK'})
            else:
                hdr[key] = rng.choice(BAD)
            s['hdr'] = hdr
    elif c < 0.85 and s['cls'] == 'Wide':          # trailer text
        trl = dict(s.get('trl') or {})
        if trl.get('C10SignatureText') in BAD:
            trl.pop('C10SignatureText') if rng.random() < 0.5 else trl.update(C10SignatureText='sig')
        else:
            trl['C10SignatureText'] = rng.choice(BAD)
        s['trl'] = trl
    else:                                          # harmless
        if s.get('f1') is not None:
            s['f1'] = s['f1'] + 1
        else:
            s['hdr'] = dict(s.get('hdr') or {}, TargetSubID=rng.choice(['DESK', 'D2']))
    if not s.get('hdr'):
        s.pop('hdr', None)
    if not s.get('trl'):
        s.pop('trl', None)
    return s


def gen_number(rng, q):
    base = q if isinstance(q, int) else 0
    return rng.choice([base, base + 1, base + 2, base + 3, base - 1, 0, 1, 2, 7, 500, 10 ** 6, 10 ** 18, -3])


def gen_obj_history(rng, n):
    m = M()
    q = rng.choice([0, 1, 1, 2, 5, 20, 100, 10 ** 9, 10 ** 18, -4]) if rng.random() < 0.6 else rng.randint(0, 10 ** 6)
    lhdr = {'SenderCompID': 'CLIENT', 'TargetCompID': 'SERVER'}
    if rng.random() < 0.5:
        lhdr['SenderSubID'] = 'SUB'
    logon = {'src': 'new', 'stamp': q, 'spec': {'cls': 'Login', 'user': rng.choice(['user', None, 'u2']), 'hdr': lhdr}}
    c = rng.random()
    if c < 0.06:
        logon['stamp'] = None                          # the logon states no number (the session numbers it itself)
    elif c < 0.10:
        logon['spec']['user'] = 'café'                 # the logon cannot be serialised
    objs = [logon]
    for _ in range(rng.randint(2, 4)):
        spec = gen_app_spec(rng)
        c = rng.random()
        if c < 0.25 and decodable(spec):
            objs.append({'src': 'decoded', 'spec': spec, 'stamp': rng.choice([1, 2, 3, 9, 50, gen_number(rng, q)])})
        elif c < 0.45:
            objs.append({'src': 'new', 'spec': spec, 'stamp': gen_number(rng, q)})
        else:
            objs.append({'src': 'new', 'spec': spec, 'stamp': None})
    cur = [copy.deepcopy(o['spec']) for o in objs]
    ops = []

    def pick(app_only=False):
        if not app_only and rng.random() < 0.08:
            return 0
        return rng.randrange(1, len(objs))

    def change(i):
        cur[i] = mutate_spec(rng, cur[i])
        ops.append(['mutate', i, copy.deepcopy(cur[i]), 'body' if (cur[i]['cls'] in ('Order', 'Wide') and rng.random() < 0.35) else 'field'])

    def renumber_op(i):
        c = rng.random()
        if c < 0.7 or i == 0:
            ops.append(['stamp', i, gen_number(rng, q), 'set'])
        else:
            ops.append(['stamp', i, None, rng.choice(['pop', 'newhdr'])])

    if rng.random() < 0.3:                             # before the logon: sends (TypeError / rejected), changes, numbers
        for _ in range(rng.randint(1, 3)):
            i = pick()
            c = rng.random()
            if c < 0.5:
                ops.append(['send', i])
            elif c < 0.75:
                change(i)
            else:
                renumber_op(i)
    if rng.random() < 0.97:
        ops.append(['logon', 0])
    for _ in range(n):
        c = rng.random()
        if c < 0.36:
            ops.append(['send', pick()])
        elif c < 0.62:                                 # change an object, usually send it right away
            i = pick()
            change(i)
            if rng.random() < 0.8:
                ops.append(['send', i])
        elif c < 0.72:
            i = pick()
            renumber_op(i)
            if rng.random() < 0.6:
                ops.append(['send', i])
        elif c < 0.78:
            i = pick(app_only=True)
            if decodable(cur[i]):
                ops.append(['recv', i, rng.choice([1, 2, 3, 9, 50, gen_number(rng, q)])])
                if rng.random() < 0.7:
                    ops.append(['send', i])
            else:
                ops.append(['send', i])
        elif c < 0.85:
            ops.append(['hb'])
        elif c < 0.97:
            ops.append(['advance', rng.choice([1, 1, 2, 3, 5])])
        else:
            ops.append(['close'])
    return {'ver': rng.choice(['44', '50']), 'objs': objs, 'ops': ops}


# =====================================================================================================================
# the histories of Witness/C10Obj.lean
# =====================================================================================================================
OBJ_WITNESS = ('(((20 true true true true) (none true true true true) (none true true true true)) '
               '((login 0) (send 1) (send 2) (mutate 1 false true true true) (send 1) (send 2))) '
               '(((20 true true true true) (none true true true true) (3 false true true true)) '
               '((login 0) (send 1) (send 1) (send 2) (send 1))) '
               '(((20 true true true true) (none true true true true) (none false true true true)) '
               '((login 0) (send 1) (stamp 2 500) (send 2) (send 1)))')


def spec_of_flags(v, hd, b, t):
    s = {'cls': 'Wide', 'f1': 1, 'f2': 'a' if b else 'café'}
    if not v:
        s['f2'] = None
        if not b:
            s['group'] = [[1, 'café']]
    if not hd:
        s['hdr'] = {'C10OnBehalfOfCompID': 'café'}
    if not t:
        s['trl'] = {'C10SignatureText': 'café'}
    return s


def witness_histories(term):
    """the histories the driver prints (`witness C10Obj`) as harness histories; object 0 is the logon"""
    tf = lambda x: x == 'true'
    hs = []
    for objs, ops in common.parse_sx(term):
        hobjs = []
        for j, (n, v, hd, b, t) in enumerate(objs):
            stamp = None if n == 'none' else int(n)
            if j == 0:
                hobjs.append({'src': 'new', 'stamp': stamp,
                              'spec': {'cls': 'Login', 'user': 'user', 'hdr': {'SenderCompID': 'CLIENT', 'TargetCompID': 'SERVER'}}})
            else:
                spec = spec_of_flags(tf(v), tf(hd), tf(b), tf(t))
                hobjs.append({'src': 'decoded' if (stamp is not None and decodable(spec)) else 'new', 'stamp': stamp, 'spec': spec})
        hops = []
        for op in ops:
            if op[0] == 'login':
                hops.append(['logon', int(op[1])])
            elif op[0] == 'send':
                hops.append(['send', int(op[1])])
            elif op[0] == 'mutate':
                hops.append(['mutate', int(op[1]), spec_of_flags(*[tf(x) for x in op[2:6]]), 'body'])
            elif op[0] == 'stamp':
                hops.append(['stamp', int(op[1]), None if op[2] == 'none' else int(op[2]), 'set' if op[2] != 'none' else 'pop'])
            else:
                hops.append(['hb'])
        hs.append({'ver': '44', 'objs': hobjs, 'ops': hops})
    return hs


# =====================================================================================================================
# entry points (c10.obj_family)
# =====================================================================================================================
def run_one(ctx, asker, h):
    m = M()
    ans_for = asker.ask if asker.ok else None
    ctx.case(json.dumps({'kind': 'fix-obj-history', 'history': h})[:400], nontrivial=len(h['ops']) > 0, sample_every=53)
    ctx.count('fix-obj-history')
    out = check_obj_history(ctx, h, ans_for)
    if out:
        for ev in out['events']:
            ctx.count('fix-obj-' + (ev[2].split()[0] if ev[0] == 'op' else 'auto-hb'))
        for k, v in out['stats'].items():
            ctx.count('fix-obj-' + k, v)
    return out


def run(ctx, asker):
    rng = ctx.rng
    quick = ctx.tier == 'quick'
    ctx.cov['rule'] += (' / FIX histories on message OBJECTS (2-5 objects per history — built by the application with or without a '
                        'MsgSeqNum of its own, or decoded from a frame of the peer —; operations: send / re-send an object, log on with one, '
                        'change one in place between sends (mandatory body field removed / put back, body replaced, text that cannot be '
                        'serialised into / out of header, body, trailer), set / remove Header.MsgSeqNum, replace an object by the message the '
                        "session's reader delivers, explicit and timer-driven heartbeats, close; model = Model/SeqObj)")
    term = OBJ_WITNESS
    if asker.ok:
        w = asker.ask('witness C10Obj')
        if w != OBJ_WITNESS:
            ctx.disagree(f'object witness histories printed by the driver changed: {w}',
                         {'kind': 'fix-obj-history', 'history': witness_histories(OBJ_WITNESS)[0]})
    for wh in witness_histories(term):                      # Witness/C10Obj.lean
        out = run_one(ctx, asker, wh)
        if out is not None:
            ctx.count('fix-obj-witness-tags:' + str([M().tag34(f) for f in out['frames']]))
    for _ in range(150 if quick else 2500):
        run_one(ctx, asker, gen_obj_history(rng, rng.randint(3, 16)))


def replay(ctx, asker, rep):
    h = rep['history']
    out = run_one(ctx, asker, h)
    ctx.case('replay-marker')
    if out is None:
        return None
    m = M()
    for i, o in enumerate(h['objs']):
        print(f'object {i}: {o["src"]}, Header.MsgSeqNum {o.get("stamp")}, {o["spec"]}')
    print('operations:', h['ops'])
    print('implementation events (kind, label, outcome, counter afterwards, body valid, serialisable, …):')
    for ev in out['events']:
        print('  ', ev[:6] if ev[0] == 'op' else ev)
    print('implementation tag 34 of frames:', [m.tag34(f) for f in out['frames']])
    print('the logon object\'s header stated MsgSeqNum', out['logon_q'], 'when login() was called')
    print('oracle:', obj_oracle(h, out))
    if out['notes']:
        print('notes:', out['notes'])
    return out
