"""Step-log replay harness for the session machine (C04, C05, C06, C07, C11).

A *script* (list of external events) is run against a real session on the virtual-time loop.  Every task step of every
library/user task is logged (pure-python asyncio.Task subclass), together with the observable events (callbacks,
transport writes/close, results of user calls) it produced.  The resulting event log is folded through the Lean model
(`sess.run`), which answers for every event whether it was enabled and which observables it predicts.
"""
import asyncio
import asyncio.tasks as _tasks
import random

from common import sx, err_name
from vloop import VirtualLoop, FakeTransport

REJECT_N = 7777


# ------------------------------------------------------------------ message tokens <-> bytes
class SoupCodec:
    """frames for a soup *client* session (peer = server)"""
    kind = 'soup-client'

    def frame(self, tok, rng):
        from nasdaq_protocols import soup
        if tok == 'hb':
            return soup.ServerHeartbeat().to_bytes()[1]
        if tok == 'logout':
            return soup.EndOfSession().to_bytes()[1]
        if tok == 'bad':
            return rng.choice(BAD_SOUP)
        n = tok[1]
        if n == 0:
            return soup.LoginAccepted('sess', 1).to_bytes()[1]
        if n == REJECT_N:
            return soup.LoginRejected('A').to_bytes()[1]
        if n % 5 == 0:
            return soup.Debug(str(n)).to_bytes()[1]
        return soup.SequencedData(str(n).encode()).to_bytes()[1]

    def number(self, msg):
        from nasdaq_protocols import soup
        if isinstance(msg, soup.LoginAccepted):
            return 0
        if isinstance(msg, soup.LoginRejected):
            return REJECT_N
        try:
            if isinstance(msg, soup.Debug):
                return int(msg.msg)
            if isinstance(msg, (soup.SequencedData, soup.UnSequencedData)):
                return int(bytes(msg.data))
        except ValueError:
            return -2          # a message that was never sent (mis-framed bytes)
        return -1


BAD_SOUP = [
    b'\x00\x01?',                       # unknown packet type
    b'\x00\x08?payload',               # unknown packet type with a payload
    b'\x00\x06!\x00\x03S12',            # unknown type whose payload looks like a frame
    b'\x00\x00',                        # zero-length frame
    b'\x00\x02Hx',                      # heartbeat with payload
    b'\x00\x02JX',                      # bad reject reason
    b'\x00\x03+\xff\xfe',               # non-ASCII debug text
    b'\x00\x05A1234',                   # short login accept
    b'\x00\x1fA' + b's' * 10 + b'x' * 20,   # non-numeric sequence
]


class ServerCodec(SoupCodec):
    """frames for a soup *server* session (peer = client)"""
    kind = 'soup-server'

    def frame(self, tok, rng):
        from nasdaq_protocols import soup
        if tok == 'hb':
            return soup.ClientHeartbeat().to_bytes()[1]
        if tok == 'logout':
            return soup.LogoutRequest().to_bytes()[1]
        if tok == 'bad':
            return rng.choice(BAD_SOUP)
        n = tok[1]
        if n == 0:      # the login request
            return soup.LoginRequest('u', 'p', 's', '1').to_bytes()[1]
        if n % 5 == 0:
            return soup.Debug(str(n)).to_bytes()[1]
        return soup.UnSequencedData(str(n).encode()).to_bytes()[1]

    def number(self, msg):
        from nasdaq_protocols import soup
        if isinstance(msg, soup.LoginRequest):
            return 0
        return super().number(msg)


class FixCodec:
    """frames for a FIX *client* session (`fix.Fix44Session`; peer = server), over the test-suite dictionary of the repository under test:
    `('msg', 0)` = the logon response (type L), other numbers = a `Nope` message carrying the number in Username, `hb` = Heartbeat,
    `logout` = a message of type 5, `bad` = a frame whose BodyLength is not a number (the reader notices when the `35=` tag arrives,
    i.e. with the last byte of these bytes — so a segmentation never splits the moment of detection from the frame)"""
    kind = 'fix-client'
    SOH = b'\x01'

    def env(self):
        import login_app          # one copy of the dictionary per process (message classes register globally by type)
        return login_app.fixenv()

    def _frame(self, mtype, user=None, seq=1):
        soh = self.SOH
        body = b'35=' + mtype + soh + b'49=SERVER' + soh + b'56=CLIENT' + soh + b'34=' + str(seq).encode() + soh + b'52=20240101-00:00:00' + soh
        if user is not None:
            body += b'553=' + str(user).encode() + soh
        data = b'8=FIX.4.4' + soh + b'9=' + str(len(body)).encode() + soh + body
        return data + b'10=' + str(sum(data) % 256).rjust(3, '0').encode() + soh

    def frame(self, tok, rng):
        self.env()
        if tok == 'hb':
            return self._frame(b'0')
        if tok == 'logout':
            return self._frame(b'5')
        if tok == 'bad':
            return b'8=FIX.4.4\x019=zz\x0135='
        n = tok[1]
        if n == 0:
            return self._frame(b'L', 'u')
        return self._frame(b'N', n)

    def number(self, msg):
        fm = self.env()['fm']
        if isinstance(msg, fm.Login):
            return 0
        try:
            return int(msg.Username)
        except Exception:   # noqa
            return -1

    def login_msg(self):
        env = self.env()
        fix, fm = env['fix'], env['fm']
        return fm.Login({fix.MessageSegments.HEADER: {'SenderCompID': 'CLIENT', 'TargetCompID': 'SERVER', 'MsgSeqNum': 1},
                         fix.MessageSegments.BODY: {'Username': 'u'}})

    def app_msg(self):
        return self.env()['fm'].Nope()


# ------------------------------------------------------------------ step logging
class Recorder:
    def __init__(self):
        self.obs = []        # observable events (s-expression python form)
        self.log = []        # (event, [obs]) in order
        self.roles = {}      # id(task) -> role string
        self.extra_steps = []   # steps of tasks the model does not know

    def role_of(self, task):
        r = self.roles.get(id(task))
        if r is not None:
            return r
        name = task.get_name()
        coro = task.get_coro()
        qn = getattr(coro, '__qualname__', '')
        if name.startswith('reader:'):
            r = 'R'
        elif name.endswith('-dispatcher'):
            r = 'D'
        elif name.endswith('local-monitor-monitor'):
            r = 'L'
        elif name.endswith('remote-monitor-monitor'):
            r = 'M'
        elif name.startswith('asyncsession-close:'):
            r = 'C'
        elif qn == 'Queue.get':
            r = 'V'
        elif name.startswith('U') and name[1:].isdigit():
            r = name
        else:
            r = ''
        self.roles[id(task)] = r
        return r


REC = None


class LoggingTask(_tasks._PyTask):
    first_ev = None

    def _Task__step(self, exc=None):
        rec = REC
        if rec is None:
            return super()._Task__step(exc)
        role = rec.role_of(self)
        start = len(rec.obs)
        try:
            return super()._Task__step(exc)
        finally:
            if role:
                if self.first_ev is not None:
                    ev, self.first_ev = self.first_ev, None
                else:
                    ev = ['run', role]
                rec.log.append((ev, rec.obs[start:]))


def logging_factory(loop, coro, **kw):
    t = LoggingTask(coro, loop=loop, **kw)
    loop.tasks_created.append(t)
    return t


# ------------------------------------------------------------------ running one script on the implementation
class Scenario:
    """cfg: dict(kind, msg_beh {n: beh}, default_beh, cb_beh, has_cb, mode: 'pull'|'callback')
    beh: 'ret' | ('await', k) | ('sleep', k) | 'close' | 'iclose' | 'raise' | 'accept' | 'reject'"""

    def __init__(self, cfg, script, seed=0, settle=0.05, hb=(0.004, 0.004)):
        self.cfg = cfg
        self.script = script
        self.rng = random.Random(seed)
        self.settle = settle
        self.hb = hb
        self.codec = ServerCodec() if cfg['kind'] == 'soup-server' else FixCodec() if cfg['kind'] == 'fix-client' else SoupCodec()

    # callbacks handed to the library
    def _beh_of(self, n):
        return self.cfg['msg_beh'].get(n, self.cfg['default_beh'])

    async def _do_beh(self, beh, sess):
        if beh == 'ret' or beh == 'accept' or beh == 'reject':
            return
        if isinstance(beh, (tuple, list)) and beh[0] == 'await':
            for _ in range(beh[1] + 1):
                await asyncio.sleep(0)
        elif isinstance(beh, (tuple, list)) and beh[0] == 'sleep':
            # awaits k+1 *timers* of 0.7 heartbeat intervals each (the model's `await k`: it does not distinguish a turn from a timer);
            # a callback that outlasts one or several heartbeat intervals while monitors, reader and peers go on
            for _ in range(beh[1] + 1):
                await asyncio.sleep(self.hb[1] * 0.7)
        elif isinstance(beh, (tuple, list)) and beh[0] == 'sleep_close':
            # (not modelled: extended scenarios, oracle only) work for k+1 timers, then close from inside the callback
            for _ in range(beh[1] + 1):
                await asyncio.sleep(self.hb[1] * 0.7)
            await sess.close()
        elif isinstance(beh, (tuple, list)) and beh[0] == 'cleanup':
            # (not modelled) a handler that is busy for a long time and, when cancelled, needs `d` seconds to clean up and then
            # sends a last message before it lets the cancellation through
            try:
                await asyncio.sleep(self.hb[1] * 60)
            except asyncio.CancelledError:
                await asyncio.sleep(beh[1])
                self.rec.obs.append(['cleanupDone'])
                raise
        elif beh == 'close':
            await sess.close()
        elif beh == 'iclose':
            sess.initiate_close()
        elif beh == 'raise':
            raise RuntimeError('handler failure (scripted)')

    def _mk_on_msg(self, holder):
        rec, codec = self.rec, self.codec

        async def on_msg(m):
            n = codec.number(m)
            rec.obs.append(['msgEnter', n])
            beh = self._beh_of(n)
            try:
                await self._do_beh(beh, holder['s'])
            except asyncio.CancelledError:
                rec.obs.append(['msgAbandon', n])
                raise
            except RuntimeError:
                rec.obs.append(['msgRaise', n])
                raise
            rec.obs.append(['msgExit', n])
        return on_msg

    def _mk_on_close(self, holder):
        rec = self.rec

        async def on_close():
            rec.obs.append('cbEnter')
            await self._do_beh(self.cfg['cb_beh'], holder['s'])
            rec.obs.append('cbExit')
        return on_close

    def build_session(self, holder):
        from nasdaq_protocols import soup
        cfg = self.cfg
        on_msg = self._mk_on_msg(holder) if cfg['mode'] == 'callback' else None
        on_close = self._mk_on_close(holder) if cfg['has_cb'] else None
        ci, si = self.hb
        if cfg['kind'] == 'soup-client':
            rec, codec = self.rec, self.codec

            class Client(soup.SoupClientSession):
                """observation only: which message `login()` consumed as its reply"""
                in_login = False

                async def login(self, msg):
                    Client.in_login = True
                    try:
                        return await super().login(msg)
                    finally:
                        Client.in_login = False

                async def receive_msg(self):
                    was_login = Client.in_login
                    m = await super().receive_msg()
                    if was_login:
                        Client.in_login = False
                        rec.obs.append(['loginReply', codec.number(m)])
                    return m
            s = Client(on_msg_coro=on_msg, on_close_coro=on_close,
                                       client_heartbeat_interval=ci, server_heartbeat_interval=si,
                                       dispatch_on_connect=cfg.get('dispatch_on_connect', False))
        elif cfg['kind'] == 'fix-client':
            from nasdaq_protocols.fix import session as fix_session
            rec, codec = self.rec, self.codec
            codec.env()

            class FixClient(fix_session.Fix44Session):
                """observation only: which message `login()` consumed as its reply"""
                in_login = False

                async def login(self, msg):
                    FixClient.in_login = True
                    try:
                        return await super().login(msg)
                    finally:
                        FixClient.in_login = False

                async def receive_msg(self):
                    was_login = FixClient.in_login
                    m = await super().receive_msg()
                    if was_login:
                        FixClient.in_login = False
                        rec.obs.append(['loginReply', codec.number(m)])
                    return m
            s = FixClient(on_msg_coro=on_msg, on_close_coro=on_close,
                          client_heartbeat_interval=ci, server_heartbeat_interval=si,
                          dispatch_on_connect=cfg.get('dispatch_on_connect', False))
        else:
            raise ValueError(cfg['kind'])
        return s

    def run(self):
        global REC
        loop = VirtualLoop()
        loop.set_task_factory(logging_factory)
        self.rec = rec = Recorder()
        REC = rec
        holder = {}
        result = {}

        class T(FakeTransport):
            def write(tself, data):
                FakeTransport.write(tself, data)
                rec.obs.append(['w', classify_write(data)])

            def close(tself):
                FakeTransport.close(tself)
                rec.obs.append('tclose')

        async def user_call(u, what):
            s = holder['s']
            try:
                if what == 'close':
                    await s.close()
                    r = 'ok'
                elif what == 'recv':
                    m = await s.receive_msg()
                    r = ['msg', self.codec.number(m)]
                elif what == 'login':
                    from nasdaq_protocols import soup
                    try:
                        await s.login(self.codec.login_msg() if self.cfg['kind'] == 'fix-client' else soup.LoginRequest('u', 'p', 's', '1'))
                        # C11 "returns an active session": the state at the very moment login() returns (not a model observable)
                        result['login_active'] = bool(s.is_active())
                        result['login_closed'] = bool(s.is_closed())
                        result['t_login_ok'] = asyncio.get_running_loop().time()
                        r = 'ok'
                    except Exception as e:   # noqa
                        # soup.connect_async maps EndOfQueue to ConnectionRefusedError
                        r = 'refused' if err_name(e) in ('eoq', 'refused') else err_name(e)
                else:
                    raise ValueError(what)
            except asyncio.CancelledError:
                r = 'cancelled'
            except Exception as e:   # noqa
                r = err_name(e)
            rec.obs.append(['ret', u, r])

        def ext(ev, fn):
            start = len(rec.obs)
            try:
                fn()
            except Exception as e:   # noqa  (a raising synchronous API call is an observation)
                rec.obs.append(['raised', err_name(e)])
            rec.log.append((ev, rec.obs[start:]))

        async def main():
            s = holder['s'] = self.build_session(holder)
            tr = holder['tr'] = T()
            users = {}
            receivers = []
            for item in self.script:
                k = item[0]
                if k == 'connect':
                    ext('connect', lambda: s.connection_made(tr))
                elif k == 'data':
                    toks, data = item[1], item[2]
                    ext(['data'] + toks, lambda: s.data_received(data))
                elif k == 'eof':
                    ext('eof', lambda: s.connection_lost(None))
                elif k == 'iclose':
                    ext('iclose', s.initiate_close)
                elif k == 'logout':
                    ext('logout', s.logout)
                elif k == 'send':
                    if self.cfg['kind'] == 'fix-client':
                        ext('send', lambda: s.send_msg(self.codec.app_msg()))
                    else:
                        ext('send', lambda: s.send_debug('x'))
                elif k == 'await_put':
                    # ('await_put', 'before'|'after'): wait until the reader next hands a message to the session's queue and go on in
                    # the loop turn that follows that reader step — ahead of ('before') or behind ('after') whatever the hand-over
                    # woke (the receive helper task).  What the script does next (`turns k`, then `eof` / `cancel` / …) thereby lands
                    # a chosen number of loop turns after the hand-over: reader -> queue -> helper -> login() / receive_msg().
                    # Gives up after 20 reader polls if nothing is handed over (truncated reply, heartbeat only).
                    rd = getattr(s, '_reader', None)
                    if rd is not None and not s.is_closed():
                        fut = asyncio.get_running_loop().create_future()
                        orig = rd.on_msg_coro
                        before = item[1] == 'before'

                        async def hooked(m, fut=fut, orig=orig, rd=rd, before=before):
                            rd.on_msg_coro = orig
                            if before and not fut.done():
                                fut.set_result(None)
                            try:
                                return await orig(m)
                            finally:
                                if not fut.done():
                                    fut.set_result(None)
                        rd.on_msg_coro = hooked
                        try:
                            await asyncio.wait_for(fut, 0.002)
                        except asyncio.TimeoutError:
                            if rd.on_msg_coro is hooked:
                                rd.on_msg_coro = orig
                elif k in ('recv', 'login', 'recvnw') and any(not t.done() for t in receivers):
                    continue      # one receive at a time (two concurrent receives are API misuse, outside the model)
                elif k == 'startdisp':
                    # (not modelled) the public start_dispatching() at an arbitrary moment, also on a closed session
                    def sd():
                        try:
                            s.start_dispatching()
                        except Exception as e:   # noqa — StateError when a dispatcher is already running: documented behaviour
                            rec.obs.append(['startdisp-raised', err_name(e)])
                    ext('startdisp', sd)
                elif k == 'paused_recv':
                    # (not modelled) a consumer that pauses the dispatcher and pulls one message itself
                    u = item[1]

                    async def paused(u=u):
                        try:
                            async with s._msg_queue.pause_dispatching():
                                m = await s.receive_msg()
                                r = ['msg', self.codec.number(m)]
                        except asyncio.CancelledError:
                            r = 'cancelled'
                        except Exception as e:   # noqa
                            r = err_name(e)
                        rec.obs.append(['ret', u, r])
                    t = asyncio.get_running_loop().create_task(paused(), name=f'U{u}')
                    t.first_ev = ['paused_recv', u]
                    users[u] = t
                elif k == 'recvnw':
                    u = item[1]

                    def f():
                        try:
                            m = s.receive_msg_nowait()
                            r = 'none' if m is None else ['msg', self.codec.number(m)]
                        except Exception as e:   # noqa
                            r = err_name(e)
                        rec.obs.append(['ret', u, r])
                    ext(['recvnw', u], f)
                elif k in ('close', 'recv', 'login'):
                    u = item[1]
                    t = asyncio.get_running_loop().create_task(user_call(u, k), name=f'U{u}')
                    t.first_ev = [k, u]
                    users[u] = t
                    if k != 'close':
                        receivers.append(t)
                elif k == 'cancel':
                    u = item[1]
                    if u not in users or users[u].done():
                        continue
                    if users[u].first_ev is not None:
                        await asyncio.sleep(0)          # let the call start before it is cancelled
                        if users[u].done():
                            continue
                    ext(['cancel', u], users[u].cancel)
                elif k == 'at_trip':
                    # sleep until the instant of the remote monitor's second tick after login returned (its timers and ours
                    # then fire in the same loop iteration burst), so that what follows interleaves with a heartbeat-timeout close
                    t_ok = result.get('t_login_ok')
                    if t_ok is not None:
                        d = t_ok + 2 * self.hb[1] - asyncio.get_running_loop().time()
                        if d > 0:
                            await asyncio.sleep(d)
                elif k == 'turns':
                    for _ in range(item[1]):
                        await asyncio.sleep(0)
                elif k == 'advance':
                    await asyncio.sleep(item[1])
                else:
                    raise ValueError(k)
            await asyncio.sleep(self.settle)
            me = asyncio.current_task()
            # after the script: whatever is still queued on an open pull-mode session (taken with receive_msg_nowait,
            # outside the logged run)
            drained = []
            if not s.is_closed() and not s._msg_queue.is_dispatching() and all(t.done() for t in receivers):
                try:
                    while True:
                        m = s.receive_msg_nowait()
                        if m is None:
                            break
                        drained.append(self.codec.number(m))
                except Exception as e:   # noqa
                    drained.append('raised:' + err_name(e))
            result['drained'] = drained
            result['closed'] = s.is_closed()
            result['tcloses'] = len(tr.closes)
            result['writes'] = list(tr.writes)
            result['alive'] = sorted({rec.role_of(t) or ('?' + t.get_name()) for t in loop.tasks_created
                                      if not t.done() and t is not me})
            bad = []
            for t in loop.tasks_created:
                if t.done() and not t.cancelled() and t is not me and t.exception() is not None:
                    bad.append((rec.role_of(t) or t.get_name(), err_name(t.exception())))
            result['task_exceptions'] = bad
            result['vtime'] = loop.time()

        # the library tests `isinstance(task, asyncio.Task)`; our step-logging tasks are pure-python tasks
        c_task = asyncio.Task
        asyncio.Task = _tasks._PyTask
        try:
            loop.run(main())
        finally:
            asyncio.Task = c_task
            REC = None
            result['loop_exceptions'] = [str(c.get('message')) + ':' + err_name(c['exception']) if c.get('exception') else str(c.get('message'))
                                         for c in loop.loop_exceptions]
            loop.shutdown()
        result['log'] = rec.log
        return result


def classify_write(data):
    if bytes(data[:2]) == b'8=':      # FIX
        d = bytes(data)
        return 'login' if b'\x0135=L\x01' in d else 'hb' if b'\x0135=0\x01' in d else 'logout' if b'\x0135=5\x01' in d else 'data'
    t = bytes(data[2:3])
    return {b'L': 'login', b'R': 'hb', b'H': 'hb', b'O': 'logout', b'Z': 'logout', b'A': 'reply', b'J': 'reply'}.get(t, 'data')


# ------------------------------------------------------------------ model side
def beh_sx(b):
    return ['await', b[1]] if isinstance(b, (tuple, list)) else b


def cfg_sx(cfg):
    pairs = [[n, beh_sx(b)] for n, b in sorted(cfg['msg_beh'].items())]
    return ['cfg', ['msgbeh', beh_sx(cfg['default_beh'])] + pairs, beh_sx(cfg['cb_beh']),
            bool(cfg['has_cb']), bool(cfg.get('dispatch_on_connect', False)), cfg['mode'] == 'callback',
            cfg['kind'] == 'fix-client']


def ev_sx(ev):
    if isinstance(ev, str):
        return ev
    if ev[0] == 'data':
        return ['data'] + [t if isinstance(t, str) else ['msg', t[1]] for t in ev[1:]]
    return ev


def obs_canon(o):
    return sx(o) if not isinstance(o, str) else o


def model_request(cfg, log):
    return 'sess.run ' + sx(cfg_sx(cfg)) + ' ' + ' '.join(sx(ev_sx(ev)) for ev, _ in log)


def parse_model_answer(ans):
    from common import parse_sx
    parts = parse_sx(ans)
    final = parts[-1]
    return parts[:-1], {k[0]: k[1:] for k in final[1:]}


def compare(cfg, result, ans):
    """-> list of disagreement strings (empty = model and implementation agree on this run)"""
    per_ev, final = parse_model_answer(ans)
    log = result['log']
    out = []
    if len(per_ev) != len(log):
        return [f'model answered {len(per_ev)} events for {len(log)}']
    from common import parse_sx
    for i, ((ev, obs), m) in enumerate(zip(log, per_ev)):
        got = [parse_sx(obs_canon(o))[0] for o in obs]
        if m == 'disabled':
            out.append(f'event #{i} {sx(ev_sx(ev))}: the implementation ran a step the model considers impossible')
            break
        if got != m:
            out.append(f'event #{i} {sx(ev_sx(ev))}: implementation produced {sx(got) if got else "()"} , model predicts {sx(m) if m else "()"}')
            break
    if not out:
        alive_m = sorted(final.get('alive', []))
        alive_i = sorted(a for a in result['alive'] if a in ('R', 'D', 'L', 'M', 'C', 'V'))
        if alive_m != alive_i:
            out.append(f'library tasks alive at the end: implementation {alive_i}, model {alive_m}')
        if result.get('drained') is not None and not result['closed'] and 'D' not in alive_i \
                and [str(x) for x in result['drained']] != list(final.get('queue', [])) and final.get('runnable', []) == [] :
            out.append(f'messages still queued at the end: implementation {result["drained"]}, model {final.get("queue")}')
        if (final['closed'] == ['true']) != result['closed']:
            out.append(f'is_closed(): implementation {result["closed"]}, model {final["closed"]}')
    return out


# ------------------------------------------------------------------ script generation helpers
def cut_stream(toks, codec, rng, style, truncate=False):
    """turn frame tokens into `data` script items under a segmentation style; each item lists the frames it completes.
    truncate: the peer disconnects somewhere inside the stream (only a proper prefix of the bytes is delivered)"""
    frames = [codec.frame(t, rng) for t in toks]
    stream = b''.join(frames)
    if truncate and len(stream) > 1:
        stream = stream[:rng.randint(1, len(stream) - 1)]
    ends, pos = [], 0
    for f in frames:
        pos += len(f)
        ends.append(pos)
    if style == 'whole':
        cuts = [len(stream)]
    elif style == 'per-frame':
        cuts = ends
    elif style == 'bytes':
        cuts = list(range(1, len(stream) + 1))
    else:
        k = rng.randint(1, 4)
        cuts = sorted(set(rng.randint(1, len(stream)) for _ in range(k)) | {len(stream)}) if stream else []
    cuts = [c for c in cuts if c <= len(stream)]
    if stream and (not cuts or cuts[-1] != len(stream)):
        cuts.append(len(stream))
    items, prev = [], 0
    for c in cuts:
        seg = stream[prev:c]
        done = [toks[i] for i, e in enumerate(ends) if prev < e <= c]
        items.append(('data', [t if isinstance(t, str) else ['msg', t[1]] for t in done], seg))
        prev = c
    return items
