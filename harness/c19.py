"""C19 — message ids resolve to the right class, per application, or not at all.

A *history* is a program: a set of applications (ITCH / OUCH / SQF style; application base classes written the generated way,
a few written plainly) and message class statements with overlapping ids in random order.  Every statement is executed the
way real code defines classes: as a top-level `class` statement in a MODULE namespace (a module object registered in
`sys.modules`, the statement binds the module attribute), inside a factory function of a module, as a metaclass call
(`type(Base)(name, bases, ns, **kw)`), or in a bare namespace; class names are repeated — in particular a second class for a
taken id gets the name of the first, in the same module (attribute still bound to the first, or deleted) or in another
one.  Registries are process-global, so
every history is executed in ONE fresh Python process (this file run with `--child`), which
  * executes the class statements one by one, recording `ok` or the exception class,
  * checks after every statement that raised that both registries are what they were before it,
  * pushes all 256 id bytes (+ a body byte) through every application base class' `from_bytes`, and queries
    `get_msg_cls_by_indicator`, `get_msg_cls_by_name`, `get_msg_classes`.
The parent compares all of it with Model/Registry.lean (drv_C19) and evaluates the statement itself (oracle) on histories
whose statements are all inside the property's quantifier.
"""
import json
import os
import subprocess
import sys
from concurrent.futures import ThreadPoolExecutor

DRIVER = 'drv_C19'
PROTO_APP = {'itch': 'ITCH', 'ouch': 'OUCH', 'sqf': 'SQF'}
HERE = os.path.abspath(__file__)


# =====================================================================================================================
# child: run one history on the real library
# =====================================================================================================================
def base_source(b):
    """source text of an application base class.  b = {'var','proto','app','style'}"""
    if b['style'] == 'gen':        # what message_soup_app.mustache emits (and what the test-suite writes)
        return (f"@logable\n"
                f"class {b['var']}({b['proto']}.Message, app_name={b['app']!r}):\n"
                f"    def __init_subclass__(cls, **kwargs):\n"
                f"        cls.log.debug('subclassing %s, params = %s', cls.__name__, str(kwargs))\n"
                f"        if 'indicator' not in kwargs:\n"
                f"            raise ValueError('expected \"indicator\" when subclassing {b['app']}.Message')\n"
                f"\n"
                f"        kwargs['app_name'] = {b['app']!r}\n"
                f"        super().__init_subclass__(**kwargs)\n")
    return f"class {b['var']}({b['proto']}.Message, app_name={b['app']!r}):\n    pass\n"


def decl_kw(d):
    kw = []
    if d['ind'] is not None:
        kw.append(f"indicator={d['ind']}")
    if d['dir'] is not None:
        kw.append(f"direction={d['dir']!r}")
    if d['appkw'] is not None:
        kw.append(f"app_name={d['appkw']!r}")
    return kw


def decl_source(d):
    """source text of a message class definition.
    d = {'cid','name','base' (variable or 'itch.Message'), 'ind','dir','appkw'} + where/how it is written:
      form  'env'      class statement in a bare namespace (no module: `__module__` is 'builtins')                [default]
            'module'   top-level class statement of module `mod` (binds the module attribute `name`)
            'factory'  class statement inside the function `make_<name>` of module `mod`; `bind`: result assigned to `name`
            'type'     metaclass call `type(Base)(name, (Base,), ns, **kw)` in module `mod`; `bind`: result assigned to `name`
      unbind  the module attribute `name` is deleted again after the definition"""
    form = d.get('form', 'env')
    kw = decl_kw(d)
    if form in ('env', 'module'):
        src = (f"class {d['name']}({', '.join([d['base']] + kw)}):\n"
               f"    CID = {d['cid']}\n"
               f"    class BodyRecord(Record):\n"
               f"        Fields = [Field('f{d['cid']}', Byte)]\n")
    elif form == 'factory':
        tgt = d['name'] if d.get('bind') else '_unbound'
        src = (f"def make_{d['name']}():\n"
               f"    class {d['name']}({', '.join([d['base']] + kw)}):\n"
               f"        CID = {d['cid']}\n"
               f"        class BodyRecord(Record):\n"
               f"            Fields = [Field('f{d['cid']}', Byte)]\n"
               f"    return {d['name']}\n"
               f"{tgt} = make_{d['name']}()\n")
    elif form == 'type':
        tgt = d['name'] if d.get('bind') else '_unbound'
        src = (f"_body = type('BodyRecord', (Record,), {{'Fields': [Field('f{d['cid']}', Byte)]}})\n"
               f"{tgt} = type({d['base']})({d['name']!r}, ({d['base']},), {{'CID': {d['cid']}, 'BodyRecord': _body}}"
               f"{''.join(', ' + k for k in kw)})\n")
    else:
        raise ValueError(form)
    if d.get('unbind') and form != 'env':
        src += f"globals().pop({d['name']!r}, None)\n"
    return src


def module_name(i):
    return f'c19mod{i}'


def child_main():
    import common
    h = json.load(sys.stdin)
    common.use_repo()
    from nasdaq_protocols import itch, ouch, sqf
    from nasdaq_protocols.common import logable, Record, Field, Byte, CommonMessage
    import types
    env = dict(itch=itch, ouch=ouch, sqf=sqf, logable=logable, Record=Record, Field=Field, Byte=Byte)
    # module objects registered in sys.modules: what `import` leaves behind.  Every module starts with the prelude names
    # (`from nasdaq_protocols import …`) and, once defined, the application base classes (`from apps import *`)
    n_mod = 1 + max([d.get('mod', 0) for d in h['decls']] + [0])
    mods = []
    for i in range(n_mod):
        m = types.ModuleType(module_name(i))
        m.__dict__.update(env)
        sys.modules[m.__name__] = m
        mods.append(m)
    id_cls = {'itch': itch.ItchMessageId, 'ouch': ouch.OuchMessageId, 'sqf': sqf.SqfMessageId}
    out = {'bases': [], 'defs': [], 'unchanged_after_error': [], 'sweeps': {}, 'ind': [], 'names': [], 'classes': {}, 'bound': []}

    def snapshot():
        ids = {a: [(repr(k), getattr(v, 'CID', v.__name__)) for k, v in m.items()]
               for a, m in CommonMessage.MsgIdToClsMap.items() if m}
        names = {a: [(k, getattr(v, 'CID', v.__name__)) for k, v in m.items()]
                 for a, m in CommonMessage.MsgNameToMsgMap.items() if m}
        return json.dumps([ids, names], sort_keys=True)

    for b in h['bases']:
        try:
            exec(base_source(b), env)
            out['bases'].append('ok')
            for m in mods:
                m.__dict__[b['var']] = env[b['var']]
        except Exception as e:  # noqa
            out['bases'].append(common.err_name(e))
    for d in h['decls']:
        before = snapshot()
        ns = env if d.get('form', 'env') == 'env' else mods[d.get('mod', 0)].__dict__
        try:
            exec(decl_source(d), ns)
            out['defs'].append('ok')
        except Exception as e:  # noqa
            out['defs'].append(common.err_name(e))
            out['unchanged_after_error'].append(snapshot() == before)

    def cid_of(cls):
        return getattr(cls, 'CID', 'cls:' + getattr(cls, '__name__', '?'))

    # what each module namespace binds the class names to at the end (python's own semantics: ties the harness' idea of
    # "the attribute is still bound to the first class" to what really happened)
    for i, m in enumerate(mods):
        for nm in sorted({d['name'] for d in h['decls']}):
            if nm in m.__dict__:
                out['bound'].append([i, nm, cid_of(m.__dict__[nm])])

    def lookup(f):
        try:
            return cid_of(f())
        except Exception as e:  # noqa
            return common.err_name(e)

    def decode(base, byte):
        try:
            n, msg = base.from_bytes(bytes([byte, 7]))
        except Exception as e:  # noqa
            return common.err_name(e)
        cid = cid_of(type(msg))
        try:
            ok = n == 2 and getattr(msg, f'f{cid}') == 7 and type(msg).MsgId.indicator == byte
        except Exception:  # noqa
            ok = False
        return cid if ok else f'bad-instance:{cid}'

    targets = [{'var': f'{p}.Message', 'proto': p, 'app': PROTO_APP[p]} for p in ('itch', 'ouch', 'sqf')] + \
              [b for b, r in zip(h['bases'], out['bases']) if r == 'ok']
    for t in targets:
        base = eval(t['var'], env)
        out['sweeps'][t['var']] = [decode(base, i) for i in range(256)]
        out['classes'][t['var']] = [cid_of(c) for c in list(base.get_msg_classes())]
    for q in h['queries']:
        base = eval(q['var'], env)
        if q['kind'] == 'ind':
            p = q['proto']
            mid = id_cls[p](q['ind']) if p == 'itch' else id_cls[p](q['ind'], q['dir'])
            out['ind'].append(lookup(lambda: base.get_msg_cls_by_indicator(mid)))
        else:
            out['names'].append(lookup(lambda: base.get_msg_cls_by_name(q['name'])))
    json.dump(out, sys.stdout)


if __name__ == '__main__' and '--child' in sys.argv:
    sys.path.insert(0, os.path.dirname(HERE))
    child_main()
    sys.exit(0)


# =====================================================================================================================
# parent
# =====================================================================================================================
import common                      # noqa: E402
from common import sx              # noqa: E402


def run_child(h):
    env = dict(os.environ, VERIF_REPO=common.REPO, PYTHONPATH='')
    p = subprocess.run([sys.executable, '-W', 'ignore', HERE, '--child'], input=json.dumps(h), capture_output=True,
                       text=True, env=env, timeout=120)
    if p.returncode != 0:
        return {'crash': (p.stderr or p.stdout)[-1500:]}
    try:
        return json.loads(p.stdout[p.stdout.index('{'):])
    except Exception as e:  # noqa
        return {'crash': f'unreadable child output: {e}: {p.stdout[-500:]}'}


# ---------------------------------------------------------------- generator
def gen_history(rng, tier):
    """a program: bases + message class statements + by-indicator / by-name queries"""
    protos = ['itch', 'ouch', 'sqf']
    n_apps = rng.randint(2, 5)
    bases = []
    pure = rng.random() < 0.7          # only statements inside the property's quantifier
    app_names = [f'app{i}' for i in range(n_apps)]
    for i in range(n_apps):
        proto = rng.choice(protos)
        # 'explicit' = a plain base class whose message statements all repeat app_name= (the namespace is spelled out)
        style = rng.choice(['gen', 'gen', 'gen', 'explicit']) if pure else rng.choice(['gen', 'gen', 'explicit', 'plain', 'plain'])
        app = app_names[i]
        if i > 0 and rng.random() < 0.12:
            app = bases[rng.randrange(len(bases))]['app']          # a second base class for the same application name
        if not pure and rng.random() < 0.08:
            app = rng.choice(['ITCH', 'OUCH', 'SQF'])              # an application that takes a protocol default name
        bases.append({'var': f'Base{i}', 'proto': proto, 'app': app, 'style': style})
    id_pool = [rng.randrange(256) for _ in range(rng.randint(2, 5))]
    if rng.random() < 0.3:
        id_pool += [0, 255]
    decls = []
    n_decl = rng.randint(4, 14 if tier == 'quick' else 24)
    n_mod = rng.choice([1, 1, 2, 3])
    name_pool = []
    for cid in range(1, n_decl + 1):
        c = rng.random()
        if c < 0.85 or pure:
            b = rng.choice(bases)
            base_var, proto = b['var'], b['proto']
            if pure and rng.random() < 0.12:
                base_var = f'{proto}.Message'                       # defined directly under the protocol-level class
        else:
            proto = rng.choice(protos)
            base_var = f'{proto}.Message'
        ind = rng.choice(id_pool) if rng.random() < 0.9 else rng.randrange(256)
        if proto == 'itch':
            dirn = None if (pure or rng.random() < 0.8) else rng.choice(['incoming', 'outgoing'])
        else:
            dirn = rng.choice(['incoming', 'outgoing', 'outgoing'])
        appkw = None
        if not pure:
            r = rng.random()
            if r < 0.06:
                ind = None
            elif r < 0.12 and proto != 'itch':
                dirn = None
            elif r < 0.16 and proto != 'itch':
                dirn = 'both'
            elif r < 0.22:
                appkw = rng.choice(app_names + ['ITCH', 'elsewhere'])
            elif r < 0.26:
                ind = rng.choice([256, 300, 1000])
        if base_var.startswith('Base') and bases[int(base_var[4:])]['style'] == 'explicit' and appkw is None:
            appkw = bases[int(base_var[4:])]['app']
            if rng.random() < 0.4:
                base_var = f'{proto}.Message'       # same namespace, spelled on a statement under the protocol-level class
        # ---- where and how the statement is written; which name it carries
        ns_key = (appkw if (appkw is not None and not (base_var.startswith('Base') and bases[int(base_var[4:])]['style'] == 'gen'))
                  else (bases[int(base_var[4:])]['app'] if base_var.startswith('Base') else PROTO_APP[proto]), proto, ind)
        prior = [x for x in decls if x['_ns'] == ns_key]                 # earlier statements for the same (application, indicator)
        form = rng.choices(['module', 'factory', 'type', 'env'], weights=[11, 3, 3, 3])[0]
        mod = rng.randrange(n_mod)
        name = f'M{cid}'
        r = rng.random()
        if prior and r < 0.55:
            # a second class for a taken id written like a re-definition: the name of the first one - in its module
            # (same form: a module executed again, a factory called again …) or in another module
            first = prior[0]
            name = first['name']
            if rng.random() < 0.7:
                mod = first.get('mod', 0)
                if rng.random() < 0.7:
                    form = first.get('form', 'env')
        elif name_pool and r < 0.65:
            name = rng.choice(name_pool)                                # two classes with the same __name__, anywhere
        name_pool.append(name)
        d = {'cid': cid, 'name': name, 'base': base_var, 'ind': ind, 'dir': dirn, 'appkw': appkw, 'form': form, '_ns': ns_key}
        if form != 'env':
            d['mod'] = mod
            if form in ('factory', 'type'):
                d['bind'] = rng.random() < 0.7
            if rng.random() < 0.08:
                d['unbind'] = True
        decls.append(d)
    for d in decls:
        del d['_ns']
    queries = []
    all_vars = [b['var'] for b in bases] + ['itch.Message', 'ouch.Message', 'sqf.Message']
    vproto = {b['var']: b['proto'] for b in bases}
    vproto.update({f'{p}.Message': p for p in protos})
    for _ in range(rng.randint(6, 16)):
        v = rng.choice(all_vars)
        if rng.random() < 0.65:
            queries.append({'kind': 'ind', 'var': v, 'proto': rng.choice([vproto[v], vproto[v], rng.choice(protos)]),
                            'ind': rng.choice(id_pool), 'dir': rng.choice(['incoming', 'outgoing', 'both'])})
        else:
            queries.append({'kind': 'name', 'var': v, 'name': rng.choice(name_pool + ['Nope'])})
    return {'bases': bases, 'decls': decls, 'queries': queries, 'pure': pure}


# ---------------------------------------------------------------- model request
def app_codes(h):
    codes = {'ITCH': 0, 'OUCH': 1, 'SQF': 2}
    for b in h['bases']:
        codes.setdefault(b['app'], len(codes))
    for d in h['decls']:
        if d['appkw'] is not None:
            codes.setdefault(d['appkw'], len(codes))
    return codes


def base_info(h):
    info = {f'{p}.Message': {'proto': p, 'app': PROTO_APP[p], 'style': 'proto'} for p in PROTO_APP}
    for b in h['bases']:
        info[b['var']] = {'proto': b['proto'], 'app': b['app'], 'style': 'plain' if b['style'] == 'explicit' else b['style'],
                          'explicit': b['style'] == 'explicit'}
    return info


def model_request(h):
    codes = app_codes(h)
    info = base_info(h)
    names = {}
    for d in h['decls']:
        names.setdefault(d['name'], len(names) + 1)
    names.setdefault('Nope', 0)
    dirs = lambda x: 'none' if x is None else (x if x in ('incoming', 'outgoing') else 'other')
    ds = []
    for d in h['decls']:
        b = info[d['base']]
        form = d.get('form', 'env')
        ds.append([d['cid'], names[d['name']], b['proto'], codes[b['app']], b['style'],
                   'none' if d['ind'] is None else d['ind'], dirs(d['dir']),
                   'none' if d['appkw'] is None else codes[d['appkw']],
                   d.get('mod', 0), FORM_SX[form], 1 if d.get('bind') else 0, 1 if d.get('unbind') else 0])
    targets = ['itch.Message', 'ouch.Message', 'sqf.Message'] + [b['var'] for b in h['bases']]
    qs = []
    for v in targets:
        qs.append(['sweep', info[v]['proto'], codes[info[v]['app']]])
    for v in targets:
        qs.append(['classes', codes[info[v]['app']]])
    for q in h['queries']:
        if q['kind'] == 'ind':
            qs.append(['ind', codes[info[q['var']]['app']], q['proto'], q['ind'], dirs(q['dir'])])
        else:
            qs.append(['name', codes[info[q['var']]['app']], names.get(q['name'], 0)])
    bound = bound_queries(h)
    for m, nm in bound:
        qs.append(['bound', m, names[nm]])
    return f'reg.run {sx(ds)} {sx(qs)}', targets


FORM_SX = {'env': 'bare', 'module': 'top', 'factory': 'factory', 'type': 'meta'}


def bound_queries(h):
    """(module, class name) pairs whose final binding is compared (python's namespace semantics, modelled by `stepAt`)"""
    n_mod = 1 + max([d.get('mod', 0) for d in h['decls']] + [0])
    return [(m, nm) for m in range(n_mod) for nm in sorted({d['name'] for d in h['decls']})]


def canon(x):
    return str(x)


def compare(h, res, ans):
    """correspondence; returns a description of the first difference or None"""
    p = common.parse_sx(ans)
    if p[0] != 'ok':
        return f'model answered {ans[:80]}'
    outs, answers = p[1], p[2]
    if [canon(x) for x in res['defs']] != outs:
        for i, (a, b) in enumerate(zip(res['defs'], outs)):
            if canon(a) != b:
                return f'class statement {i} ({h["decls"][i]["name"]}): model {b}, implementation {a}'
        return 'definition outcome lists differ in length'
    _req, targets = model_request(h)
    n = len(targets)
    for i, v in enumerate(targets):
        got = [canon(x) for x in res['sweeps'][v]]
        if got != answers[i]:
            j = next(k for k in range(256) if got[k] != answers[i][k])
            return f'{v}.from_bytes(id byte {j}): model {answers[i][j]}, implementation {got[j]}'
    for i, v in enumerate(targets):
        got = [canon(x) for x in res['classes'][v]]
        if got != answers[n + i]:
            return f'{v}.get_msg_classes(): model {answers[n + i]}, implementation {got}'
    qi, ii, ni = 2 * n, 0, 0
    for q in h['queries']:
        if q['kind'] == 'ind':
            got = canon(res['ind'][ii])
            ii += 1
        else:
            got = canon(res['names'][ni])
            ni += 1
        if got != answers[qi]:
            return f'query {q}: model {answers[qi]}, implementation {got}'
        qi += 1
    impl_bound = {(m, nm): canon(c) for m, nm, c in res.get('bound', [])}
    for m, nm in bound_queries(h):
        got = impl_bound.get((m, nm), 'key')
        if got != answers[qi]:
            return f'module {module_name(m)} binds {nm} to: model {answers[qi]}, implementation {got}'
        qi += 1
    return None


# ---------------------------------------------------------------- oracle (the statement, on the implementation alone)
def oracle(h, res):
    """only for histories whose statements are all inside the quantifier (`pure`).  Returns description or None."""
    info = base_info(h)
    if any(b != 'ok' for b in res['bases']):
        return 'an application base class could not be defined: ' + str(res['bases'])
    same_id = {'itch': lambda i, d: (i,), 'ouch': lambda i, d: (i, d), 'sqf': lambda i, d: (i,)}
    table = {}          # (app, proto) -> {id -> cid}
    for d, r in zip(h['decls'], res['defs']):
        b = info[d['base']]
        ns = (d['appkw'] if (d['appkw'] is not None and b['style'] != 'gen') else b['app'], b['proto'])
        mid = same_id[b['proto']](d['ind'], d['dir'])
        reg = table.setdefault(ns, {})
        if mid in reg:
            if r == 'ok':
                return (f'class {d["name"]} (a second, different class for id {mid} of application {ns[0]}) was accepted; '
                        f'class {reg[mid]} already has that id')
        else:
            if r != 'ok':
                return f'class {d["name"]}: first class for id {mid} of application {ns[0]} was rejected ({r})'
            reg[mid] = d['cid']
    if not all(res['unchanged_after_error']):
        return 'a rejected class statement changed a registry'
    for v, sweep in res['sweeps'].items():
        b = info[v]
        reg = table.get((b['app'], b['proto']), {})
        for byte, got in enumerate(sweep):
            key = (byte, 'outgoing') if b['proto'] == 'ouch' else (byte,)
            exp = reg.get(key, 'key')
            if got != exp:
                what = 'raises KeyError' if exp == 'key' else f'is class {exp}'
                return (f'{v}.from_bytes(id byte {byte}) of application {b["app"]} gave {got}; '
                        f'the id {what} in that application')
    for q, got in zip([q for q in h['queries'] if q['kind'] == 'ind'], res['ind']):
        b = info[q['var']]
        if q['proto'] != b['proto'] or q['dir'] == 'both':
            continue
        reg = table.get((b['app'], b['proto']), {})
        exp = reg.get(same_id[b['proto']](q['ind'], q['dir']), 'key')
        if got != exp:
            return f'{q["var"]}.get_msg_cls_by_indicator({q["ind"]}, {q["dir"]}) gave {got}, expected {exp}'
    return None


def site_classes(h, res):
    """input distribution: how each statement is written, and - for every statement that meets a class already registered for
    its (application, id) - how it relates to that class: name, module, form, and whether the module attribute of that name
    is still bound to the registered class at that moment (bindings replayed from the implementation's own outcomes)"""
    info = base_info(h)
    out = []
    first = {}          # (namespace, proto, ind, dir-if-ouch) -> decl
    binds = {}          # (mod, name) -> cid
    for d, r in zip(h['decls'], res['defs']):
        form = d.get('form', 'env')
        out.append('form:' + form)
        b = info[d['base']]
        ns = d['appkw'] if (d['appkw'] is not None and b['style'] != 'gen') else b['app']
        key = (ns, b['proto'], d['ind'], d['dir'] if b['proto'] == 'ouch' else None)
        f = first.get(key)
        if f is not None and d['ind'] is not None:
            same_name = f['name'] == d['name']
            same_mod = f.get('form', 'env') != 'env' and form != 'env' and f.get('mod', 0) == d.get('mod', 0)
            bound = same_mod and binds.get((d.get('mod', 0), d['name'])) == f['cid']
            out.append('second-class:' + ('same-name' if same_name else 'other-name') + '/' +
                       ('same-module' if same_mod else 'other-module') +
                       ('/same-form:' + form if (same_name and same_mod and f.get('form', 'env') == form) else '') +
                       ('/attribute-bound-to-first' if (same_name and bound) else ''))
        if r == 'ok':
            if f is None and d['ind'] is not None:
                first[key] = d
            if form == 'module' or (form in ('factory', 'type') and d.get('bind')):
                binds[(d['mod'], d['name'])] = d['cid']
            if d.get('unbind') and form != 'env':
                binds.pop((d['mod'], d['name']), None)
    return out


def shrink(h, failing):
    h = json.loads(json.dumps(h))
    for key in ('decls', 'queries', 'bases'):
        i = 0
        while i < len(h[key]):
            cand = json.loads(json.dumps(h))
            removed = cand[key].pop(i)
            if key == 'bases' and (any(d['base'] == removed['var'] for d in cand['decls'])
                                   or any(q['var'] == removed['var'] for q in cand['queries'])):
                i += 1
                continue
            try:
                bad = failing(cand)
            except Exception:  # noqa
                bad = False
            if bad:
                h = cand
            else:
                i += 1
    return h


def program_text(h):
    where = lambda d: ('# bare namespace (no module)' if d.get('form', 'env') == 'env'
                       else f"# in module {module_name(d.get('mod', 0))} (registered in sys.modules)")
    return ''.join(base_source(b) + '\n' for b in h['bases']) + ''.join(where(d) + '\n' + decl_source(d) + '\n' for d in h['decls'])


def check_history(ctx, h, res, ans):
    if 'crash' in res:
        ctx.violation('the history could not be executed on the implementation: ' + res['crash'][-300:],
                      {'kind': 'registry-history', 'history': h})
        return
    for r in res['defs']:
        ctx.count('def:' + str(r))
    ctx.count('decoded-ok', sum(1 for s in res['sweeps'].values() for x in s if isinstance(x, int)))
    ctx.count('decoded-keyerror', sum(1 for s in res['sweeps'].values() for x in s if x == 'key'))
    ctx.count('history:' + ('in-quantifier' if h.get('pure') else 'mixed (agreement only)'))
    for k in site_classes(h, res):
        ctx.count(k)
    if h.get('pure'):
        bad = oracle(h, res)
        if bad and len(ctx.violations) >= 2:
            ctx.violation(bad, {'kind': 'registry-history', 'history': h, 'program': program_text(h)})   # not shrunk
        elif bad:
            def failing(c):
                r = run_child(c)
                return 'crash' not in r and oracle(c, r) is not None
            m = shrink(h, failing)
            r2 = run_child(m)
            bad = ('crash' not in r2 and oracle(m, r2)) or bad
            ctx.violation(bad, {'kind': 'registry-history', 'history': m, 'program': program_text(m)})
    if ans is not None:
        d = compare(h, res, ans)
        if d:
            ctx.disagree(d, {'kind': 'registry-history', 'history': h, 'program': program_text(h)})


def load_corpus():
    cdir = os.path.join(common.VERIF, 'corpus', 'C19')
    out = []
    if os.path.isdir(cdir):
        for f in sorted(os.listdir(cdir)):
            if f.endswith('.json'):
                out.append(json.load(open(os.path.join(cdir, f)))['history'])
    return out


def run_histories(ctx, hs):
    with ThreadPoolExecutor(max_workers=min(12, os.cpu_count() or 4)) as ex:
        results = list(ex.map(run_child, hs))
    answers = [None] * len(hs)
    if ctx.driver is not None and ctx.driver.available:
        answers = ctx.driver.ask([model_request(h)[0] for h in hs])
    for h, res, ans in zip(hs, results, answers):
        ctx.case(json.dumps({'bases': h['bases'], 'decls': h['decls']})[:400], nontrivial=len(h['decls']) > 1, sample_every=37)
        check_history(ctx, h, res, ans)
    return results


def run(ctx):
    rng = ctx.rng
    n = 220 if ctx.tier == 'quick' else 6000
    ctx.cov['rule'] = ('one fresh Python process per history: 2-5 application base classes (ITCH/OUCH/SQF, generated style; plain style '
                       'and explicit app_name only in "mixed" histories) + 4-24 message class definitions with ids drawn from a small '
                       'pool, in random order, each written as a top-level class statement of one of 1-3 modules registered in '
                       'sys.modules / inside a factory function / as a metaclass call / in a bare namespace, class names repeated (a second '
                       'class for a taken id carries the name of the first in 55 %, mostly in its module and form, the module attribute '
                       'still bound to the first or deleted); then all 256 id bytes through every base class and the 3 protocol-level classes, '
                       'get_msg_cls_by_indicator / by_name / get_msg_classes; distinct = distinct program')
    hs = load_corpus() + [gen_history(rng, ctx.tier) for _ in range(n)]
    run_histories(ctx, hs)


def replay(ctx, path):
    r = json.load(open(path))
    rep = r.get('replay') or (r.get('no_longer_checks') or [{}])[-1].get('case') or r
    ctx.cov['rule'] = 'replay of ' + path
    h = rep['history']
    res = run_histories(ctx, [h])[0]
    ctx.case('replay-marker')
    print(program_text(h))
    print('implementation:', {k: v for k, v in res.items() if k != 'sweeps'})
    for v, s in res.get('sweeps', {}).items():
        print(f'  {v}.from_bytes: ', {i: x for i, x in enumerate(s) if x != 'key'})
