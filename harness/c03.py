"""C03 — stream framing is independent of TCP segmentation and timing.

Real `SoupMessageReader` / `FixMessageReader` are driven under virtual time (harness/vloop.py) with stub `on_msg_coro` /
`on_close_coro` coroutines.  One case = a list of well-formed packets / FIX frames, a segmentation of their concatenated byte
stream and a schedule (when the reader polls relative to the arrival of the segments, how long the callbacks take).

* event log: every `on_data(seg)` call, every `deserialize()` call of the reader (a model `tick`), every `on_msg_coro(m)` and
  `on_close_coro()` entry, in the order they really happened;
* correspondence: the model (`frame.run`, Model/Framing.lean) is folded over the observed `data`/`tick` sequence and must predict
  exactly the same interleaved emissions / close signal, the final `is_stopped()`, the remaining buffer and a dead reader task;
* oracle (no model): messages out == messages in (non-heartbeats before the first logout, compared with the values the generator
  put in, not with the library's decoder), close signalled exactly once iff a logout was delivered and after the last emission,
  nothing afterwards, `is_stopped()` iff logout.

Malformed streams (outside the property's quantifier) are compared for model/implementation agreement only.
Megabyte backlogs (`gen_mega_cases`: 1.2 - 8.5 MiB of well-formed frames in one segment / 64 KiB segments back to back / a megabyte
first and the rest paced) are judged by the oracle only (the list-based model costs ticks x buffered bytes); their replays are the
compact high-level form (`kind: stream-hl`).
"""
import asyncio
import itertools
import json
import os
import signal
import time

from common import sx, cps, parse_sx, err_name, VERIF

DRIVER = 'drv_C03'
KNOWN_LOCAL = []
UNIT = 0.00005          # half a reader poll period; `['a', 2]` in a script is one poll period (0.0001 s)
SOHB = b'\x01'


# ====================================================================== SoupBinTCP side
def soup():
    from nasdaq_protocols import soup as s
    return s


TYPE_CHAR = {'loginReq': 'L', 'loginAcc': 'A', 'loginRej': 'J', 'seqData': 'S', 'unseqData': 'U', 'debug': '+',
             'clientHb': 'R', 'serverHb': 'H', 'endOfSession': 'Z', 'logoutReq': 'O'}
SOUP_HB = ('clientHb', 'serverHb')
SOUP_LOGOUT = ('endOfSession', 'logoutReq')


def kind_of(t):
    return t if isinstance(t, str) else t[0]


def soup_pkt_to_sx(p):
    """canonical generator form of a packet object the reader emitted (reads attributes only)"""
    s = soup()
    if isinstance(p, s.LoginRequest):
        return ['loginReq', cps(p.user), cps(p.password), cps(p.session), cps(p.sequence)]
    if isinstance(p, s.LoginAccepted):
        return ['loginAcc', cps(p.session_id), int(p.sequence)]
    if isinstance(p, s.LoginRejected):
        return ['loginRej', ord(p.reason.value)]
    if isinstance(p, s.SequencedData):
        return ['seqData', bytes(p.data)]
    if isinstance(p, s.UnSequencedData):
        return ['unseqData', bytes(p.data)]
    if isinstance(p, s.Debug):
        return ['debug', cps(p.msg)]
    for cls, name in ((s.ClientHeartbeat, 'clientHb'), (s.ServerHeartbeat, 'serverHb'),
                      (s.EndOfSession, 'endOfSession'), (s.LogoutRequest, 'logoutReq')):
        if type(p) is cls:
            return name
    raise TypeError(type(p))


def soup_layout(t):
    """independent reference encoder written from the protocol description (not from the library)"""
    k = kind_of(t)
    pad = lambda cp, n: bytes(cp) + b' ' * (n - len(cp))
    if k == 'loginReq':
        payload = pad(t[1], 6) + pad(t[2], 10) + pad(t[3], 10) + pad(t[4], 20)
    elif k == 'loginAcc':
        payload = pad(t[1], 10) + pad(cps(str(t[2])), 20)
    elif k == 'loginRej':
        payload = bytes([t[1]])
    elif k in ('seqData', 'unseqData', 'debug'):
        payload = bytes(t[1])
    else:
        payload = b''
    n = len(payload) + 1
    return bytes([n >> 8, n & 0xff]) + TYPE_CHAR[k].encode() + payload


def soup_normalise(t):
    """parsed s-expression (all strings) -> typed generator form"""
    if isinstance(t, str):
        return t
    k = t[0]
    ints = lambda l: [int(x) for x in l]
    if k == 'loginReq':
        return [k, ints(t[1]), ints(t[2]), ints(t[3]), ints(t[4])]
    if k == 'loginAcc':
        return [k, ints(t[1]), int(t[2])]
    if k == 'loginRej':
        return [k, int(t[1])]
    if k in ('seqData', 'unseqData'):
        if isinstance(t[1], list) and t[1][0] == 'fill':          # `(seqData (fill <byte> <n>))`: compact form for corpus files
            return [k, bytes([int(t[1][1])]) * int(t[1][2])]
        return [k, bytes.fromhex(t[1][1:])]
    if k == 'debug':
        if t[1] and t[1][0] == 'fill':
            return [k, [int(t[1][1])] * int(t[1][2])]
        return [k, ints(t[1])]
    raise ValueError(k)


def gen_soup_payload(rng, small):
    c = rng.random()
    if c < 0.3:      # looks like a packet header: length prefix + type character, so a mis-framed reader finds "packets" inside
        inner = rng.choice(b'LAJSU+RHZO')
        n = rng.choice([0, 1, 1, 2, 3])
        return bytes([0, n, inner]) + bytes(rng.choice([0, 1, 72, 90]) for _ in range(rng.randint(0, 2)))
    if c < 0.45:
        return bytes(rng.choice([0, 1, 2, 0x48, 0x5a, 0x4f, 0xff]) for _ in range(rng.randint(0, 4)))
    if small:
        return rng.randbytes(rng.randint(0, 5))
    if c < 0.5:
        return rng.randbytes(rng.choice([253, 254, 255, 256, 257, 600, 4000]))
    return rng.randbytes(rng.randint(0, 40))


def gen_soup_packet(rng, small, p_end=0.08, p_hb=0.25):
    c = rng.random()
    if c < p_end:
        return rng.choice(SOUP_LOGOUT)
    if c < p_end + p_hb:
        return rng.choice(SOUP_HB)
    k = rng.choice(['seqData', 'seqData', 'seqData', 'unseqData', 'unseqData', 'debug', 'loginRej'] +
                   ([] if small else ['loginAcc', 'loginReq']))
    if k in ('seqData', 'unseqData'):
        return [k, gen_soup_payload(rng, small)]
    if k == 'debug':
        return [k, [rng.choice([72, 90, 82, 79, 0, 1, 65, 97]) for _ in range(rng.randint(0, 3 if small else 30))]]
    if k == 'loginRej':
        return [k, rng.choice([65, 83])]
    if k == 'loginAcc':
        return [k, cps(rng.choice(['', 'S1', 'sess-00001'])), rng.choice([0, 1, 17, 10**19])]
    return [k, cps(rng.choice(['u', 'user01'])), cps(rng.choice(['', 'pw', 'password10'])), cps(rng.choice(['', 'sess'])),
            cps(str(rng.choice([0, 1, 255, 10**19])))]


class SoupSide:
    name = 'soup'

    @staticmethod
    def reader_cls():
        try:
            from nasdaq_protocols.soup._reader import SoupMessageReader
            return SoupMessageReader
        except ImportError:      # refactored away: the class sessions actually use
            import attrs
            from nasdaq_protocols.soup import session
            return attrs.fields(session.SoupSession).reader_factory.default

    @staticmethod
    def desc(t):
        return sx(t)

    @staticmethod
    def undesc(d):
        return soup_normalise(parse_sx(d)[0])

    @staticmethod
    def frame(t):
        return soup_layout(t)

    @staticmethod
    def is_hb(t):
        return kind_of(t) in SOUP_HB

    @staticmethod
    def is_logout(t):
        return kind_of(t) in SOUP_LOGOUT

    @staticmethod
    def expect(t, frame):
        return sx(t)

    @staticmethod
    def canon(m):
        """canonical text of an emitted message object"""
        return sx(soup_pkt_to_sx(m))

    @staticmethod
    def model_item(item):
        """canonical text of a model-emitted message (`(m <pkt>)` payload as parsed s-expression)"""
        return sx(item) if not isinstance(item, str) else item

    @staticmethod
    def gen_msgs(rng, n, small, force_logout=None):
        ms = [gen_soup_packet(rng, small) for _ in range(n)]
        if force_logout is not None and n > 0:
            ms[force_logout % n] = rng.choice(SOUP_LOGOUT)
        return ms

    @staticmethod
    def zones(frames):
        """cut positions worth forcing: inside every 2-byte length prefix, around the type byte, at packet ends ±1"""
        z, off = set(), 0
        for f in frames:
            z.update(off + d for d in (0, 1, 2, 3) if d <= len(f))
            z.update(off + len(f) - d for d in (0, 1) if len(f) - d >= 0)
            off += len(f)
        return z


# ====================================================================== FIX side
_FIX = {}


def fix_dict():
    """a small FIX dictionary with names of its own (registries are process global)"""
    if _FIX:
        return _FIX
    from nasdaq_protocols import fix

    def fld(tag, name, ty):
        return type(name, (fix.Field,), {}, Tag=tag, Name=name, Type=ty)
    f = {8: fld(8, 'C03BeginString', fix.FixString), 9: fld(9, 'C03BodyLength', fix.FixInt),
         35: fld(35, 'C03MsgType', fix.FixString), 49: fld(49, 'C03SenderCompID', fix.FixString),
         56: fld(56, 'C03TargetCompID', fix.FixString), 34: fld(34, 'C03MsgSeqNum', fix.FixInt),
         58: fld(58, 'C03Text', fix.FixString), 112: fld(112, 'C03TestReqID', fix.FixString),
         9001: fld(9001, 'C03Qty', fix.FixInt), 10: fld(10, 'C03CheckSum', fix.FixString)}
    hdr = type('C03Header', (fix.DataSegment,), {'Entries': [fix.Entry(f[8], True), fix.Entry(f[9], True), fix.Entry(f[35], True),
                                                            fix.Entry(f[49], False), fix.Entry(f[56], False), fix.Entry(f[34], False)]})
    body = type('C03Body', (fix.DataSegment,), {'Entries': [fix.Entry(f[58], False), fix.Entry(f[112], False), fix.Entry(f[9001], False)]})
    trl = type('C03Trailer', (fix.DataSegment,), {'Entries': [fix.Entry(f[10], True)]})
    msgs = {}
    for name, t in (('Heartbeat', '0'), ('Logout', '5'), ('Logon', 'A'), ('Order', 'D'), ('Exec', '8'), ('Tcr', 'AE'), ('Five0', '50'), ('Zero5', '05')):
        msgs[t] = type('C03Msg' + name, (fix.Message,), {}, Name='C03Msg' + name, Type=t, Category='c03',
                       HeaderCls=hdr, BodyCls=body, TrailerCls=trl)
    _FIX.update({'fields': f, 'msgs': msgs, 'int_tags': {9, 34, 9001}})
    return _FIX


FIX_VERSIONS = ['FIX.4.2', 'FIX.4.4', 'FIXT.1.1', 'FIX.5.0SP2']
FIX_TEXTS = ['', 'x', 'hello', '35=5', 'a=b', '8=FIX.4.4', '9=12', '10=000', 'x35=0', '35=', '=', '==35=5=', 'BodyLength 9=5', '0', '5']


def fix_frame(d):
    """independent frame builder: 8=ver|9=len|35=type|header fields|body fields|10=checksum|"""
    flds = [(35, d['type'])] + [(int(k), v) for k, v in d['hdr']] + [(int(k), v) for k, v in d['body']]
    b = b''.join(str(k).encode() + b'=' + v.encode('ascii') + SOHB for k, v in flds)
    x = b'8=' + d['ver'].encode() + SOHB + b'9=' + str(len(b)).encode() + SOHB + b
    return x + b'10=' + ('%03d' % (sum(x) % 256)).encode() + SOHB


def gen_fix_msg(rng, small, p_end=0.08, p_hb=0.25):
    c = rng.random()
    if c < p_end:
        t = '5'
    elif c < p_end + p_hb:
        t = '0'
    else:
        t = rng.choice(['A', 'D', 'D', '8', '8', 'AE', '50', '05'])
    hdr, body = [], []
    if not small or rng.random() < 0.3:
        if rng.random() < 0.6:
            hdr.append([49, rng.choice(['ME', 'S', 'SENDER35=0'])])
        if rng.random() < 0.4:
            hdr.append([56, rng.choice(['YOU', 'T=1'])])
        if rng.random() < 0.7:
            hdr.append([34, str(rng.choice([1, 5, 35, 10**9]))])
    if rng.random() < (0.4 if small else 0.8):
        body.append([58, rng.choice(FIX_TEXTS) if rng.random() < 0.7 else 'z' * rng.choice([1, 9, 10, 99, 100, 120])])
    if not small and rng.random() < 0.4:
        body.append([112, rng.choice(['r', 'REQ-1', '10=1'])])
    if rng.random() < (0.2 if small else 0.5):
        body.append([9001, str(rng.choice([0, 5, 35, -7, 9001]))])
    return {'ver': rng.choice(FIX_VERSIONS[:2] if small else FIX_VERSIONS), 'type': t, 'hdr': hdr, 'body': body}


def fix_collection(d, frame):
    """the decoded message the generator intends (independent of the library's decoder)"""
    ints = fix_dict()['int_tags']
    conv = lambda k, v: int(v) if int(k) in ints else v
    pre = frame.index(SOHB, frame.index(b'9=')) + 1
    body_len = len(frame) - 7 - pre
    col = {'Header': {8: d['ver'], 9: body_len, 35: d['type']}, 'Body': {}, 'Trailer': {10: frame[-4:-1].decode()}}
    for k, v in d['hdr']:
        col['Header'][int(k)] = conv(k, v)
    for k, v in d['body']:
        col['Body'][int(k)] = conv(k, v)
    return col


def fix_canon_col(type_, col):
    return type_ + '|' + json.dumps({seg: {str(k): v for k, v in vals.items()} for seg, vals in col.items()}, sort_keys=True)


class FixSide:
    name = 'fix'

    @staticmethod
    def reader_cls():
        fix_dict()
        try:
            from nasdaq_protocols.fix._reader import FixMessageReader
            return FixMessageReader
        except ImportError:
            import attrs
            from nasdaq_protocols.fix import session
            return attrs.fields(session.FixSession).reader_factory.default

    @staticmethod
    def desc(d):
        return d

    @staticmethod
    def undesc(d):
        # compact form for megabyte streams: a value `{'fill': 'z', 'n': 60000}` stands for that character repeated
        if any(isinstance(v, dict) for _, v in d['hdr'] + d['body']):
            ex = lambda v: v['fill'] * int(v['n']) if isinstance(v, dict) else v
            return dict(d, hdr=[[k, ex(v)] for k, v in d['hdr']], body=[[k, ex(v)] for k, v in d['body']])
        return d

    @staticmethod
    def frame(d):
        return fix_frame(d)

    @staticmethod
    def is_hb(d):
        return d['type'] == '0'

    @staticmethod
    def is_logout(d):
        return d['type'] == '5'

    @staticmethod
    def expect(d, frame):
        return fix_canon_col(d['type'], fix_collection(d, frame))

    @staticmethod
    def canon(m):
        return fix_canon_col(type(m).Type, m.as_collection())

    @staticmethod
    def gen_msgs(rng, n, small, force_logout=None):
        ms = [gen_fix_msg(rng, small) for _ in range(n)]
        if force_logout is not None and n > 0:
            ms[force_logout % n]['type'] = '5'
        return ms

    @staticmethod
    def zones(frames):
        """cut positions worth forcing: everywhere in `8=…|9=n|35=T|` (so also between `9=` and its SOH), the trailer, frame ends ±1"""
        z, off = set(), 0
        for f in frames:
            hdr_end = f.index(SOHB, f.index(b'35=')) + 1
            z.update(range(off, off + hdr_end + 1))
            z.update(range(off + len(f) - 8, off + len(f) + 1))
            off += len(f)
        return z


SIDES = {'soup': SoupSide, 'fix': FixSide}


# ====================================================================== driving the real reader
_PROBES = {}


def probe_cls(reader_cls):
    """subclass of the real reader whose only addition is a log line per `deserialize()` call"""
    if reader_cls in _PROBES:
        return _PROBES[reader_cls]

    class Probe(reader_cls):
        c03_log = None
        c03_via_session = False

        def on_data(self, data):
            if self.c03_via_session and self.c03_log is not None:
                self.c03_log.append(('d', bytes(data)))
            return super().on_data(data)

        def deserialize(self):
            if self.c03_log is None:
                return super().deserialize()
            self.c03_log.append(('t',))
            if len(self.c03_log) > MAX_DESERIALIZE_CALLS:
                raise ReaderHang(f'the reader called deserialize() more than {MAX_DESERIALIZE_CALLS} times in one case (busy loop)')
            return super().deserialize()
    Probe.__name__ = 'C03Probe' + reader_cls.__name__
    _PROBES[reader_cls] = Probe
    return Probe


async def _stub_wait(cfg):
    if cfg[0] == 'turns':
        for _ in range(cfg[1]):
            await asyncio.sleep(0)
    elif cfg[0] == 'timer':
        await asyncio.sleep(cfg[1] * UNIT)


WH_CAP = 4              # `['wh', k]`: at most this many poll periods are waited for a handler to be in flight


async def _drive(side, script, stubs, tail_polls):
    """run one script against a fresh real reader; returns (event log, final observations)

    Script events: `['d', hex]` one `on_data` call; `['a', n]` n half poll periods of virtual time; `['y', k]` k loop turns;
    with the stub `msg: ['gate', k]` (every `on_msg_coro` call SUSPENDS until the script releases it, then awaits k more turns):
    `['wh', k]` wait until a handler is in flight (suspended inside `on_msg_coro`; gives up after WH_CAP poll periods when the
    reader emits nothing), then k loop turns — what the script does next happens DURING that callback; `['r']` release every
    handler in flight.  At the end of the script everything is released and later handlers do not suspend."""
    log = []
    msg_cfg, close_cfg = stubs.get('msg', ['ret']), stubs.get('close', ['ret'])
    inflight, gate = [], {'open': False}

    def release():
        for f in inflight:
            if not f.done():
                f.set_result(None)
        del inflight[:]

    async def on_msg(m):
        log.append(('m', m))
        if msg_cfg[0] == 'gate':
            if not gate['open']:
                fut = asyncio.get_running_loop().create_future()
                inflight.append(fut)
                await fut
            for _ in range(msg_cfg[1] if len(msg_cfg) > 1 else 0):
                await asyncio.sleep(0)
            return
        await _stub_wait(msg_cfg)

    async def on_close():
        log.append(('c',))
        await _stub_wait(close_cfg)

    cls = probe_cls(side.reader_cls())
    reader = cls(session_id='c03', on_msg_coro=on_msg, on_close_coro=on_close)
    reader.c03_log = log
    await asyncio.sleep(0)
    await asyncio.sleep(0)                      # the reader task has started and sleeps
    for ev in script:
        if ev[0] == 'd':
            seg = bytes.fromhex(ev[1])
            log.append(('d', seg))
            reader.on_data(seg)
        elif ev[0] == 'a':
            await asyncio.sleep(ev[1] * UNIT)
            for _ in range(3):
                await asyncio.sleep(0)
        elif ev[0] == 'y':
            for _ in range(ev[1]):
                await asyncio.sleep(0)
        elif ev[0] == 'wh':
            for _ in range(WH_CAP):
                if inflight:
                    break
                await asyncio.sleep(2 * UNIT)
                for _ in range(3):
                    await asyncio.sleep(0)
            for _ in range(ev[1]):
                await asyncio.sleep(0)
        elif ev[0] == 'r':
            release()
    gate['open'] = True
    release()
    for _ in range(tail_polls):
        await asyncio.sleep(2 * UNIT)
        for _ in range(3):
            await asyncio.sleep(0)
    fin = {'stopped': bool(reader.is_stopped())}
    task = getattr(reader, '_task', None)
    if isinstance(task, asyncio.Task):
        if task.done() and not task.cancelled() and task.exception() is not None:
            fin['crashed'] = err_name(task.exception())
        else:
            fin['crashed'] = '-'
        fin['task_done'] = task.done()
        if not task.done():
            task.cancel()
            await asyncio.gather(task, return_exceptions=True)
    buf = getattr(reader, '_buffer', None)
    if isinstance(buf, (bytes, bytearray)):
        fin['buf'] = bytes(buf)
    return log, fin


async def _drive_session(side, script, stubs, tail_polls):
    """the same script, but the bytes travel peer -> transport (with flow control: `FakeTransport.feed`) -> session -> the session's
    own reader; same event log and final observations as `_drive`.  The session is a client session before login (no heartbeat
    monitors, nobody consumes the queue): what is observed is the reader the session built."""
    from vloop import FakeTransport
    log = []
    if side.name == 'soup':
        from nasdaq_protocols import soup as s_
        sess = s_.SoupClientSession()
    else:
        fix_dict()
        from nasdaq_protocols.fix import session as fs
        sess = fs.Fix44Session()
    sess.reader_factory = probe_cls(sess.reader_factory)
    tr = FakeTransport()
    tr.protocol = sess
    sess.connection_made(tr)
    reader = sess._reader
    reader.c03_log = log
    reader.c03_via_session = True
    om, oc, depth = reader.on_msg_coro, reader.on_close_coro, [0]

    async def om2(m):
        log.append(('m', m))
        await om(m)

    async def oc2():
        if depth[0] == 0 and asyncio.current_task() is getattr(reader, '_task', None):
            log.append(('c',))
        depth[0] += 1
        try:
            await oc()
        finally:
            depth[0] -= 1
    reader.on_msg_coro, reader.on_close_coro = om2, oc2
    await asyncio.sleep(0)
    await asyncio.sleep(0)
    for ev in script:
        if ev[0] == 'd':
            tr.feed(bytes.fromhex(ev[1]))
        elif ev[0] == 'a':
            await asyncio.sleep(ev[1] * UNIT)
            for _ in range(3):
                await asyncio.sleep(0)
        elif ev[0] == 'y':
            for _ in range(ev[1]):
                await asyncio.sleep(0)
    for _ in range(tail_polls):
        await asyncio.sleep(2 * UNIT)
        for _ in range(3):
            await asyncio.sleep(0)
    fin = {'stopped': bool(reader.is_stopped()), 'via': 'session', 'paused': not tr.is_reading() and not tr.closes,
           'pending_inbound': tr.pending_inbound(), 'session_closed': bool(sess.is_closed())}
    task = getattr(reader, '_task', None)
    if isinstance(task, asyncio.Task):
        fin['crashed'] = err_name(task.exception()) if (task.done() and not task.cancelled() and task.exception() is not None) else '-'
        fin['task_done'] = task.done()
    buf = getattr(reader, '_buffer', None)
    if isinstance(buf, (bytes, bytearray)):
        fin['buf'] = bytes(buf)
    reader.c03_log = None
    try:
        await asyncio.wait_for(sess.close(), 1.0)
    except Exception as e:  # noqa
        fin['close_raised'] = err_name(e)
    return log, fin


CASE_TIMEOUT = 10.0      # wall seconds for one case (a normal case takes about a millisecond)


class ReaderHang(KeyboardInterrupt):
    """raised inside a spinning reader; derives from KeyboardInterrupt so that neither the library's `except Exception`
    nor asyncio's task wrapper can swallow it"""


class ReaderHangError(Exception):
    pass


MAX_DESERIALIZE_CALLS = 100000       # per case; a case has at most a few hundred reader wake-ups


def _on_alarm(signum, frame):
    raise ReaderHang(f'the reader did not give control back within {CASE_TIMEOUT} s of wall time')


class Runner:
    def __init__(self):
        from vloop import VirtualLoop
        self.loop = VirtualLoop()
        self.n = 0
        self.hangs = 0

    def drive(self, side, script, stubs, tail_polls, via=None):
        self.n += 1
        if self.n % 4000 == 0:                      # fresh loop now and then (bookkeeping lists of the loop grow)
            self.close()
            from vloop import VirtualLoop
            self.loop = VirtualLoop()
        self.loop.tasks_created.clear()
        signal.signal(signal.SIGALRM, _on_alarm)
        signal.setitimer(signal.ITIMER_REAL, CASE_TIMEOUT)
        try:
            return self.loop.run((_drive_session if via == 'session' else _drive)(side, script, stubs, tail_polls))
        except ReaderHang as e:
            self.hangs += 1
            try:
                self.close()                            # the loop may be in any state: start over
            except BaseException:  # noqa
                pass
            from vloop import VirtualLoop
            self.loop = VirtualLoop()
            raise ReaderHangError(str(e)) from None
        finally:
            signal.setitimer(signal.ITIMER_REAL, 0)

    def close(self):
        try:
            self.loop.shutdown()
        except Exception:  # noqa
            pass


# ====================================================================== cases
def build_script(frames, cuts, polls, rng=None, handler=None):
    """segments of the stream at `cuts`; after segment i the reader polls `polls[i]` times.

    `handler` = [pattern, k] (with the stub `msg: ['gate', …]`): what happens at the boundary between segment i and segment i+1 is
    pattern[i % len(pattern)] —
      'p'  plain: handlers in flight are released, the reader polls `polls[i]` times, then the next segment arrives;
      'h'  the next segment arrives DURING the message callback: wait until a handler is in flight (+ k loop turns), deliver the
           segment while it is suspended, release it afterwards;
      'c'  the next segment follows at once (still during the same suspended callback when the boundary before it was 'h' / 'c')."""
    stream = b''.join(frames)
    pos = [0] + sorted(set(c for c in cuts if 0 < c < len(stream))) + [len(stream)]
    script = []
    nseg = len(pos) - 1
    pat, kt = (handler[0] or 'p', handler[1]) if handler else (None, 0)
    holding = False
    for i in range(nseg):
        script.append(['d', stream[pos[i]:pos[i + 1]].hex()])
        k = polls[i] if i < len(polls) else 1
        if pat is None:
            script += [['a', 2]] * k
            continue
        nxt = pat[i % len(pat)] if i + 1 < nseg else 'p'
        if nxt == 'c':
            continue
        if holding:
            script.append(['r'])
            holding = False
        if nxt == 'h':
            script.append(['wh', kt])
            holding = True
        else:
            script += [['a', 2]] * k
    return script


def delivered_bytes(script):
    return b''.join(bytes.fromhex(e[1]) for e in script if e[0] == 'd')


def stub_slack(stubs):
    s = 0
    for cfg in (stubs.get('msg', ['ret']), stubs.get('close', ['ret'])):
        if cfg[0] == 'timer':
            s = max(s, (cfg[1] + 1) // 2 + 1)
        elif cfg[0] == 'turns':
            s = max(s, 1)
    return s


def evaluate(ctx, runner, case, model_line_sink=None):
    """run one well-formed case on the implementation; returns dict with log, oracle failures, model request line"""
    side = SIDES[case['proto']]
    msgs = [side.undesc(d) for d in case['msgs']]
    frames = [side.frame(m) for m in msgs]
    stream = b''.join(frames)
    script = case['script']
    stubs = case.get('stubs', {})
    got = delivered_bytes(script)
    res = {'fail': [], 'log': None, 'fin': None, 'line': None}
    if not stream.startswith(got):
        raise ValueError('script does not deliver a prefix of the stream')
    # frames wholly delivered
    whole, off = [], 0
    for m, f in zip(msgs, frames):
        off += len(f)
        if off <= len(got):
            whole.append((m, f))
    expected, has_logout = [], False
    for m, f in whole:
        if side.is_logout(m):
            has_logout = True
            break
        if not side.is_hb(m):
            expected.append(side.expect(m, f))
    tail = (len(whole) + 3) * (1 + stub_slack(stubs))
    try:
        log, fin = runner.drive(side, script, stubs, tail, case.get('via'))
    except Exception as e:  # noqa: an exception escaping the library into the harness is an observation
        res['fail'].append(f'driving the reader raised {err_name(e)}: {e!r:.120}')
        return res
    res['log'], res['fin'] = log, fin
    out, closes, bad = [], 0, []
    for ev in log:
        if ev[0] == 'm':
            try:
                c = side.canon(ev[1])
            except Exception as e:  # noqa
                c = f'<uncanonical {type(ev[1]).__name__}: {err_name(e)}>'
            if closes:
                bad.append(f'message emitted after the close signal: {c[:80]}')
            out.append(c)
        elif ev[0] == 'c':
            closes += 1
    res['out'] = out
    if out != expected:
        i = next((i for i, (a, b) in enumerate(zip(out, expected)) if a != b), min(len(out), len(expected)))
        g, x = (out[i] if i < len(out) else 'nothing'), (expected[i] if i < len(expected) else 'nothing')
        j = next((j for j, (a, b) in enumerate(zip(g, x)) if a != b), min(len(g), len(x)))
        j = max(0, j - 30) if max(len(g), len(x)) > 90 else 0
        res['fail'].append(f'{side.name}: emitted {len(out)} message(s), expected {len(expected)}; first difference at #{i}: '
                           f'got {"…" * (j > 0)}{g[j:j + 90]} expected {"…" * (j > 0)}{x[j:j + 90]}')
    res['fail'] += bad
    if closes != (1 if has_logout else 0):
        res['fail'].append(f'{side.name}: close signalled {closes} time(s), logout delivered: {has_logout}')
    if fin['stopped'] != has_logout:
        res['fail'].append(f'{side.name}: is_stopped()={fin["stopped"]} but logout delivered: {has_logout}')
    if fin.get('crashed', '-') != '-':
        res['fail'].append(f'{side.name}: reader task died with {fin["crashed"]} on a well-formed stream')
    if fin.get('paused') and fin.get('pending_inbound'):
        res['fail'].append(f'{side.name}: the session paused reading on its transport and never resumed: {fin["pending_inbound"]} received bytes never reached the reader')
    if fin.get('close_raised'):
        res['fail'].append(f'{side.name}: close() of the session raised {fin["close_raised"]}')
    if case.get('via') == 'session':
        res['fail'] = [f + '  [stream delivered through a session and its transport]' for f in res['fail']]
    return res


MODEL_COST_LIMIT = 20_000_000


def model_cost(log):
    """sum over the reader's polls of the bytes buffered at that poll"""
    buf, cost = 0, 0
    for e in log:
        if e[0] == 'd':
            buf += len(e[1])
        elif e[0] == 't':
            cost += buf
    return cost


def model_line(side, log):
    evs = ' '.join(('(d ' + sx(e[1]) + ')') if e[0] == 'd' else 't' for e in log if e[0] in ('d', 't'))
    return f'frame.run {side.name} {evs}'.rstrip()


def predicted_log(side, log, answer):
    """interleave the model's per-event observations with the observed data/tick sequence -> (canonical log, final dict)"""
    if not answer.startswith('ok'):
        return None, answer
    items = parse_sx(answer[2:])
    fin = items[-1]
    obs = items[:-1]
    pred, decode_failed = [], None
    evs = [e for e in log if e[0] in ('d', 't')]
    if len(obs) != len(evs):
        return None, f'model answered {len(obs)} observations for {len(evs)} events'
    for e, o in zip(evs, obs):
        pred.append('d' if e[0] == 'd' else 't')
        if isinstance(o, list) and decode_failed is None:
            tag = o[0]
            if side.name == 'fix' and tag in ('m', 'k', 's'):
                # the FIX model keeps a frame as its byte slice; field-level decoding is the library's `Message.from_bytes`,
                # an exception from it is an exception from `deserialize()`: the reader stops and signals close
                from nasdaq_protocols import fix
                try:
                    _n, mobj = fix.Message.from_bytes(bytearray(bytes.fromhex(o[1][1:])))
                    canon = side.canon(mobj)
                except Exception as ex:  # noqa
                    decode_failed = err_name(ex)
                    pred.append('c')
                    continue
            elif tag in ('m', 'k', 's'):
                canon = sx(soup_normalise(o[1]))
            if tag == 'm':
                pred.append('m ' + canon)
            elif tag in ('s', 'c'):
                pred.append('c')
    final = {'stopped': fin[1] == 'true' or decode_failed is not None, 'closes': int(fin[2]),
             'failed': fin[3] if decode_failed is None else decode_failed,
             'buf': bytes.fromhex(fin[4][1:]) if decode_failed is None else None}
    return pred, final


def observed_log(side, log):
    out = []
    for e in log:
        if e[0] == 'm':
            try:
                out.append('m ' + side.canon(e[1]))
            except Exception as ex:  # noqa
                out.append(f'm <uncanonical {type(e[1]).__name__}: {err_name(ex)}>')
        else:
            out.append(e[0])
    return out


def correspond(ctx, side, res, answer, replay):
    """compare model prediction and implementation on one executed case"""
    if res['log'] is None or answer is None:
        return
    pred, final = predicted_log(side, res['log'], answer)
    if pred is None:
        ctx.disagree(f'frame.run {side.name}: {final}', replay)
        return
    obs = observed_log(side, res['log'])
    fin = res['fin']
    if pred != obs:
        i = next((i for i, (a, b) in enumerate(zip(pred, obs)) if a != b), min(len(pred), len(obs)))
        ctx.disagree(f'frame.run {side.name}: event #{i}: model {pred[i][:60] if i < len(pred) else "end"} vs '
                     f'implementation {obs[i][:60] if i < len(obs) else "end"}', replay)
    elif fin.get('crashed', '-') != '-':
        ctx.disagree(f'frame.run {side.name}: reader task died with {fin["crashed"]}; the model reader never dies', replay)
    elif fin['stopped'] != final['stopped']:
        ctx.disagree(f'frame.run {side.name}: is_stopped(): model {final["stopped"]} vs implementation {fin["stopped"]}', replay)
    elif 'buf' in fin and final['buf'] is not None and fin['buf'] != final['buf']:
        ctx.disagree(f'frame.run {side.name}: remaining buffer: model {final["buf"][:20].hex()} vs implementation {fin["buf"][:20].hex()}', replay)


# ====================================================================== shrinking
SHRINK_WALL = 6.0       # wall seconds spent on shrinking one failing case (cases with 64 KiB backlogs cost ~0.5 s per run)


def shrink(ctx, runner, hl, fails):
    """greedy: drop messages, drop cuts, fewer polls, plain stubs.  `hl` = {proto, msgs(desc), cuts, polls, stubs}"""
    budget = [150 if len(hl["msgs"]) <= 40 else 400]

    t_end = time.time() + SHRINK_WALL

    def still(c):
        if budget[0] <= 0 or time.time() > t_end:
            return False
        budget[0] -= 1
        try:
            return fails(c)
        except Exception:  # noqa
            return False

    side = SIDES[hl['proto']]
    cur = dict(hl)

    len_cache = {}

    def lens_of(c):
        k = id(c['msgs'])
        if k not in len_cache:
            len_cache.clear()
            len_cache[k] = (c['msgs'], [len(side.frame(side.undesc(d))) for d in c['msgs']])     # (keeps the list alive: id stays unique)
        return len_cache[k][1]

    def without(c, i, j):
        """`c` with messages i..j-1 removed, cut positions moved accordingly"""
        lens = lens_of(c)
        start = sum(lens[:i])
        ln = sum(lens[i:j])
        cuts = sorted({(x if x <= start else max(start, x - ln)) for x in c['cuts']})
        return dict(c, msgs=c['msgs'][:i] + c['msgs'][j:], cuts=cuts)

    def spent():
        return budget[0] <= 40 or time.time() > t_end

    # long streams (bursts): first remove blocks of messages, halving the block size (then the one-at-a-time loop below)
    blk = len(cur['msgs']) // 2
    while blk >= 2 and not spent():
        i, progressed = 0, False
        while i < len(cur['msgs']) and not spent():
            c2 = without(cur, i, min(len(cur['msgs']), i + blk))
            if c2['msgs'] and still(c2):
                cur, progressed = c2, True
            else:
                i += blk
        if not progressed or blk > len(cur['msgs']):
            blk //= 2
    if len(cur['cuts']) > 4 and not spent():
        c2 = dict(cur, cuts=[], polls=[1])
        if still(c2):
            cur = c2
    changed = True
    while changed and budget[0] > 0 and time.time() <= t_end:
        changed = False
        # drop a message
        for i in range(len(cur['msgs'])):
            if time.time() > t_end:
                break
            c2 = without(cur, i, i + 1)
            if c2['msgs'] and still(c2):
                cur, changed = c2, True
                break
        if changed:
            continue
        for i in range(len(cur['cuts'])):
            c2 = dict(cur, cuts=cur['cuts'][:i] + cur['cuts'][i + 1:])
            if still(c2):
                cur, changed = c2, True
                break
        if changed:
            continue
        if cur.get('stubs'):
            c2 = dict(cur, stubs={}, handler=None)
            if still(c2):
                cur, changed = c2, True
                continue
        if any(p != 1 for p in cur['polls']):
            c2 = dict(cur, polls=[1] * len(cur['polls']))
            if still(c2):
                cur, changed = c2, True
    return cur


def hl_to_case(hl):
    side = SIDES[hl['proto']]
    frames = [side.frame(side.undesc(d)) for d in hl['msgs']]
    n = sum(len(f) for f in frames)
    cuts = sorted(set(c for c in hl['cuts'] if 0 < c < n))
    polls = list(hl['polls']) + [1] * (len(cuts) + 1)
    upto = hl.get('upto')
    script = build_script(frames, cuts, polls[:len(cuts) + 1], handler=hl.get('handler'))
    if upto is not None:
        script = truncate_script(script, upto)
    case = {'kind': 'stream', 'proto': hl['proto'], 'msgs': hl['msgs'], 'frames': [f.hex() for f in frames],
            'script': script, 'stubs': hl.get('stubs', {}), 'cuts': cuts}
    if hl.get('via'):
        case['via'] = hl['via']
    if hl.get('handler'):
        case['handler'] = hl['handler']
    return case


def truncate_script(script, upto):
    out, n = [], 0
    for e in script:
        if e[0] == 'd':
            b = bytes.fromhex(e[1])
            if n + len(b) > upto:
                b = b[:max(0, upto - n)]
                if b:
                    out.append(['d', b.hex()])
                n = upto
                break
            n += len(b)
        out.append(e)
    return out


# ====================================================================== generators of segmentations
def classify(side, frames, cuts, ctx):
    """histogram keys describing what this segmentation exercises"""
    bounds, off = [], 0
    for f in frames:
        bounds.append((off, off + len(f), f))
        off += len(f)
    keys = set()
    pos = [0] + list(cuts) + [off]
    for a, b in zip(pos, pos[1:]):
        inside = sum(1 for s, e, _ in bounds if a <= s and e <= b)
        if inside >= 2:
            keys.add('segment-with-several-messages')
        if b - a == 1:
            keys.add('one-byte-segment')
    for c in cuts:
        for s, e, f in bounds:
            if s < c < e:
                if side.name == 'soup':
                    if c - s == 1:
                        keys.add('cut-inside-length-prefix')
                    elif c - s == 2:
                        keys.add('cut-after-length-prefix')
                else:
                    i9 = f.index(b'9=')
                    e9 = f.index(SOHB, i9)
                    i35 = f.index(b'35=', e9)
                    if i9 + 2 <= c - s <= e9:
                        keys.add('cut-inside-BodyLength')
                    if c - s == e9:
                        keys.add('cut-between-9=n-and-SOH')
                    if i35 < c - s < i35 + 3:
                        keys.add('cut-inside-35=')
                    if c - s > len(f) - 7:
                        keys.add('cut-inside-trailer')
            elif c == e:
                keys.add('cut-at-message-boundary')
    for k in keys:
        ctx.count(f'{side.name}:{k}')


def gen_cases(ctx, side, quick):
    """yield (label, hl) for the well-formed part"""
    rng = ctx.rng
    n_short = (40 if side.name == 'soup' else 12) if quick else (200 if side.name == 'soup' else 50)
    cap2 = (10**9 if side.name == 'soup' else 350) if quick else (10**9 if side.name == 'soup' else 4000)
    cap3 = 0 if quick else (2500 if side.name == 'soup' else 1500)
    for si in range(n_short):
        n = rng.randint(2, 4) if side.name == 'soup' else rng.randint(2, 3)
        msgs = side.gen_msgs(rng, n, True, force_logout=rng.randrange(n) if rng.random() < 0.45 else None)
        descs = [side.desc(m) for m in msgs]
        frames = [side.frame(m) for m in msgs]
        L = sum(len(f) for f in frames)
        zones = sorted(z for z in side.zones(frames) if 0 < z < L)
        yield 'whole', {'proto': side.name, 'msgs': descs, 'cuts': [], 'polls': [1]}
        yield 'bytewise', {'proto': side.name, 'msgs': descs, 'cuts': list(range(1, L)),
                           'polls': [rng.choice([0, 1, 1, 2]) for _ in range(L)]}
        for c in range(1, L):
            yield '1cut', {'proto': side.name, 'msgs': descs, 'cuts': [c], 'polls': [rng.choice([0, 1, 1, 2, 3]) for _ in range(2)]}
        pairs = list(itertools.combinations(range(1, L), 2))
        if len(pairs) > cap2:
            zp = list(itertools.combinations(zones, 2))
            rng.shuffle(zp)
            pairs = zp[:cap2 * 2 // 3] + rng.sample(pairs, cap2 // 3)
        for a, b in pairs:
            yield '2cut', {'proto': side.name, 'msgs': descs, 'cuts': [a, b], 'polls': [rng.choice([0, 1, 1, 2]) for _ in range(3)]}
        if cap3:
            triples = list(itertools.combinations(range(1, L), 3)) if L <= 26 else None
            if triples is None or len(triples) > cap3:
                zt = list(itertools.combinations(zones[:40], 3))
                rng.shuffle(zt)
                triples = zt[:cap3 * 2 // 3] + [tuple(sorted(rng.sample(range(1, L), 3))) for _ in range(cap3 // 3)]
            for t in triples:
                yield '3cut', {'proto': side.name, 'msgs': descs, 'cuts': list(t), 'polls': [rng.choice([0, 1, 1, 2]) for _ in range(4)]}
    n_long = (250 if quick else 2500)
    for li in range(n_long):
        n = rng.choice([5, 8, 12, 20, 40]) if side.name == 'soup' else rng.choice([4, 6, 10, 16])
        msgs = side.gen_msgs(rng, n, False, force_logout=(rng.randrange(n) if rng.random() < 0.4 else None))
        descs = [side.desc(m) for m in msgs]
        frames = [side.frame(m) for m in msgs]
        L = sum(len(f) for f in frames)
        mode = rng.choice(['few', 'few', 'many', 'zones', 'bursty'])
        if mode == 'few':
            cuts = sorted(rng.sample(range(1, L), min(L - 1, rng.randint(1, 4))))
        elif mode == 'many':
            cuts = sorted(rng.sample(range(1, L), min(L - 1, rng.randint(5, 40))))
        elif mode == 'zones':
            z = [c for c in side.zones(frames) if 0 < c < L]
            cuts = sorted(rng.sample(z, min(len(z), rng.randint(2, 12))))
        else:   # runs of single bytes mixed with large chunks
            cuts, p = [], 0
            while p < L:
                p += rng.choice([1, 1, 1, 2, 3, 50, 200, 1000])
                if p < L:
                    cuts.append(p)
        polls = [rng.choice([0, 0, 1, 1, 1, 2, 4]) for _ in range(len(cuts) + 1)]
        hl = {'proto': side.name, 'msgs': descs, 'cuts': cuts, 'polls': polls}
        r = rng.random()
        if r < 0.15:
            hl['stubs'] = {'msg': ['turns', rng.randint(1, 3)]}
        elif r < 0.3:
            hl['stubs'] = {'msg': ['timer', rng.choice([1, 2, 3, 5])], 'close': ['timer', rng.choice([0, 1, 3])]}
        elif r < 0.35:
            hl['stubs'] = {'close': ['turns', 2]}
        if rng.random() < 0.15:
            hl['upto'] = rng.randrange(1, L)         # only a prefix of the stream arrives
        if 'stubs' not in hl and rng.random() < 0.25:
            hl['via'] = 'session'
        yield 'long:' + mode + (':prefix' if 'upto' in hl else '') + (':slow-callbacks' if 'stubs' in hl else '') + (':via-session' if hl.get('via') else ''), hl
    # ---- bursts: (many) more complete frames in the reader's buffer at a single poll than any per-poll budget a reader could have;
    # tiny frames keep this cheap.  The segmentation/timing dimension here is "how many frames had accumulated when the reader looked":
    # everything in one segment, many segments back to back with no poll in between, a burst in front of / behind a paced part,
    # bursts separated by single polls.  Logouts are forced at positions in and beyond the 60s, 120s, ... (the frames a budgeted
    # reader meets at the edge of its budget), heartbeat density from none to nearly all.
    n_burst = (14 if quick else 300)
    for bi in range(n_burst):
        n = rng.choice(BURST_SIZES if side.name == 'soup' else BURST_SIZES[:-2])
        p_hb = rng.choice([0.0, 0.1, 0.25, 0.6, 0.9])
        if side.name == 'soup':
            msgs = [gen_soup_packet(rng, True, p_end=0.0, p_hb=p_hb) for _ in range(n)]
        else:
            msgs = [gen_fix_msg(rng, True, p_end=0.0, p_hb=p_hb) for _ in range(n)]
        r = rng.random()
        if r < 0.5:        # a logout somewhere at or beyond frame 60 (data frames follow it: they must not be emitted)
            at = min(n - 1, rng.choice([rng.randrange(60, 70), rng.randrange(60, n), rng.randrange(n - 3, n)]))
            if side.name == 'soup':
                msgs[at] = rng.choice(SOUP_LOGOUT)
            else:
                msgs[at]['type'] = '5'
        descs = [side.desc(m) for m in msgs]
        frames = [side.frame(m) for m in msgs]
        ends = list(itertools.accumulate(len(f) for f in frames))
        L = ends[-1]
        mode = rng.choice(['one-segment', 'back-to-back', 'back-to-back-bytes', 'burst-then-paced', 'paced-then-burst', 'bursts'])
        if mode == 'one-segment':
            cuts, polls = [], [1]
        elif mode == 'back-to-back':        # many segments, no poll between them
            cuts = sorted(rng.sample(range(1, L), min(L - 1, rng.randint(2, 30))))
            polls = [0] * len(cuts) + [1]
        elif mode == 'back-to-back-bytes':  # frame-sized and smaller segments arriving faster than the reader polls
            cuts = sorted(set(ends[:-1]) | set(rng.sample(range(1, L), min(L - 1, rng.randint(0, 20)))))
            polls = [0] * len(cuts) + [1]
        elif mode == 'burst-then-paced':
            k = rng.randint(n * 2 // 3, n - 1)
            cuts = [ends[k - 1]] + sorted(c for c in rng.sample(range(ends[k - 1] + 1, L), min(L - ends[k - 1] - 1, rng.randint(0, 6))))
            polls = [rng.choice([0, 1, 2])] + [rng.choice([0, 1, 1, 2]) for _ in range(len(cuts))]
        elif mode == 'paced-then-burst':
            k = rng.randint(1, n // 3)
            head = sorted(rng.sample(range(1, ends[k - 1]), min(ends[k - 1] - 1, rng.randint(0, 6)))) if ends[k - 1] > 1 else []
            cuts = head + [ends[k - 1]]
            polls = [rng.choice([0, 1, 1, 2]) for _ in range(len(cuts))] + [1]
        else:              # several bursts with one or two polls between them
            ks = sorted(rng.sample(range(1, n), min(n - 1, rng.randint(1, 3))))
            cuts = [ends[k - 1] + rng.choice([0, 0, 1, -1]) for k in ks]
            cuts = sorted(c for c in set(cuts) if 0 < c < L)
            polls = [rng.choice([1, 1, 2, 3]) for _ in range(len(cuts) + 1)]
        hl = {'proto': side.name, 'msgs': descs, 'cuts': cuts, 'polls': polls}
        if rng.random() < 0.15:
            hl['stubs'] = {'msg': ['turns', rng.randint(1, 2)]}
        yield 'burst:' + mode, hl


BURST_SIZES = [66, 70, 100, 129, 130, 200, 260, 300, 520]


def gen_embedded_cases(ctx, side, quick):
    """a segment is not a packet: data packets whose payload CONTAINS the complete encoding of another packet (heartbeat, logout /
    end of session, data, debug, login reject, a zero-length frame, a length prefix alone), cut exactly at the boundaries of the
    embedded bytes so that they arrive as a segment of their own — alone, with one more cut elsewhere, as the first / last segment
    so far — under the usual poll schedules.  (FIX values cannot contain SOH, hence no complete frame; there the embedded bytes
    are complete fields and field sequences: `35=0|`, `9=12|`, `10=000|`, `8=FIX.4.4|9=5|35=0|`.)"""
    rng = ctx.rng
    if side.name == 'soup':
        inner = [soup_layout(t) for t in ('serverHb', 'clientHb', 'endOfSession', 'logoutReq', ['seqData', b'x'], ['unseqData', b''],
                                         ['debug', [72]], ['loginRej', 65])] + [b'\x00\x00', b'\x00\x01', b'\x00\x03S', b'\x00\x01H\x00\x01Z']
    else:
        inner = [b'35=0', b'35=5', b'9=12', b'10=000', b'8=FIX.4.4', b'35=', b'=', b'0', b'5']
    for rnd in range(1 if quick else 10):
        for emb in inner:
            for where in ('alone', 'alone', 'plus-one-cut', 'first-so-far', 'last-so-far'):
                pre_n, post_n = rng.randint(0, 2), rng.randint(1, 3)
                pre = side.gen_msgs(rng, pre_n, True)
                post = side.gen_msgs(rng, post_n, True, force_logout=(rng.randrange(post_n) if rng.random() < 0.4 else None))
                a, b = rng.choice([b'', b'', b'q', b'\x00', b'ab']), rng.choice([b'', b'', b'q', b'\x00\x01', b'zz'])
                if side.name == 'soup':
                    host = [rng.choice(['seqData', 'unseqData']), a + emb + b]
                    off = 3 + len(a)
                else:
                    a, b = a.replace(b'\x00', b'n'), b.replace(b'\x00', b'n').replace(b'\x01', b'm')
                    host = {'ver': 'FIX.4.4', 'type': rng.choice(['D', '8']), 'hdr': [], 'body': [[58, (a + emb + b).decode()]]}
                msgs = pre + [host] + post
                descs = [side.desc(m) for m in msgs]
                frames = [side.frame(m) for m in msgs]
                h0 = sum(len(f) for f in frames[:len(pre)])
                if side.name != 'soup':
                    off = frames[len(pre)].index(b'58=') + 3 + len(a)
                L = sum(len(f) for f in frames)
                e0, e1 = h0 + off, h0 + off + len(emb)
                if where == 'alone':
                    cuts = [e0, e1]
                elif where == 'plus-one-cut':
                    cuts = [e0, e1, rng.randrange(1, L)]
                elif where == 'first-so-far':        # also cut at the start of the host packet: its header, then the embedded bytes alone
                    cuts = [e0, e1] + ([h0] if h0 else [])
                else:
                    cuts = [e0, e1]
                cuts = sorted({c for c in cuts if 0 < c < L})
                polls = [rng.choice([0, 1, 1, 2]) for _ in range(len(cuts) + 1)]
                hl = {'proto': side.name, 'msgs': descs, 'cuts': cuts, 'polls': polls}
                if where == 'last-so-far':
                    hl['upto'] = e1                      # nothing arrives after the embedded bytes
                if rng.random() < 0.2:
                    hl['via'] = 'session'
                yield 'embedded:' + where + (':via-session' if hl.get('via') else ''), hl


def sized_msg(rng, side, size, ver='FIX.4.4'):
    """a data message whose variable part has `size` bytes (equal sizes give frames of equal length)"""
    if side.name == 'soup':
        k = rng.choice(['seqData', 'seqData', 'unseqData', 'debug'])
        if k == 'debug':
            return [k, [rng.choice([65, 97, 48, 72, 90]) for _ in range(size)]]
        return [k, bytes(rng.choice([0, 1, 2, 0x48, 0x5a, 65, 0xff]) for _ in range(size))]
    return {'ver': ver, 'type': rng.choice(['D', '8', 'A']), 'hdr': [], 'body': [[58, ''.join(rng.choice('abz059') for _ in range(size))]]}


HANDLER_PATTERNS = ['h', 'h', 'h', 'hp', 'ph', 'hc', 'hhp', 'hcp', 'hch', 'pph']


def gen_handler_cases(ctx, side, quick):
    """"with any timing" includes segments that arrive WHILE the reader is inside a running `on_msg_coro`: the message callback
    really suspends (gated: it returns when the script lets it) and the following segment(s) are delivered during that suspension,
    0..3 loop turns after the callback was entered — then the callback returns and NOTHING more may arrive (a reader that misjudges
    what it has buffered at that moment loses the message for good; with later data it would merely lag).  Frame sizes: all equal,
    equal in pairs, all different, random; one frame per segment, frame-sized segments shifted against the frame boundaries, two
    frames per segment, half frames, random cuts; per boundary: during the callback / after it returned and the reader polled /
    back to back; only a prefix of the stream; a logout or heartbeats among the frames."""
    rng = ctx.rng
    for ci in range((140 if side.name == 'soup' else 60) if quick else (2500 if side.name == 'soup' else 900)):
        n = rng.choice([2, 2, 3, 3, 4, 5, 6, 9])
        base = rng.choice([0, 1, 2, 5, 8, 13, 40])
        mode = rng.choice(['equal', 'equal', 'pairs', 'different', 'random'])
        if mode == 'equal':
            sizes = [base] * n
        elif mode == 'pairs':
            sizes = [base + (i // 2) * rng.choice([1, 3]) for i in range(n)]
        elif mode == 'different':
            sizes = [base + i for i in range(n)]
            rng.shuffle(sizes)
        else:
            sizes = [rng.choice([base, base, base + 1, base + 3, 0]) for _ in range(n)]
        ver = rng.choice(FIX_VERSIONS)
        msgs = [sized_msg(rng, side, z, ver) for z in sizes]
        r = rng.random()
        if r < 0.15:          # a logout among / behind them (frames after it must not be emitted)
            at = rng.randrange(1, n + 1)
            msgs.insert(at, rng.choice(SOUP_LOGOUT) if side.name == 'soup' else {'ver': ver, 'type': '5', 'hdr': [], 'body': []})
        elif r < 0.3:         # heartbeats between them (consumed without a callback: nothing is in flight when the next segment arrives)
            at = rng.randrange(0, n + 1)
            msgs.insert(at, rng.choice(SOUP_HB) if side.name == 'soup' else {'ver': ver, 'type': '0', 'hdr': [], 'body': []})
        descs = [side.desc(m) for m in msgs]
        frames = [side.frame(m) for m in msgs]
        ends = list(itertools.accumulate(len(f) for f in frames))
        L = ends[-1]
        seg = rng.choice(['per-frame', 'per-frame', 'per-frame', 'shifted', 'two-per-segment', 'halves', 'random'])
        if seg == 'per-frame':
            cuts = ends[:-1]
        elif seg == 'shifted':
            d = rng.choice([-2, -1, 1, 2])
            cuts = [e + d for e in ends[:-1]]
        elif seg == 'two-per-segment':
            cuts = ends[1:-1:2]
        elif seg == 'halves':
            cuts = sorted(set(ends[:-1]) | {e - len(f) // 2 for e, f in zip(ends, frames)})
        else:
            cuts = rng.sample(range(1, L), min(L - 1, rng.randint(1, 5)))
        cuts = sorted({c for c in cuts if 0 < c < L})
        hl = {'proto': side.name, 'msgs': descs, 'cuts': cuts, 'polls': [rng.choice([1, 1, 2]) for _ in range(len(cuts) + 1)],
              'stubs': {'msg': ['gate', rng.choice([0, 0, 1, 2])]}, 'handler': [rng.choice(HANDLER_PATTERNS), rng.choice([0, 0, 1, 2, 3])]}
        if rng.random() < 0.2 and cuts:
            hl['upto'] = rng.choice(cuts[1:] + [L]) if len(cuts) > 1 else L     # nothing arrives after one of the segments
        yield 'handler:' + mode + ':' + seg, hl


# payload sizes around the sign bit of the 2-byte length prefix (length field = payload + 1) and at its maximum
BIG_PAYLOADS = [32765, 32766, 32767, 32768, 40000, 65533, 65534]


def gen_big_cases(ctx, side, quick):
    """well-formed streams with maximum-size frames (soup: length field 0x7FFE..0xFFFF; FIX: BodyLength beyond 64 KiB) between small
    ones, and heartbeat-only bursts of more than 64 KiB followed by data; cut inside / right after the length field, in the middle,
    before the last byte, at random; delivered to a bare reader and through a session with a flow-controlled transport"""
    rng = ctx.rng
    sizes = rng.sample(BIG_PAYLOADS, 3) + [rng.choice([32767, 32768, 65534])] if quick else BIG_PAYLOADS * 3
    for n in sizes:
        pre = side.gen_msgs(rng, rng.randint(0, 2), True)
        post = side.gen_msgs(rng, rng.randint(1, 3), True, force_logout=(0 if rng.random() < 0.2 else None))
        if side.name == 'soup':
            k = rng.choice(['seqData', 'seqData', 'unseqData', 'debug'])
            if k == 'debug':
                big = [k, [rng.choice([65, 97, 48])] * n]
            else:
                big = [k, rng.randbytes(16) + bytes([rng.choice([0, 32, 65, 255])]) * (n - 32) + rng.randbytes(16)]
        else:
            big = {'ver': 'FIX.4.4', 'type': rng.choice(['D', '8']), 'hdr': [[34, '7']], 'body': [[58, rng.choice('zQ7') * (n + rng.choice([0, 4000]))]]}
        msgs = pre + [big] + post
        descs = [side.desc(m) for m in msgs]
        frames = [side.frame(m) for m in msgs]
        ends = list(itertools.accumulate(len(f) for f in frames))
        L, b0, b1 = ends[-1], ends[len(pre)] - len(frames[len(pre)]), ends[len(pre)]
        hdr = 2 if side.name == 'soup' else frames[len(pre)].index(SOHB, frames[len(pre)].index(b'9=')) + 1
        styles = ['whole', 'before-last-byte', 'after-length', 'inside-length', 'middle', 'at-65536', 'random', 'frame-alone']
        for style in (rng.sample(styles, 3) if quick else styles):
            cuts = {'whole': [], 'before-last-byte': [b1 - 1], 'after-length': [b0 + hdr], 'inside-length': [b0 + hdr - 1, b1 - 1],
                    'middle': [b0 + (b1 - b0) // 2], 'at-65536': [min(L - 1, b0 + 65536), min(L - 1, b0 + 65535)],
                    'random': sorted(rng.sample(range(1, L), 3)), 'frame-alone': [b0, b1]}[style]
            cuts = sorted({c for c in cuts if 0 < c < L})
            polls = [rng.choice([0, 1, 1, 2]) for _ in range(len(cuts))] + [1]
            for via in ((None, 'session') if rng.random() < 0.7 else ('session',)):
                hl = {'proto': side.name, 'msgs': descs, 'cuts': cuts, 'polls': polls}
                if via:
                    hl['via'] = via
                yield 'big:' + style + (':via-session' if via else ''), hl
    # heartbeat-only bursts beyond 64 KiB, then data (one poll per heartbeat: a couple per run)
    for _ in range(1 if quick else 6):
        total = rng.choice([65536 + 30, 70000, 131072 + 30])
        hb = 'serverHb' if side.name == 'soup' else {'ver': 'FIX.4.4', 'type': '0', 'hdr': [], 'body': []}
        nhb = -(-total // len(side.frame(hb)))
        post = side.gen_msgs(rng, rng.randint(1, 3), True)
        msgs = [hb] * nhb + post
        descs = [side.desc(m) for m in msgs]
        L0 = nhb * len(side.frame(hb))
        cuts, polls = rng.choice([([L0], [0, 1]), ([L0], [3, 1]), ([], [1]), ([L0 // 2, L0], [0, 2, 1])])
        yield 'hb-burst-64k:via-session', {'proto': side.name, 'msgs': descs, 'cuts': cuts, 'polls': polls, 'via': 'session'}


MIB = 1 << 20
MEGA_TOTALS_QUICK = [MIB + MIB // 5, MIB + MIB // 2, 2 * MIB]             # 1.2 .. 2 MiB
MEGA_TOTALS = MEGA_TOTALS_QUICK + [2 * MIB + MIB // 2, 4 * MIB + MIB // 4, 8 * MIB + MIB // 2]


def gen_mega_cases(ctx, side, quick):
    """"any segmentation, any timing" includes a BACKLOG of megabytes: well-formed streams of 1.2 - 2 MiB (thorough: up to 8.5 MiB) —
    soup: maximum-size / mixed-size data packets (20+ frames of 64 KiB); FIX: frames with a text field of tens of kilobytes or a
    few frames of several hundred — that reach the reader faster than it polls: everything in ONE segment, 64 KiB segments back to
    back with no poll in between, a megabyte first and the rest paced; in front of them a few small messages (the buffer is not
    empty when the backlog starts), behind them small ones and (every other case) a logout — beyond every threshold at which a
    reader might compact, recycle or bound its buffer.  The same stream delivered one frame per segment with a poll in between is
    the control (thorough tier).  Messages are told apart by fill character and size; descriptions are compact (`fill`), so a
    replay of such a case is a few hundred bytes."""
    rng = ctx.rng
    # quick: one stream of 1.2 - 2 MiB per protocol, and one beyond 4 MiB for one of the two protocols (which one: drawn per run)
    big_side = ctx.cov.setdefault('mega_beyond_4MiB_for', rng.choice(['soup', 'fix']))
    totals = ([rng.choice(MEGA_TOTALS_QUICK)] + ([MEGA_TOTALS[4]] if big_side == side.name else [])) if quick else MEGA_TOTALS * 2
    for total in totals:
        shape = rng.choice(['max', 'max', 'mixed'] if quick else ['max', 'mixed', 'mixed', 'few-huge'])
        descs, size_sum, i = [], 0, 0
        pre = side.gen_msgs(rng, rng.randint(0, 2), True)
        while size_sum < total:
            if side.name == 'soup':
                n = 65534 - (i % 7) if shape == 'max' else rng.choice([65534, 65533, 40000, 32768, 32767, 20000, 9000])
                fillb = 48 + (i * 7) % 75
                k = rng.choice(['seqData', 'seqData', 'unseqData'])
                descs.append(f'({k} (fill {fillb} {n}))')
                size_sum += n + 3
            else:
                n = (60000 - (i % 7) if shape == 'max' else rng.choice([60000, 65000, 70000, 33000, 12000]) if shape == 'mixed'
                     else rng.choice([400000, 700000]))
                descs.append({'ver': 'FIX.4.4', 'type': rng.choice(['D', '8']), 'hdr': [[34, str(i + 1)]],
                              'body': [[58, {'fill': 'abcdefghjkmnpqrstuvwxyz'[i % 23], 'n': n}]]})
                size_sum += n + 40
            i += 1
        n_big = len(descs)
        post = side.gen_msgs(rng, rng.randint(1, 3), True)
        with_logout = rng.random() < 0.5
        if with_logout:
            post = post[:1] + [rng.choice(SOUP_LOGOUT) if side.name == 'soup' else {'ver': 'FIX.4.4', 'type': '5', 'hdr': [], 'body': []}] + post[1:]
        descs = [side.desc(m) for m in pre] + descs + [side.desc(m) for m in post]
        frames = [side.frame(side.undesc(d)) for d in descs]
        ends = list(itertools.accumulate(len(f) for f in frames))
        L, b0 = ends[-1], (ends[len(pre) - 1] if pre else 0)
        modes = ['one-segment', '64k-back-to-back', 'megabyte-then-paced']
        # (quick: one delivery per stream; the stream beyond 4 MiB always as a backlog of its full size)
        for mode in ([rng.choice(modes[:2] * 2 + (modes[2:] if total < 4 * MIB else []))] if quick else modes + ['paced']):
            if mode == 'one-segment':
                cuts, polls = [], [1]
            elif mode == '64k-back-to-back':
                cuts = list(range(b0 + 65536, L, 65536))
                polls = [0] * len(cuts) + [1]
            elif mode == 'megabyte-then-paced':
                k = next(j for j, e in enumerate(ends) if e - b0 > MIB + MIB // 10 or j == len(ends) - 1)
                cuts = [e for e in ends[k:-1]]
                polls = [rng.choice([0, 1])] + [rng.choice([1, 1, 2]) for _ in cuts]
            else:       # control: one frame per segment, the reader polls in between (the buffer drains every time)
                cuts = ends[:-1]
                polls = [1] * len(ends)
            hl = {'proto': side.name, 'msgs': descs, 'cuts': cuts, 'polls': polls}
            yield f'mega:{mode}:{shape}' + (':logout-behind' if with_logout else ''), hl
        ctx.count(f'{side.name}:mega:frames', n_big)
        ctx.count(f'{side.name}:mega:KiB', L // 1024)


def compact_replay(hl, what):
    """replay dict of a megabyte case: the high-level form (compact message descriptions, cuts, polls); the script is rebuilt"""
    return {'kind': 'stream-hl', 'proto': hl['proto'], 'hl': {k: v for k, v in hl.items() if v is not None}, 'what': what}


def jitter(case, rng):
    """replace some whole poll periods by half periods / plain loop turns (timing only; the event log records what happened)"""
    out = []
    for e in case['script']:
        if e[0] == 'a' and rng.random() < 0.3:
            out += rng.choice([[['a', 1], ['a', 1]], [['y', 2], ['a', 2]], [['a', 3]], [['a', 1]], [['a', 2], ['y', 1]]])
        else:
            out.append(e)
    return dict(case, script=out)


# ====================================================================== malformed streams (agreement only)
def gen_malformed(ctx, side, n):
    rng = ctx.rng
    for _ in range(n):
        msgs = side.gen_msgs(rng, rng.randint(1, 4), True)
        frames = [bytearray(side.frame(m)) for m in msgs]
        i = rng.randrange(len(frames))
        f = frames[i]
        how = rng.randrange(7)
        if side.name == 'soup':
            if how == 0:
                f[2] = rng.choice(b'XQ \x00z')                   # unknown packet type
            elif how == 1:
                f[0:2] = b'\x00\x00'                             # zero length: no type byte
            elif how == 2:
                n2 = int.from_bytes(f[:2], 'big') + rng.choice([-1, 1, 2])
                f[0:2] = max(0, n2).to_bytes(2, 'big')           # wrong length prefix
            elif how == 3:
                f[2:3] = rng.choice([b'L', b'A', b'J'])          # fixed-size packet type with the wrong size
            elif how == 4:
                f[:] = rng.randbytes(rng.randint(1, 12))
            elif how == 5:
                f[0:2] = b'\xff\xff'                             # waits for 65537 bytes
            else:
                f[0:2] = rng.choice([b'\x00\x01', b'\x00\x02']); f[3:] = b''   # noqa: E702
        else:
            i9 = f.index(b'9=')
            e9 = f.index(SOHB, i9)
            if how == 0:
                f[i9 + 2:e9] = rng.choice([b'x', b'', b'1x', b'--1', b'1 2'])          # int() raises
            elif how == 1:
                f[i9 + 2:e9] = str(int(f[i9 + 2:e9]) + rng.choice([-3, -1, 1, 2, 30])).encode()   # wrong BodyLength
            elif how == 2:
                f[i9 + 2:e9] = rng.choice([b' 5', b'+5', b'05', b'5 ', b'0_5', b'-5', b'-40', b'0'])  # what int() accepts
            elif how == 3:
                p = f.index(b'35=')
                f[p:p + 3] = rng.choice([b'36=', b'35:', b'3=5'])                     # no MsgType where expected
            elif how == 4:
                f[0:2] = rng.choice([b'', b'8', b'=', b'x=y='])                       # first '=' not at index 1
            elif how == 5:
                p = f.index(b'35=') + 3
                e = f.index(SOHB, p)
                f[p:e] = rng.choice([b'Q', b'', b'\xff', b'00'])                       # unknown / undecodable MsgType
            else:
                f[:] = rng.choice([b'35=', b'x35=\x01', b'8=FIX\x019=\x0135=0\x01', b'=\x0135=', b'\x0135==\x01\x01'])
        stream = b''.join(bytes(x) for x in frames)
        if not stream:
            continue
        L = len(stream)
        cuts = sorted(rng.sample(range(1, L), min(L - 1, rng.randint(0, 3)))) if L > 1 else []
        pos = [0] + cuts + [L]
        script = []
        for a, b in zip(pos, pos[1:]):
            script.append(['d', stream[a:b].hex()])
            script += [['a', 2]] * rng.choice([0, 1, 2])
        yield {'kind': 'malformed', 'proto': side.name, 'script': script, 'how': how, 'n_frames': len(frames)}


def gen_malformed_classes(ctx, side, quick):
    """the systematic malformed-frame classes of hostile_gen (every class x packet type; signed / zero / non-canonical / non-numeric
    BodyLength with totals around 0, 1, < header; maximum-size frames) between valid frames, cut at the class's own zones —
    model/implementation agreement on the reader's framing decisions, event by event"""
    import hostile_gen as HG
    rng = ctx.rng
    for rnd in range(1 if quick else 8):
        if side.name == 'soup':
            classes = HG.soup_malformed(rng, to_client=rng.random() < 0.5) + [HG.soup_garbage(rng) for _ in range(4)]
        else:
            good = [(35, rng.choice(['D', '8', 'AE'])), (49, 'ME'), (34, 5), (58, rng.choice(FIX_TEXTS))]
            classes = HG.fix_malformed(rng, good, rng.choice(FIX_VERSIONS).encode(), follow_len=rng.choice([0, 40, 120])) + \
                [HG.fix_garbage(rng) for _ in range(4)]
        classes = [b for b in classes if 'MODEL_BOUNDARY' not in b['cls']]
        big = [b for b in classes if b['len'] >= 5000]
        classes = [b for b in classes if b['len'] < 5000] + (rng.sample(big, min(len(big), 3)) if quick else big)
        for bad in classes:
            pre = [side.frame(m) for m in side.gen_msgs(rng, rng.choice([0, 0, 1, 2]), True)]
            post = [side.frame(m) for m in side.gen_msgs(rng, rng.choice([0, 1, 2, 3]), True)]
            bb = HG.expand(bad['parts'])
            stream = b''.join(pre) + bb + b''.join(post)
            b0 = sum(len(f) for f in pre)
            L = len(stream)
            style = rng.choice(['whole', 'zones', 'zones', 'random', 'frame', 'bytes' if L <= 150 else 'random'])
            if style == 'whole' or L < 2:
                cuts = []
            elif style == 'zones' and bad['zones']:
                cuts = [b0 + z for z in rng.sample(bad['zones'], min(len(bad['zones']), rng.randint(1, 3)))]
            elif style == 'frame':
                cuts = [b0, b0 + len(bb), b0 + len(bb) - 1]
            elif style == 'bytes':
                cuts = list(range(1, L))
            else:
                cuts = rng.sample(range(1, L), min(L - 1, rng.randint(1, 4)))
            pos = [0] + sorted({c for c in cuts if 0 < c < L}) + [L]
            script = []
            for a, b in zip(pos, pos[1:]):
                script.append(['d', stream[a:b].hex()])
                script += [['a', 2]] * rng.choice([0, 0, 1, 1, 2])
            yield {'kind': 'malformed', 'proto': side.name, 'script': script, 'how': bad['cls'], 'n_frames': len(pre) + len(post) + 3}


def run_malformed(ctx, runner, case):
    side = SIDES[case['proto']]
    try:
        log, fin = runner.drive(side, case['script'], {}, case.get('n_frames', 4) + 4)
    except Exception as e:  # noqa
        ctx.count(f'{side.name}:malformed:harness-exception:{err_name(e)}')
        return None
    return {'log': log, 'fin': fin, 'fail': []}


# ====================================================================== entry points
def corpus_cases():
    cdir = os.path.join(VERIF, 'corpus', 'C03')
    out = []
    if os.path.isdir(cdir):
        for f in sorted(os.listdir(cdir)):
            if f.endswith('.json'):
                c = json.load(open(os.path.join(cdir, f)))
                c = c.get('replay', c)
                if c.get('kind') == 'stream-hl':            # compact form: messages + cuts + polls, the script is rebuilt
                    c = hl_to_case(c['hl'])
                out.append((f, c))
    return out


def run(ctx):
    quick = ctx.tier == 'quick'
    rng = ctx.rng
    runner = Runner()
    ctx.cov['rule'] = ('case = (protocol, well-formed packet/frame list, cut positions of the concatenated stream, polls between segments, '
                       'callback durations); every 1-/2-cut split of short streams (quick) plus 3-cut splits (thorough), random long streams '
                       'with few/many/zone/bursty segmentations, whole-stream and byte-wise delivery; distinct = distinct (messages, script, stubs); '
                       'each case executed on the real reader under virtual time, the model folded over the observed data/deserialize event log; '
                       'malformed streams: agreement model/implementation only')
    ctx.notes += [
        'C03 model boundary: the callbacks given to the reader return normally (a raising on_msg_coro, which also stops the reader, is not modelled)',
        'C03 model boundary: a FIX frame is its byte slice; field-level decoding is the library\'s Message.from_bytes, applied by the harness to the frames the model cuts',
        'C03 tie: one model tick = one observed deserialize() call; data/tick order is taken from the event log of the real run under virtual time',
        'C03 handler latency: a model tick is atomic (deserialize + emission), so how long on_msg_coro stays suspended is invisible to R; '
        'segments that arrive during a suspended callback are `data` events between that tick and the next one — the event log records '
        'every on_data call in the order it really happened, also those made while on_msg_coro is suspended (family `handler:*`); '
        'Props/C03Handler.lean: the machine with an explicit busy flag refines R',
    ]
    executed = []          # (side, case, res)
    shrinks = [0]
    has_deser = [all(hasattr(sd.reader_cls(), 'deserialize') for sd in (SoupSide, FixSide))]

    def flush():
        """model answers for the executed cases in one batch, then the correspondence"""
        todo = [(s_, c_, r_) for s_, c_, r_ in executed if r_.get('log') is not None]
        del executed[:]
        if not ctx.driver.available or not has_deser[0] or not todo:
            return
        heavy = [x for x in todo if model_cost(x[2]['log']) > MODEL_COST_LIMIT]
        if heavy:      # the list-based model is quadratic on (ticks x buffered bytes): tens of thousands of polls over a 64 KiB backlog
            ctx.count('model-skipped:ticks-x-buffer-too-large', len(heavy))
            todo = [x for x in todo if model_cost(x[2]['log']) <= MODEL_COST_LIMIT]
        lines = [model_line(s_, r_['log']) for s_, c_, r_ in todo]
        t_drv = time.time()
        try:
            answers = ctx.driver.ask(lines)
            ctx.cov['model_driver_wall_s'] = round(ctx.cov.get('model_driver_wall_s', 0) + time.time() - t_drv, 2)
        except Exception as e:  # noqa
            ctx.disagree(f'model driver failed: {e!r:.200}', {'kind': 'driver'})
            answers = []
        for (s_, c_, r_), a in zip(todo, answers):
            try:
                correspond(ctx, s_, r_, a, c_)
            except Exception as e:  # noqa
                ctx.disagree(f'comparing model and implementation raised {err_name(e)}: {e!r:.100}', c_)

    def keep(item):
        executed.append(item)
        if len(executed) >= 20000:
            flush()

    fix_frames_seen = set()

    def check_wf_hypothesis():
        """every FIX frame given to the oracle satisfies the Lean hypothesis `wfFixFrame` of the C03_fix_* theorems"""
        frames = sorted(fix_frames_seen)
        fix_frames_seen.clear()
        if not ctx.driver.available or not frames:
            return
        try:
            ans = ctx.driver.ask([f'fix.wf x{f}' for f in frames])
        except Exception as e:  # noqa
            ctx.disagree(f'model driver failed: {e!r:.200}', {'kind': 'driver'})
            return
        ctx.count('fix:frames-checked-against-wfFixFrame', len(frames))
        for f, a in zip(frames, ans):
            if a != 'true':
                ctx.disagree(f'a generated FIX frame is outside the theorems\' hypothesis: fix.wf = {a}', {'kind': 'wf', 'proto': 'fix', 'frame': f})

    def do_case(label, hl, case=None):
        side = SIDES[hl['proto']] if hl else SIDES[case['proto']]
        if case is None:
            case = hl_to_case(hl)
            if rng.random() < 0.25 and not label.startswith('mega:'):      # (a megabyte case is replayed from its high-level form)
                case = jitter(case, rng)
        key = json.dumps([case['proto'], case['msgs'], case['script'], case.get('stubs', {}), case.get('via')], default=repr)
        ctx.case(key, nontrivial=len(case['msgs']) > 0, sample_every=997)
        ctx.count(f'{side.name}:{label}')
        t_case = time.time()
        try:
            res = evaluate(ctx, runner, case)
        except Exception as e:  # noqa
            ctx.count(f'{side.name}:harness-exception:{err_name(e)}')
            res = {'fail': [f'evaluating the case raised {err_name(e)}: {e!r:.100}'], 'log': None, 'fin': None}
        wl = ctx.cov.setdefault('wall_s_by_label', {})
        lk = side.name + ':' + label.split(':')[0]
        wl[lk] = round(wl.get(lk, 0.0) + time.time() - t_case, 3)
        if hl:
            frames = [bytes.fromhex(x) for x in case['frames']]
            classify(side, frames, case.get('cuts', []), ctx)
        if side.name == 'fix':
            fix_frames_seen.update(case.get('frames') or [side.frame(side.undesc(d)).hex() for d in case['msgs']])
        if res['fail']:
            rep = case
            if hl is None and 'cuts' in case and runner.hangs == 0:
                # a corpus case: rebuild the high-level form so that it can be shrunk like a generated one
                cand = {'proto': case['proto'], 'msgs': case['msgs'], 'cuts': case['cuts'], 'polls': [1] * (len(case['cuts']) + 1),
                        'stubs': case.get('stubs', {}), 'via': case.get('via'), 'handler': case.get('handler')}
                try:
                    if evaluate(ctx, runner, hl_to_case(cand))['fail']:
                        hl = cand
                except Exception:  # noqa
                    pass
            if hl and shrinks[0] < 3 and runner.hangs == 0:
                shrinks[0] += 1

                def fails(h):
                    return bool(evaluate(ctx, runner, hl_to_case(h))['fail'])
                small = shrink(ctx, runner, hl, fails)
                c2 = hl_to_case(small)
                r2 = evaluate(ctx, runner, c2)
                if r2['fail']:
                    rep, res = c2, r2
            if hl and sum(len(x) for x in rep.get('frames', [])) > 400_000:
                # (a megabyte stream: the replay is the compact high-level form — of the shrunk case when it was shrunk)
                ctx.violation(res['fail'][0], compact_replay(small if rep is not case else hl, res['fail']))
            else:
                ctx.violation(res['fail'][0], dict(rep, what=res['fail']))
        if label.startswith('mega:'):
            # megabytes of hex: not kept for the model (its cost is ticks x buffered bytes), the oracle has spoken
            ctx.count('model-skipped:ticks-x-buffer-too-large')
            return
        keep((side, case, res))

    # ---- corpus first
    for name, c in corpus_cases():
        if c.get('kind') == 'stream':
            do_case('corpus', None, case=c)
        elif c.get('kind') == 'malformed':
            r = run_malformed(ctx, runner, c)
            if r:
                keep((SIDES[c['proto']], c, r))
                ctx.case(json.dumps(c['script']), nontrivial=True, sample_every=0)
                ctx.count(f'{c["proto"]}:corpus-malformed')
    # ---- generated well-formed cases
    for side in (SoupSide, FixSide):
        for label, hl in gen_cases(ctx, side, quick):
            if runner.hangs >= 2:          # every further case would cost CASE_TIMEOUT: the failing inputs are recorded, stop here
                ctx.notes.append('generation cut short: the reader hung (busy loop) on two cases')
                break
            do_case(label, hl)
        for label, hl in gen_big_cases(ctx, side, quick):
            if runner.hangs >= 2:
                break
            do_case(label, hl)
        for label, hl in gen_mega_cases(ctx, side, quick):
            if runner.hangs >= 2:
                break
            do_case(label, hl)
        for label, hl in gen_embedded_cases(ctx, side, quick):
            if runner.hangs >= 2:
                break
            do_case(label, hl)
        for label, hl in gen_handler_cases(ctx, side, quick):
            if runner.hangs >= 2:
                break
            do_case(label, hl)
    # ---- malformed streams
    for side in (SoupSide, FixSide):
        for c in gen_malformed(ctx, side, 300 if quick else 4000):
            if runner.hangs >= 2:
                break
            r = run_malformed(ctx, runner, c)
            if r:
                keep((side, c, r))
                ctx.case(json.dumps(c['script']), nontrivial=True, sample_every=0)
                ctx.count(f'{side.name}:malformed:{c["how"]}:' + ('stopped' if r['fin'].get('stopped') else 'alive'))
        for c in gen_malformed_classes(ctx, side, quick):
            if runner.hangs >= 2:
                break
            r = run_malformed(ctx, runner, c)
            if r:
                keep((side, c, r))
                ctx.case(json.dumps(c['script']), nontrivial=True, sample_every=0)
                how = ':'.join(c['how'].split(':')[:2])
                ctx.count(f'{side.name}:malformed-class:{how}:' + ('stopped' if r['fin'].get('stopped') else 'alive'))
    runner.close()
    flush()
    check_wf_hypothesis()
    if not ctx.driver.available:
        ctx.notes.append('model driver unavailable: oracle only')
    if not has_deser[0]:
        ctx.notes.append('the reader class has no deserialize() to observe: correspondence skipped, oracle only (weaker tie)')


def replay(ctx, path):
    r = json.load(open(path))
    rep = r.get('replay') or (r.get('no_longer_checks') or [{}])[-1].get('case') or r
    ctx.cov['rule'] = 'replay of ' + path
    if rep.get('kind') == 'wf':
        a = ctx.driver.ask([f'fix.wf x{rep["frame"]}'])[0]
        print('frame    :', bytes.fromhex(rep['frame']))
        print('fix.wf   :', a)
        ctx.case(rep['frame'])
        ctx.case('replay-marker')
        if a != 'true':
            ctx.disagree('a generated FIX frame is outside the theorems\' hypothesis', rep)
        return
    if rep.get('kind') == 'stream-hl':            # compact form (megabyte streams): messages + cuts + polls, the script is rebuilt
        what = rep.get('what')
        rep = hl_to_case(rep['hl'])
        print('stream   :', len(rep['msgs']), 'messages,', sum(len(f) for f in rep['frames']) // 2, 'bytes, cuts', rep['cuts'][:40])
        res = evaluate(ctx, Runner(), rep)
        ctx.case('replay-marker')
        ctx.case('replay-marker-2')
        print('emitted  :', [x[:40] for x in (res.get('out') or [])])
        print('final    :', {k: (v if k != 'buf' else v[:40]) for k, v in (res.get('fin') or {}).items()})
        for f in res['fail']:
            print('ORACLE   :', f)
        if res['fail']:
            ctx.violation(res['fail'][0], {'kind': 'stream-hl', 'proto': rep['proto'], 'what': res['fail'], 'was': what})
        return
    if 'proto' not in rep or 'script' not in rep:
        print('nothing to replay in', path)
        ctx.case('replay-marker')
        ctx.case('replay-marker-2')
        return
    runner = Runner()
    side = SIDES[rep['proto']]
    ctx.case(json.dumps(rep.get('script')), nontrivial=True)
    ctx.case('replay-marker')
    if rep.get('kind') == 'stream':
        res = evaluate(ctx, runner, rep)
        print('messages :', rep['msgs'])
        print('script   :', rep['script'])
        print('emitted  :', res.get('out'))
        print('final    :', res.get('fin'))
        for f in res['fail']:
            print('ORACLE   :', f)
        if res['fail']:
            ctx.violation(res['fail'][0], dict(rep, what=res['fail']))
    else:
        res = run_malformed(ctx, runner, rep)
        print('script   :', rep['script'])
        print('final    :', res and res['fin'])
    if res and res.get('log') is not None and ctx.driver.available:
        a = ctx.driver.ask([model_line(side, res['log'])])[0]
        print('observed :', observed_log(side, res['log']))
        print('model    :', a[:600])
        correspond(ctx, side, res, a, rep)
    runner.close()
