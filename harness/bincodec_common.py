"""Shared by C01 / C02: schema trees, dynamic classes built from them, values, generators, shrinking.

Schema (`ty`) and value (`val`) trees are plain Python lists that print, through `common.sx`, to exactly the s-expressions
the Lean driver parses (Driver/BinCodec.lean):

  ty   ['int', size, signed, be] | 'bool' | ['char', iso] | ['str', iso] | ['fixed', iso, n, rjust]
       | ['record', [name, ty, default]...] | ['optrec', [name, ty, default]...] | ['arr', ty, size, signed, be]
  val  ['i', n] | ['b', bool] | ['s', cp...] | ['r', [name, val]...] | 'none' | ['l', val...]

Field names are numbers (`f<name>` on the Python side).  A record value is the instance's `values` dict as it actually is
(values are always built through the library API and then read back with `to_val`, so the model sees the real store).
"""
import enum
import itertools
import zlib

from common import parse_sx, err_name

_counter = itertools.count()

INT_COMBOS = [(1, False, False), (2, True, False), (2, True, True), (2, False, False), (2, False, True),
              (4, True, False), (4, True, True), (4, False, False), (4, False, True),
              (8, True, False), (8, True, True), (8, False, False), (8, False, True)]
PY_STRIP = '\t\n\x0b\x0c\r\x1c\x1d\x1e\x1f \x85\xa0'        # str.isspace() below 256 (what a bare strip() would remove)
PAD = ' '                                                     # the pad character: cannot survive at the ends of a fixed field


def sx(x):
    """fast printer for ty / val trees (same output as common.sx)"""
    if isinstance(x, str):
        return x
    if x is True:
        return 'true'
    if x is False:
        return 'false'
    if isinstance(x, int):
        return str(x)
    if isinstance(x, (bytes, bytearray)):
        return 'x' + bytes(x).hex()
    if x and x[0] == 's':
        return '(s ' + ' '.join(map(str, x[1:])) + ')' if len(x) > 1 else '(s)'
    return '(' + ' '.join([sx(e) for e in x]) + ')'


_lib = []


def lib():
    if _lib:
        return _lib[0]
    _lib.append(_lib_import())
    return _lib[0]


def reset_lib():
    del _lib[:]


def _lib_import():
    from nasdaq_protocols.common.message import types, structures
    return types, structures


def int_class(size, signed, be):
    t, _ = lib()
    return {
        (1, False, False): t.Byte, (1, False, True): t.Byte,
        (2, True, False): t.Short, (2, True, True): t.ShortBE, (2, False, False): t.UnsignedShort, (2, False, True): t.UnsignedShortBE,
        (4, True, False): t.Int, (4, True, True): t.IntBE, (4, False, False): t.UnsignedInt, (4, False, True): t.UnsignedIntBE,
        (8, True, False): t.Long, (8, True, True): t.LongBE, (8, False, False): t.UnsignedLong, (8, False, True): t.UnsignedLongBE,
    }[(size, bool(signed), bool(be))]


def kind(ty):
    return ty if isinstance(ty, str) else ty[0]


def fields_of(ty):
    return ty[1:]


def elem_ty(e):
    """the type whose packer an Array uses for its items"""
    return ['record'] + e[1:] if kind(e) == 'optrec' else e


# ------------------------------------------------------------------ schema -> Python classes
class Builder:
    """builds (and caches, by identity of the schema node) the library type object for a schema tree"""

    def __init__(self):
        self.cache = {}

    def build(self, ty):
        key = id(ty)
        if key in self.cache and self.cache[key][0] is ty:
            return self.cache[key][1]
        obj = self._build(ty)
        self.cache[key] = (ty, obj)
        return obj

    def _build(self, ty):
        t, s = lib()
        k = kind(ty)
        if k == 'int':
            return int_class(ty[1], ty[2], ty[3])
        if k == 'bool':
            return t.Boolean
        if k == 'char':
            return t.CharIso8599 if ty[1] else t.CharAscii
        if k == 'str':
            return t.Iso8859String if ty[1] else t.AsciiString
        if k == 'fixed':
            cls = t.FixedIsoString if ty[1] else t.FixedAsciiString
            return cls(ty[2], True) if ty[3] else cls(ty[2])
        if k in ('record', 'optrec'):
            base = s.Record if k == 'record' else s.RecordWithPresentBit
            fields = [s.Field(f'f{n}', self.build(fty), default_value=self.default_obj(fty, d)) for n, fty, d in fields_of(ty)]
            name = f'V{k.capitalize()}{next(_counter)}'
            if len(fields) >= 2 and zlib.crc32(repr(ty).encode()) % 3 == 0:
                # the same schema declared by inheritance: a parent record with a prefix of the fields, used once (so that
                # anything remembered per class is remembered for the parent first), then `Fields = Parent.Fields + rest`
                cut = 1 + zlib.crc32(repr(ty).encode()) // 3 % (len(fields) - 1)
                parent = type(name + 'P', (base,), {'Fields': fields[:cut], '__test__': False})
                for use in (lambda: parent.from_bytes(bytes(64)), lambda: parent.to_bytes(parent())):
                    try:
                        guarded_call(use, 1.0)
                    except BaseException as e:   # noqa  (the parent is only warmed up, its own behaviour is not under test here)
                        if isinstance(e, (KeyboardInterrupt, SystemExit)):
                            raise
                return type(name, (parent,), {'Fields': parent.Fields + fields[cut:], '__test__': False})
            return type(name, (base,), {'Fields': fields, '__test__': False})
        if k == 'arr':
            return s.Array(self.build(ty[1]), int_class(ty[2], ty[3], ty[4]))
        raise ValueError(ty)

    def default_obj(self, ty, d):
        if d == 'none':
            return None
        return self.from_val(ty, d, typed=False)

    # -------------------------------------------------------------- val -> Python object
    def from_val(self, ty, v, typed=True, enums=None):
        """Build the Python value.  typed=True goes through the typed attributes (`setattr`), which may raise ValueError
        for a value the attribute does not accept; typed=False writes the `values` dict directly."""
        if v == 'none':
            return None
        tag = v[0]
        if tag == 'i':
            return int(v[1])
        if tag == 'b':
            return bool(v[1])
        if tag == 's':
            return ''.join(chr(c) for c in v[1:])
        if tag == 'l':
            e = elem_ty(ty[1]) if kind(ty) == 'arr' else ty
            return [self.from_val(e, x, typed, enums) for x in v[1:]]
        if tag == 'r':
            if kind(ty) not in ('record', 'optrec'):
                # a record where no record belongs: any record instance will do
                _, s = lib()
                dummy = type(f'VStray{next(_counter)}', (s.Record,), {'Fields': [], '__test__': False})
                return dummy()
            cls = self.build(ty)
            ftypes = {n: fty for n, fty, _ in fields_of(ty)}
            obj = cls()
            for n, fv in v[1:]:
                fty = ftypes.get(n)
                if fty is None:
                    obj.values[f'f{n}'] = self.from_val('bool', fv, False)
                    continue
                pv = self.from_val(fty, fv, typed, enums)
                if typed:
                    if enums is not None and enums.random() < 0.15 and isinstance(pv, (int, str)) and not isinstance(pv, bool):
                        pv = enum.Enum(f'E{next(_counter)}', {'MEMBER': pv}).MEMBER      # assigning an Enum member stores its .value
                    setattr(obj, f'f{n}', pv)
                else:
                    obj.values[f'f{n}'] = pv
            return obj
        raise ValueError(v)


def to_val(ty, obj):
    """Python object -> val tree, reading a record instance's actual `values` dict"""
    _, s = lib()
    if obj is None:
        return 'none'
    if isinstance(obj, bool):
        return ['b', obj]
    if isinstance(obj, int):
        return ['i', obj]
    if isinstance(obj, str):
        return ['s'] + [ord(c) for c in obj]
    if isinstance(obj, list):
        e = elem_ty(ty[1]) if kind(ty) == 'arr' else 'bool'
        return ['l'] + [to_val(e, x) for x in obj]
    if isinstance(obj, s._Record):
        ftypes = {f'f{n}': fty for n, fty, _ in fields_of(ty)} if kind(ty) in ('record', 'optrec') else {}
        out = ['r']
        for k, x in obj.values.items():
            out.append([int(k[1:]), to_val(ftypes.get(k, 'bool'), x)])
        return out
    raise TypeError(type(obj))


def val_from_parsed(p):
    """parse_sx output (strings) -> val tree"""
    if p == 'none':
        return 'none'
    tag = p[0]
    if tag == 'i':
        return ['i', int(p[1])]
    if tag == 'b':
        return ['b', p[1] == 'true']
    if tag == 's':
        return ['s'] + [int(c) for c in p[1:]]
    if tag == 'l':
        return ['l'] + [val_from_parsed(x) for x in p[1:]]
    if tag == 'r':
        return ['r'] + [[int(k), val_from_parsed(x)] for k, x in p[1:]]
    raise ValueError(p)


def ty_from_parsed(p):
    if p == 'bool':
        return 'bool'
    b = lambda x: x == 'true'
    k = p[0]
    if k == 'int':
        return ['int', int(p[1]), b(p[2]), b(p[3])]
    if k in ('char', 'str'):
        return [k, b(p[1])]
    if k == 'fixed':
        return ['fixed', b(p[1]), int(p[2]), b(p[3])]
    if k in ('record', 'optrec'):
        return [k] + [[int(n), ty_from_parsed(t), val_from_parsed(d)] for n, t, d in p[1:]]
    if k == 'arr':
        return ['arr', ty_from_parsed(p[1]), int(p[2]), b(p[3]), b(p[4])]
    raise ValueError(p)


def parse_ty(text):
    return ty_from_parsed(parse_sx(text)[0])


def parse_val(text):
    return val_from_parsed(parse_sx(text)[0])


# ------------------------------------------------------------------ domain predicates (harness side, independent of Lean `wf`)
def int_range(size, signed):
    return (-(1 << (8 * size - 1)), (1 << (8 * size - 1)) - 1) if signed else (0, (1 << (8 * size)) - 1)


def in_domain(ty, v, as_elem=False):
    """the values property C01 quantifies its round trip over (mirrors `BinCodec.wf`, written independently)"""
    k = kind(ty)
    if k == 'int':
        if v == 'none' or v[0] not in 'ib':
            return False
        lo, hi = int_range(ty[1], ty[2])
        return lo <= int(v[1]) <= hi
    if k == 'bool':
        return v != 'none' and v[0] == 'b'
    if k in ('char', 'str', 'fixed'):
        if v == 'none' or v[0] != 's':
            return False
        cs = v[1:]
        if any(c >= (256 if ty[1] else 128) for c in cs):
            return False
        if k == 'char':
            return len(cs) == 1
        if k == 'str':
            return len(cs) <= 32767
        return len(cs) <= ty[2] and (not cs or (chr(cs[0]) != PAD and chr(cs[-1]) != PAD))
    if k in ('record', 'optrec'):
        if k == 'optrec' and not as_elem and (v == 'none' or v == ['r']):
            return True
        if v == 'none' or v[0] != 'r':
            return False
        fs = fields_of(ty)
        if len({n for n, _, _ in fs}) != len(fs) or (k == 'optrec' and not as_elem and not fs):
            return False
        st = {n: x for n, x in v[1:]}
        return all(in_domain(fty, effective(st, n, fty, d)) for n, fty, d in fs)
    if k == 'arr':
        if v == 'none' or v[0] != 'l':
            return False
        lo, hi = int_range(ty[2], ty[3])
        return len(v) - 1 <= hi and all(in_domain(ty[1], x, as_elem=True) for x in v[1:])
    return False


def type_default(ty):
    k = kind(ty)
    return {'int': ['i', 0], 'bool': ['b', False], 'char': ['s', 32], 'str': ['s'], 'fixed': ['s'],
            'record': 'none', 'optrec': 'none', 'arr': ['l']}[k]


def effective(st, n, fty, d):
    if n in st:
        return st[n]
    return type_default(fty) if d == 'none' else d


def complete(ty, v, as_elem=False):
    """what the store of an instance built from the abstract value `v` really contains: `_Record.init_values` /
    `__attrs_post_init__` put a fresh instance into every record-typed field that was not given"""
    k = kind(ty)
    if k in ('record', 'optrec') and v != 'none' and v[0] == 'r':
        ftypes = {n: fty for n, fty, _ in fields_of(ty)}
        out = ['r'] + [[n, complete(ftypes[n], x) if n in ftypes else x] for n, x in v[1:]]
        have = {n for n, _ in v[1:]}
        for n, fty, _d in fields_of(ty):
            if n not in have and kind(fty) in ('record', 'optrec'):
                out.append([n, complete(fty, ['r'])])
        return out
    if k == 'arr' and v != 'none' and v[0] == 'l':
        return ['l'] + [complete(ty[1], x, True) for x in v[1:]]
    return v


def constructible(ty):
    k = kind(ty)
    if k in ('record', 'optrec'):
        return all(constructible(t) for _, t, _ in fields_of(ty))
    if k == 'arr':
        return kind(ty[1]) not in ('fixed', 'arr') and constructible(ty[1])
    return True


# ------------------------------------------------------------------ generators
def gen_int(rng, size, signed):
    lo, hi = int_range(size, signed)
    c = rng.random()
    if c < 0.35:
        cands = [lo, lo + 1, hi, hi - 1, 0, 1, -1, hi // 2, hi // 2 + 1, 255, 256, 65535, 65536, 127, 128, -128, -129,
                 (1 << (8 * size - 1)) - 1, 1 << (8 * size - 1), int('ff' * size, 16), int('80' + '00' * (size - 1), 16),
                 int('01' * size, 16), int('ff00' * (size // 2) or 'ff', 16), int('0102030405060708'[:2 * size], 16)]
        cands = [x for x in cands if lo <= x <= hi]
        return rng.choice(cands)
    if c < 0.5:
        return rng.randint(max(lo, -300), min(hi, 300))
    return rng.randint(lo, hi)


def gen_text(rng, iso, n, edge_clean=False):
    limit = 256 if iso else 128
    mode = rng.random()
    if mode < 0.5:
        alphabet = [ord(c) for c in 'abcXYZ019 _-.'] + [0x20]
    elif mode < 0.8:
        alphabet = list(range(limit))
    else:
        alphabet = [c for c in (0, 1, 9, 10, 13, 0x1c, 0x1f, 0x20, 0x7f, 0x80, 0x85, 0xa0, 0xe9, 0xff, 0x41) if c < limit]
    cs = [rng.choice(alphabet) for _ in range(n)]
    if edge_clean:
        ok = [c for c in alphabet if chr(c) != PAD] or [0x41]
        if cs and chr(cs[0]) == PAD:
            cs[0] = rng.choice(ok)
        if cs and chr(cs[-1]) == PAD:
            cs[-1] = rng.choice(ok)
    return cs


def gen_leaf_ty(rng):
    c = rng.random()
    if c < 0.45:
        return ['int'] + list(rng.choice(INT_COMBOS))
    if c < 0.52:
        return 'bool'
    if c < 0.62:
        return ['char', rng.random() < 0.5]
    if c < 0.78:
        return ['str', rng.random() < 0.5]
    return ['fixed', rng.random() < 0.5, rng.choice([0, 1, 1, 2, 3, 4, 5, 8, 16, 20, 32]), rng.random() < 0.2]


def gen_count_type(rng):
    c = rng.random()
    if c < 0.35:
        return (2, True, False)            # Array(x) built by hand: Short
    if c < 0.6:
        return (2, False, False)           # generated code: UnsignedShort
    if c < 0.85:
        return (2, False, True)            # generated code, endian="big": UnsignedShortBE
    return rng.choice(INT_COMBOS)


def gen_ty(rng, depth, width, names=None):
    """a random field-type tree; records get 1..width fields"""
    c = rng.random()
    if depth <= 0 or c < 0.45:
        return gen_leaf_ty(rng)
    if c < 0.65:
        return gen_record_ty(rng, 'record', depth - 1, width)
    if c < 0.8:
        return gen_record_ty(rng, 'optrec', depth - 1, width)
    e = rng.random()
    if e < 0.4:
        elem = gen_leaf_ty(rng)
        while kind(elem) == 'fixed':
            elem = gen_leaf_ty(rng)
    elif e < 0.7:
        elem = gen_record_ty(rng, 'record', depth - 1, width)
    else:
        elem = gen_record_ty(rng, 'optrec', depth - 1, width)
    return ['arr', elem] + list(gen_count_type(rng))


def gen_record_ty(rng, k, depth, width):
    n = rng.randint(1, max(1, width))
    if k == 'record' and rng.random() < 0.03:
        n = 0                                # a record / message body without fields
    names = rng.sample(range(1, 40), n)
    fs = []
    for name in names:
        fty = gen_ty(rng, depth, width)
        d = 'none'
        if kind(fty) in ('int', 'bool', 'char', 'str', 'fixed') and rng.random() < 0.25:
            d = gen_val(rng, fty, 0)
        elif kind(fty) == 'arr' and rng.random() < 0.25:
            # a declared default on an ARRAY field: a list of scalars or of records (records holding records / lists); an instance that
            # leaves the field unassigned reads, encodes and round-trips it (the library hands out a deep copy, /repo c3c2285 + bda6d24)
            d = complete(fty, gen_val(rng, fty, 2))
        fs.append([name, fty, d])
    return [k] + fs


def gen_val(rng, ty, size_hint=4, as_elem=False):
    """an in-domain value for `ty` (abstract: record stores list only the assigned fields)"""
    k = kind(ty)
    if k == 'int':
        v = gen_int(rng, ty[1], ty[2])
        if v in (0, 1) and rng.random() < 0.05:
            return ['b', bool(v)]            # a bool is an int for the typed attribute
        return ['i', v]
    if k == 'bool':
        return ['b', rng.random() < 0.5]
    if k == 'char':
        return ['s'] + gen_text(rng, ty[1], 1)
    if k == 'str':
        n = rng.choice([0, 0, 1, 2, 3, 5, 17, 255, 256, 300]) if rng.random() < 0.6 else rng.randint(0, 40)
        return ['s'] + gen_text(rng, ty[1], n)
    if k == 'fixed':
        n = rng.choice([0, ty[2], ty[2], max(ty[2] - 1, 0), ty[2] // 2]) if rng.random() < 0.7 else rng.randint(0, ty[2])
        return ['s'] + gen_text(rng, ty[1], n, edge_clean=True)
    if k in ('record', 'optrec'):
        if k == 'optrec' and not as_elem and rng.random() < 0.3:
            return ['r']                     # nothing assigned: the library's representation of an absent optional record
        out = ['r']
        for n, fty, _d in fields_of(ty):
            p = 0.95 if kind(fty) in ('record', 'optrec') else 0.75
            if rng.random() < p:
                out.append([n, gen_val(rng, fty, size_hint)])
        if k == 'optrec' and len(out) == 1 and not as_elem and fields_of(ty):
            n, fty, _d = fields_of(ty)[0]
            out.append([n, gen_val(rng, fty, size_hint)])
        return out
    if k == 'arr':
        n = rng.choice([0, 0, 1, 1, 2, 3, size_hint])
        return ['l'] + [gen_val(rng, ty[1], max(1, size_hint // 2), as_elem=True) for _ in range(n)]
    raise ValueError(ty)


# ------------------------------------------------------------------ running the implementation
class CodecTimeout(Exception):
    """a single to_bytes / from_bytes call did not finish in time (e.g. a misread array count of 2^32)"""


def _on_alarm(_sig, _frm):
    raise CodecTimeout()


def guarded_call(fn, seconds=1.0):
    return _guarded(lambda _x: fn(), None, seconds)


def _guarded(fn, arg, seconds=1.0):
    """run fn(arg) under a limit on the CPU time this process spends in it (machine load does not count); a first expiry is
    confirmed with a three times larger limit before it is reported"""
    import signal
    for limit in (seconds, 3 * seconds):
        old = signal.signal(signal.SIGVTALRM, _on_alarm)
        signal.setitimer(signal.ITIMER_VIRTUAL, limit)
        try:
            return fn(arg)
        except CodecTimeout:
            if limit != seconds:
                raise
        finally:
            signal.setitimer(signal.ITIMER_VIRTUAL, 0)
            signal.signal(signal.SIGVTALRM, old)


def impl_encode(tobj, pobj):
    try:
        n, b = _guarded(tobj.to_bytes, pobj)
        return ('ok', n, bytes(b))
    except CodecTimeout:
        return ('err', 'did-not-finish')
    except Exception as e:  # noqa
        return ('err', err_name(e))


def impl_decode(tobj, data):
    try:
        n, o = _guarded(tobj.from_bytes, data)
        return ('ok', n, o)
    except CodecTimeout:
        return ('err', 'did-not-finish')
    except MemoryError:
        return ('err', 'memory')
    except Exception as e:  # noqa
        return ('err', err_name(e))


# ------------------------------------------------------------------ reads through the typed attributes
def absent(ty, obj):
    return kind(ty) == 'optrec' and (obj is None or len(obj.values) == 0)


def reads_differ(ty, a, b, path='', as_elem=False):
    """first path at which reading `b` (decoded) differs from reading `a` (original) through the typed attributes, else None.
    An optional record that is absent on both sides (None / nothing assigned) is one observation."""
    _, s = lib()
    k = kind(ty)
    if k in ('record', 'optrec'):
        if k == 'optrec' and not as_elem and b is None:
            # decoded as absent: the original must be the library's representation of absence (None / nothing assigned)
            return None if absent(ty, a) else f'{path}: present record read back as None'
        if a is None or b is None or not isinstance(b, s._Record):
            return None if a is b else f'{path}: {a!r:.40} vs {b!r:.40}'
        for n, fty, _d in fields_of(ty):
            try:
                x = getattr(a, f'f{n}')
                y = getattr(b, f'f{n}')
            except Exception as e:  # noqa
                return f'{path}.f{n}: read raised {err_name(e)}'
            r = reads_differ(fty, x, y, f'{path}.f{n}')
            if r:
                return r
        return None
    if k == 'arr':
        if not isinstance(b, list) or len(a) != len(b):
            return f'{path}: list length {len(a)} vs {len(b) if isinstance(b, list) else b!r}'
        for i, (x, y) in enumerate(zip(a, b)):
            r = reads_differ(elem_ty(ty[1]), x, y, f'{path}[{i}]', as_elem=True)
            if r:
                return r
        return None
    if type(b) is not (int if (k == 'int') else bool if k == 'bool' else str) and not (k == 'int' and isinstance(b, int)):
        return f'{path}: decoded a {type(b).__name__}'
    return None if a == b else f'{path}: {a!r:.40} read back as {b!r:.40}'


# ------------------------------------------------------------------ shrinking
def shrink_candidates(ty, v):
    """smaller (ty, val) pairs, most aggressive first"""
    k = kind(ty)
    if k in ('record', 'optrec') and v != 'none' and v[0] == 'r':
        fs = fields_of(ty)
        st = {n: x for n, x in v[1:]}
        for n, fty, d in fs:                              # descend into one field
            yield fty, effective(st, n, fty, d)
        if len(fs) > 1:
            for i in range(len(fs)):                      # drop one field
                rest = fs[:i] + fs[i + 1:]
                yield [k] + rest, ['r'] + [[n, x] for n, x in v[1:] if n != fs[i][0]]
        for i, (n, fty, d) in enumerate(fs):              # shrink inside one field (its type may shrink with it)
            if n in st:
                for t2, v2 in shrink_candidates(fty, st[n]):
                    yield [k] + fs[:i] + [[n, t2, d if t2 == fty else 'none']] + fs[i + 1:], \
                        ['r'] + [[m, (v2 if m == n else x)] for m, x in v[1:]]
    elif k == 'arr' and v != 'none' and v[0] == 'l':
        e = elem_ty(ty[1])
        for x in v[1:]:
            yield e, x
        if len(v) > 1:
            yield ty, ['l'] + v[2:]
            yield ty, ['l'] + v[1:-1]
    elif v != 'none' and v[0] == 's' and len(v) > 1:
        yield ty, ['s'] + v[2:]
        yield ty, ['s'] + v[1:-1]
    elif v != 'none' and v[0] == 'i' and v[1] not in (0,):
        yield ty, ['i', 0]
        yield ty, ['i', v[1] // 2]


def shrink(ty, v, still_fails, budget=200):
    """greedy: take the first smaller candidate on which `still_fails(ty, val)` holds, repeat"""
    import time
    steps = 0
    progress = True
    deadline = time.time() + 20
    while progress and steps < budget and time.time() < deadline:
        progress = False
        for t2, v2 in shrink_candidates(ty, v):
            steps += 1
            if steps > budget or time.time() > deadline:
                break
            try:
                if still_fails(t2, v2):
                    ty, v, progress = t2, v2, True
                    break
            except Exception:  # noqa
                continue
    return ty, v


def short(text, n=300):
    return text if len(text) <= n else text[:n] + '…'


def case_dict(kind_, ty, v, **kw):
    d = {'kind': kind_, 'ty': sx(ty), 'val': sx(v)}
    d.update(kw)
    return d


# ------------------------------------------------------------------ in-place update of an object that was already encoded
def apply_in_place(B, ty, rec, v2, rng, top=None):
    """Move the record instance `rec` (schema `ty`) towards the value `v2` WITHOUT replacing the objects it already holds where
    that is possible: nested records are updated through the reference the parent holds, lists are changed in place (slice
    assignment, clear + extend, element-wise), scalars are assigned on the record itself (or, for the body of a message `top`,
    randomly through the message's own attribute).  What the object holds afterwards is read back with `to_val`."""
    ftypes = {n: fty for n, fty, _ in fields_of(ty)}
    if v2 == 'none' or v2[0] != 'r':
        return
    for n, fv in v2[1:]:
        fty = ftypes.get(n)
        if fty is None:
            continue
        name = f'f{n}'
        cur = rec.values.get(name)
        k = kind(fty)
        if k in ('record', 'optrec') and cur is not None and fv != 'none' and fv[0] == 'r' and rng.random() < 0.75:
            apply_in_place(B, fty, cur, fv, rng)
        elif k == 'arr' and isinstance(cur, list) and fv != 'none' and fv[0] == 'l' and rng.random() < 0.75:
            new = B.from_val(fty, fv, typed=True)
            c = rng.random()
            if c < 0.35:
                cur[:] = new
            elif c < 0.7:
                cur.clear()
                cur.extend(new)
            else:
                e = elem_ty(fty[1])
                for i, x in enumerate(new):
                    if i < len(cur):
                        if kind(e) in ('record', 'optrec') and cur[i] is not None and fv[1 + i] != 'none' and fv[1 + i][0] == 'r':
                            apply_in_place(B, e, cur[i], fv[1 + i], rng)
                        else:
                            cur[i] = x
                    else:
                        cur.append(x)
                del cur[len(new):]
        else:
            pv = B.from_val(fty, fv, typed=True)
            if top is not None and rng.random() < 0.5:
                setattr(top, name, pv)
            else:
                setattr(rec, name, pv)


# ------------------------------------------------------------------ message classes of one application
def build_messages(B, rng, style, defs):
    """defs: list of (indicator, body record ty).  Returns (app base class, [message classes]) - new classes on every call"""
    from nasdaq_protocols import itch, ouch, sqf
    app = f'verif_{style}_{next(_counter)}'
    core = {'itch': itch, 'ouch': ouch, 'sqf': sqf}[style]

    def init_subclass(cls, **kwargs):
        kwargs['app_name'] = app
        super(base, cls).__init_subclass__(**kwargs)
    base = type(f'VApp{next(_counter)}', (core.Message,), {'__init_subclass__': classmethod(init_subclass), '__test__': False},
                app_name=app)
    classes = []
    for ind, body in defs:
        kw = {'indicator': ind}
        if style != 'itch':
            kw['direction'] = 'outgoing'
        body_cls = B.build(body)
        cls = type(f'VMsg{next(_counter)}', (base,), {'BodyRecord': body_cls, '__test__': False}, **kw)
        classes.append(cls)
    return base, classes


# ------------------------------------------------------------------ one message OBJECT over time: encode, change IN PLACE, encode again
# "every value assignable through the typed attributes" includes the value a message holds after it has been encoded and then
# changed below its top level through the references it holds (Model/BinObj.lean, Props/C01Reenc.lean):
#
#   msg.f2.f1 = 7            a field of a nested record              ['c', [['f', 2]],           ['set', 1, val]]
#   msg.f3.f1 = 'x'          an optional record becomes present      ['c', [['f', 3]],           ['set', 1, val]]
#   msg.f4.append(255)       a list grows                            ['c', [['f', 4]],           ['append', val]]
#   msg.f5[0].f2 = 'Z'       a field of a record in a list           ['c', [['f', 5], ['i', 0]], ['set', 2, val]]
#   msg.f1 = 8               a field of the message itself           ['c', [],                   ['set', 1, val]]
#   ['t']                    msg.to_bytes(), decode, compare the decoded reads with what the message holds NOW
#
# A history is generated against the live object: at every moment the POSITIONS the object offers are enumerated (every field of
# every record reachable through the stores - nested records, records in lists, at any depth -, every list it holds) and the next
# change is drawn among the (position, kind of change) pairs not yet made, so that one history walks through all of them
# (up to a cap), each followed by an encoding.  The ops are recorded as values (`sx(ops)` is what the Lean driver parses), so a
# history replays without the generator.
LIST_CHANGES = ('append', 'setitem', 'insert', 'del', 'clear', 'extend', 'assign')
LIST_CAP = 9


def ty_at(ty, path):
    """the schema of the object a path leads to (a record type, or an array type)"""
    for st in path:
        if st[0] == 'f':
            ty = {n: fty for n, fty, _ in fields_of(ty)}[int(st[1])]
        else:
            ty = elem_ty(ty[1])
    return ty


def obj_at(msg, path):
    """follow the references the objects hold, through the typed attributes (`msg.f5[0]`)"""
    obj = msg
    for st in path:
        obj = getattr(obj, f'f{st[1]}') if st[0] == 'f' else obj[int(st[1])]
    return obj


def positions(ty, rec, path=()):
    """[('set', path, field name, field type) | ('list', path, array type)] for everything reachable through the stores"""
    _, s = lib()
    out = []
    for n, fty, _d in fields_of(ty):
        out.append(('set', path, n, fty))
        cur = rec.values.get(f'f{n}')
        k = kind(fty)
        p2 = path + (['f', n],)
        if k in ('record', 'optrec') and isinstance(cur, s._Record):
            out += positions(fty, cur, p2)
        elif k == 'arr' and isinstance(cur, list) and constructible(fty):
            out.append(('list', p2, fty))
            e = elem_ty(fty[1])
            if kind(e) == 'record':
                for i, x in enumerate(cur):
                    if isinstance(x, s._Record):
                        out += positions(e, x, p2 + (['i', i],))
    return out


def actual_val(B, ty, v):
    """the value tree of the object the library really builds from the abstract value (stores as they are, in their order)"""
    return to_val(ty, B.from_val(ty, v, typed=True))


def gen_change(rng, B, msg, pos, how=None):
    """one in-domain change at a position, values as the library holds them"""
    if pos[0] == 'set':
        _, path, n, fty = pos
        return ['c', list(path), ['set', n, actual_val(B, fty, gen_val(rng, fty, 2))]]
    _, path, aty = pos
    e = elem_ty(aty[1])
    cur = obj_at(msg, path)
    item = lambda: actual_val(B, e, gen_val(rng, aty[1], 2, as_elem=True))
    if how == 'append':
        return ['c', list(path), ['append', item()]]
    if how == 'setitem':
        return ['c', list(path), ['setitem', rng.randrange(len(cur)), item()]]
    if how == 'insert':
        return ['c', list(path), ['insert', rng.randint(0, len(cur)), item()]]
    if how == 'del':
        return ['c', list(path), ['del', rng.randrange(len(cur))]]
    if how == 'clear':
        return ['c', list(path), ['clear']]
    if how == 'extend':
        return ['c', list(path), ['extend'] + [item() for _ in range(rng.randint(1, 2))]]
    return ['c', list(path), ['assign'] + [item() for _ in range(rng.choice([0, 1, 2, 3]))]]


def next_change(rng, B, body, msg, visited):
    """the next (position, kind) of the object as it is now that no change has been made at yet; None when all have been"""
    cands = []
    for pos in positions(body, msg.record):
        if pos[0] == 'set':
            key = ('set', sx(list(pos[1])), pos[2])
            if key not in visited:
                w = 6.0 if pos[1] else 1.5
                if pos[1] and pos[1][-1][0] == 'f' and kind(ty_at(body, pos[1])) == 'optrec' and not obj_at(msg, pos[1]).values:
                    w = 12.0                 # an optional record that is absent now and becomes present by this assignment
                cands.append((w, key, pos, None))
            continue
        n = len(obj_at(msg, pos[1]))
        lo, hi = int_range(pos[2][2], pos[2][3])
        room = n < min(LIST_CAP, hi)
        for how in LIST_CHANGES:
            key = ('list', sx(list(pos[1])), how)
            if key in visited or (how in ('setitem', 'del') and n == 0) or (how in ('append', 'insert', 'extend') and not room):
                continue
            if how == 'extend' and n + 2 > min(LIST_CAP, hi):
                continue
            cands.append((1.0 if how in ('del', 'clear', 'assign') else 4.0, key, pos, how))
    if not cands:
        return None
    _, key, pos, how = rng.choices(cands, weights=[c[0] for c in cands])[0]
    visited.add(key)
    return gen_change(rng, B, msg, pos, how)


def change_label(body, msg, op):
    """what kind of place the change is made at (for the input distribution in the evidence)"""
    path, mu = op[1], op[2]
    if mu[0] == 'set':
        if not path:
            return 'body-field'
        tgt = ty_at(body, path)
        where = 'element-field' if path[-1][0] == 'i' else f'nested-field-depth{min(len([p for p in path if p[0] == "f"]), 3)}'
        if kind(tgt) == 'optrec' and path[-1][0] == 'f' and len(obj_at(msg, path).values) == 0:
            where = 'optional-record-becomes-present'
        return where
    return 'list-' + mu[0] + ('' if len(path) == 1 else '-nested')


def apply_change(B, body, msg, op):
    """make the change on the live message through the typed attributes / the list the message holds"""
    path, mu = op[1], op[2]
    tgt = obj_at(msg, path)
    ty = ty_at(body, path)
    if mu[0] == 'set':
        fty = {n: fty for n, fty, _ in fields_of(ty)}[int(mu[1])]
        setattr(tgt, f'f{mu[1]}', B.from_val(fty, mu[2], typed=True))
        return
    if not isinstance(tgt, list):
        raise TypeError(f'{sx(path)} does not lead to a list')
    e = elem_ty(ty[1])
    mk = lambda v: B.from_val(e, v, typed=True)
    if mu[0] == 'append':
        tgt.append(mk(mu[1]))
    elif mu[0] == 'setitem':
        tgt[int(mu[1])] = mk(mu[2])
    elif mu[0] == 'insert':
        tgt.insert(int(mu[1]), mk(mu[2]))
    elif mu[0] == 'del':
        del tgt[int(mu[1])]
    elif mu[0] == 'clear':
        tgt.clear()
    elif mu[0] == 'extend':
        tgt.extend([mk(v) for v in mu[1:]])
    elif mu[0] == 'assign':
        tgt[:] = [mk(v) for v in mu[1:]]
    else:
        raise ValueError(mu[0])


def ops_from_parsed(p):
    """parse_sx output -> ops"""
    out = []
    for op in p:
        if op[0] == 't':
            out.append(['t'])
            continue
        path = [[st[0], int(st[1])] for st in op[1]]
        mu = op[2]
        if mu[0] == 'set':
            m2 = ['set', int(mu[1]), val_from_parsed(mu[2])]
        elif mu[0] == 'append':
            m2 = ['append', val_from_parsed(mu[1])]
        elif mu[0] in ('setitem', 'insert'):
            m2 = [mu[0], int(mu[1]), val_from_parsed(mu[2])]
        elif mu[0] == 'del':
            m2 = ['del', int(mu[1])]
        elif mu[0] == 'clear':
            m2 = ['clear']
        else:
            m2 = [mu[0]] + [val_from_parsed(v) for v in mu[1:]]
        out.append(['c', path, m2])
    return out


def encode_and_read_back(base, classes, k, body, msg, tail, judge=True):
    """one `to_bytes()` of the message as it is now, judged by the statement of C01: (failure or None, observable entry)"""
    n, b = guarded_call(msg.to_bytes)
    b = bytes(b)
    if judge and n != len(b):
        return f'reported length {n} != {len(b)} bytes', None
    if not judge:
        return None, None                  # the message holds a value outside the round-trip domain: nothing is claimed
    m, dmsg = guarded_call(lambda: base.from_bytes(b + tail))
    if type(dmsg) is not classes[k]:
        return f'decoded as {type(dmsg).__name__}, not the class that was encoded', None
    if m != len(b):
        return f'decode consumed {m} of {len(b)} bytes ({len(tail)} unrelated bytes follow)', None
    diff = reads_differ(body, msg.record, dmsg.record)
    for name_idx, fty, _d in body[1:]:
        diff = diff or reads_differ(fty, getattr(msg, f'f{name_idx}'), getattr(dmsg, f'f{name_idx}'), f'msg.f{name_idx}')
    if diff:
        return f'the message holds one value, its encoding decodes to another: {diff}', None
    rn, rb = guarded_call(dmsg.to_bytes)
    if bytes(rb) != b or rn != n:
        return 're-encoding the decoded message gives different bytes', None
    return None, f't ok {n} {len(b)} {m} {k} {sx(to_val(body, dmsg.record))} true'


def reenc_history(B, style, defs, k, v, tail, which, ops=None, rng=None, cap=0, labels=None):
    """Run a history on ONE message object of freshly built classes.  `which`: 'encoded' - the message built from `v`;
    'decoded' - the message object `from_bytes` returned for its encoding.  `ops` None: generate while running (`rng`, `cap`
    changes).  Returns (failure (index of the op, text, 'build' | 'enumerate' | 'change' | 'encode') or None, ops performed, body
    value at the start, observable entries)."""
    ind, body = defs[k]
    done, entries, actual0 = [], [], None
    try:
        base, classes = build_messages(B, None, style, defs)
        msg = classes[k]()
        rec = B.from_val(body, v, typed=True)
        for name in list(rec.values):
            setattr(msg, name, rec.values[name])
        if which == 'decoded':
            _, b0 = guarded_call(msg.to_bytes)
            _, msg = guarded_call(lambda: base.from_bytes(bytes(b0)))
        actual0 = to_val(body, msg.record)
    except Exception as e:  # noqa
        return (-1, f'building the {style} message raised {err_name(e)}: {e!s:.80}', 'build'), done, actual0, entries
    visited = set()
    todo = list(ops) if ops is not None else None
    n_changes = 0
    while True:
        if todo is not None:
            if not todo:
                break
            op = todo.pop(0)
        else:
            last_t = bool(done) and done[-1] == ['t']
            if not done or (not last_t and rng.random() < 0.85):
                op = ['t']
            elif n_changes >= cap:
                if last_t:
                    break
                op = ['t']
            else:
                try:
                    op = next_change(rng, B, body, msg, visited)
                except Exception as e:  # noqa
                    return (len(done), f'enumerating what the message holds raised {err_name(e)}: {e!s:.80}', 'enumerate'), done, actual0, entries
                if op is None:
                    if last_t:
                        break
                    op = ['t']
        done.append(op)
        i = len(done) - 1
        if op[0] == 'c':
            n_changes += 1
            try:
                if labels is not None:
                    labels.append(change_label(body, msg, op))
                apply_change(B, body, msg, op)
                entries.append('c ' + sx(to_val(body, msg.record)))
            except Exception as e:  # noqa
                return (i, f'the change {sx(op[1:])[:120]} through the typed attributes raised {err_name(e)}: {e!s:.80}', 'change'), done, actual0, entries
            continue
        try:
            now = to_val(body, msg.record)
            judge = in_domain(body, now)
            bad, entry = encode_and_read_back(base, classes, k, body, msg, tail, judge)
        except Exception as e:  # noqa
            bad, entry = f'round trip raised {err_name(e)}: {e!s:.80}', None
        if bad:
            nth = sum(1 for o in done if o == ['t'])
            prev = [sx(o[1:]) for o in done if o[0] == 'c']
            after = f' after the in-place change {prev[-1][:160]}' if prev else ''
            return (i, f'{which} message, to_bytes() call {nth}{after}: {bad}', 'encode'), done, actual0, entries
        entries.append(entry)
    return None, done, actual0, entries


def reenc_replay_dict(style, defs, k, v, tail, which, ops):
    reg = [[i, j, body[1:]] for j, (i, body) in enumerate(defs)]
    return {'kind': 'msg-reenc', 'style': style, 'reg': sx(reg), 'cls': k, 'val': sx(v), 'tail': tail.hex(), 'which': which,
            'ops': sx(ops)}


def reenc_from_replay(rep):
    reg = parse_sx(rep['reg'])[0]
    defs = [(int(i), ['record'] + [[int(n), ty_from_parsed(t), val_from_parsed(d)] for n, t, d in fs]) for i, _c, fs in reg]
    ops = ops_from_parsed(parse_sx(rep['ops'])[0]) if rep['ops'] != '()' else []
    return rep['style'], defs, int(rep['cls']), parse_val(rep['val']), bytes.fromhex(rep.get('tail', '')), rep.get('which', 'encoded'), ops


def restrict(ty, v, as_elem=False):
    """the value with everything dropped that the (smaller) schema has no place for"""
    k = kind(ty)
    if k in ('record', 'optrec') and v != 'none' and v[0] == 'r':
        ftypes = {n: fty for n, fty, _ in fields_of(ty)}
        return ['r'] + [[n, restrict(ftypes[n], x)] for n, x in v[1:] if n in ftypes]
    if k == 'arr' and v != 'none' and v[0] == 'l':
        return ['l'] + [restrict(elem_ty(ty[1]), x, True) for x in v[1:]]
    return v


def _drop_field(ty, tpath, name):
    """the schema without field `name` of the record the type path (field names; arrays are transparent) leads to"""
    k = kind(ty)
    if k == 'arr':
        return ['arr', _drop_field(ty[1], tpath, name)] + ty[2:]
    if not tpath:
        return [k] + [f for f in fields_of(ty) if f[0] != name]
    return [k] + [[n, _drop_field(fty, tpath[1:], name) if n == tpath[0] else fty, d] for n, fty, d in fields_of(ty)]


def _record_nodes(ty, tpath=()):
    k = kind(ty)
    if k == 'arr':
        yield from _record_nodes(ty[1], tpath)
    elif k in ('record', 'optrec'):
        yield tpath, ty
        for n, fty, _d in fields_of(ty):
            yield from _record_nodes(fty, tpath + (n,))


def shrink_reenc(B, style, defs, k, v, tail, which, ops, fails):
    """shorter history, single-class registry, fewer fields - keeping `fails(defs, k, v, ops)`"""
    import time
    deadline = time.time() + 20
    ind, body = defs[k]
    if len(defs) > 1 and fails([(ind, body)], 0, v, ops):
        defs, k = [(ind, body)], 0
    # the last change alone between two encodings, else drop ops one at a time
    last_c = max((i for i, o in enumerate(ops) if o[0] == 'c'), default=None)
    if last_c is not None and fails(defs, k, v, [['t'], ops[last_c], ['t']]):
        ops = [['t'], ops[last_c], ['t']]
    progress = True
    while progress and time.time() < deadline:
        progress = False
        for i in range(len(ops) - 1):
            cand = ops[:i] + ops[i + 1:]
            if time.time() > deadline:
                break
            if fails(defs, k, v, cand):
                ops, progress = cand, True
                break
    # fields no change goes through
    def used(ops):
        u = set()
        for o in ops:
            if o[0] != 'c':
                continue
            tp = tuple(int(st[1]) for st in o[1] if st[0] == 'f')
            for j in range(len(tp)):
                u.add((tp[:j], tp[j]))
            if o[2][0] == 'set':
                u.add((tp, int(o[2][1])))
        return u

    def retarget(body2, ops):
        out = []
        for o in ops:
            if o[0] != 'c':
                out.append(o)
                continue
            ty = ty_at(body2, o[1])
            mu = o[2]
            if mu[0] == 'set':
                fty = {n: fty for n, fty, _ in fields_of(ty)}[int(mu[1])]
                mu = ['set', mu[1], restrict(fty, mu[2])]
            elif mu[0] in ('append',):
                mu = [mu[0], restrict(elem_ty(ty[1]), mu[1], True)]
            elif mu[0] in ('setitem', 'insert'):
                mu = [mu[0], mu[1], restrict(elem_ty(ty[1]), mu[2], True)]
            elif mu[0] in ('extend', 'assign'):
                mu = [mu[0]] + [restrict(elem_ty(ty[1]), x, True) for x in mu[1:]]
            out.append(['c', o[1], mu])
        return out
    progress = True
    while progress and time.time() < deadline:
        progress = False
        ind, body = defs[k]
        u = used(ops)
        for tpath, node in _record_nodes(body):
            for n, _fty, _d in fields_of(node):
                if (tpath, n) in u or time.time() > deadline:
                    continue
                try:
                    body2 = _drop_field(body, list(tpath), n)
                    d2 = defs[:k] + [(ind, body2)] + defs[k + 1:]
                    v2, ops2 = restrict(body2, v), retarget(body2, ops)
                    if fails(d2, k, v2, ops2):
                        defs, v, ops, progress = d2, v2, ops2, True
                        break
                except Exception:  # noqa
                    continue
            if progress:
                break
    # values of the first assignment that are not needed
    for n in [n for n, _ in v[1:]]:
        v2 = ['r'] + [x for x in v[1:] if x[0] != n]
        if time.time() < deadline and fails(defs, k, v2, ops):
            v = v2
    return defs, k, v, ops


# ------------------------------------------------------------------ families of message classes declared by INHERITANCE
# "every message definition that can be composed" includes a message class derived from another registered message class
# (`class ReplaceOrder(EnterOrder, indicator=ord('U'))`) with a body that extends the parent's body, a body of its own, or the
# parent's body unchanged under another id; body records derived from body records.  Inheritance adds nothing to the wire format:
# a message is its OWN id byte followed by its OWN field list (Props/C01Inherit.lean) - but everything a class remembers (per-class
# caches, attributes looked up through the MRO) is remembered along the hierarchy, so what matters is WHICH class was used first.
# A case is a family (several classes alive in one application) plus a HISTORY of uses in some order; every history runs on freshly
# built classes.
#
#   fam  = {'style': itch|ouch|sqf, 'defs': [{'ind': id byte, 'parent': index of an earlier def | None,
#           'mode': 'own' | 'extend' | 'same', 'rec_inherit': bool, 'own': [[name, ty, default]...]}]}
#   hist = [{'k': def index, 'how': 'enc' | 'dec', 'val': abstract record value, 'tail': hex}]
#          enc: build, encode through the message, decode through the application;   dec: the first use of the class is DEcoding
#          (id byte + the body record's own encoding), then the decoded message is encoded
FAMILY_MODES = ('own', 'extend', 'same')


def family_body(fam, j):
    """the flat body record type of def j: its own field list, resolved through the hierarchy"""
    d = fam['defs'][j]
    if d['parent'] is None or d['mode'] == 'own':
        return ['record'] + d['own']
    if d['mode'] == 'same':
        return family_body(fam, d['parent'])
    return family_body(fam, d['parent']) + d['own']


def family_reg(fam):
    return [[d['ind'], j, family_body(fam, j)[1:]] for j, d in enumerate(fam['defs'])]


def build_family(B, fam):
    """(application base class, [message classes], [body record classes]) - new classes on every call"""
    from nasdaq_protocols import itch, ouch, sqf
    _, s = lib()
    style = fam['style']
    app = f'verif_fam_{style}_{next(_counter)}'
    core = {'itch': itch, 'ouch': ouch, 'sqf': sqf}[style]

    def init_subclass(cls, **kwargs):
        kwargs['app_name'] = app
        super(base, cls).__init_subclass__(**kwargs)
    base = type(f'VFam{next(_counter)}', (core.Message,), {'__init_subclass__': classmethod(init_subclass), '__test__': False},
                app_name=app)
    classes, bodies = [], []
    for d in fam['defs']:
        kw = {'indicator': d['ind']}
        if style != 'itch':
            kw['direction'] = 'outgoing'
        ns = {'__test__': False}
        p = d['parent']
        if p is not None and d['mode'] == 'same':
            body_cls = bodies[p]                       # no BodyRecord of its own: the parent's, under another id
        else:
            own = [s.Field(f'f{n}', B.build(fty), default_value=B.default_obj(fty, dv)) for n, fty, dv in d['own']]
            name = f'VBody{next(_counter)}'
            if p is not None and d['mode'] == 'extend':
                pb = bodies[p]
                if d.get('rec_inherit'):
                    body_cls = type(name, (pb,), {'Fields': pb.Fields + own, '__test__': False})
                else:
                    body_cls = type(name, (s.Record,), {'Fields': list(pb.Fields) + own, '__test__': False})
            else:
                body_cls = type(name, (s.Record,), {'Fields': own, '__test__': False})
            ns['BodyRecord'] = body_cls
        cls = type(f'VMsg{next(_counter)}', (classes[p] if p is not None else base,), ns, **kw)
        classes.append(cls)
        bodies.append(body_cls)
    return base, classes, bodies


def family_step(B, fam, base, classes, step):
    """one use of class k of a built family.  Returns (failure or None, observables or None);
    observables = (reported n, bytes, consumed, index of the decoded class, decoded record val, actual record val)"""
    k, v, tail = step['k'], step['val'], bytes.fromhex(step.get('tail', ''))
    body = family_body(fam, k)
    cls = classes[k]
    ind = fam['defs'][k]['ind']
    who = f'class {k}' + (f' (derived from class {fam["defs"][k]["parent"]})' if fam['defs'][k]['parent'] is not None else '')
    try:
        msg = cls()
        rec = B.from_val(body, v, typed=True)
        for name in list(rec.values):
            setattr(msg, name, rec.values[name])
        actual = to_val(body, msg.record)
        if step['how'] == 'dec':
            # first use of the class on the decoding side: id byte as declared + the body record's own encoding
            bn, bb = guarded_call(lambda: cls.BodyRecord.to_bytes(msg.record))
            b, n = bytes([ind]) + bytes(bb), 1 + bn
        else:
            n, b = guarded_call(msg.to_bytes)
            b = bytes(b)
        if n != len(b):
            return f'{who}: reported length {n} != {len(b)} bytes', None
        first = None
        for data in (b + tail, bytearray(b + tail)):
            m, dmsg = guarded_call(lambda: base.from_bytes(data))
            first = first or (m, dmsg)
            if type(dmsg) is not cls:
                other = classes.index(type(dmsg)) if type(dmsg) in classes else type(dmsg).__name__
                return f'{who} (id {ind}) was decoded as class {other}, not the class that was encoded (id byte on the wire: {b[0]})', None
            if m != len(b):
                return f'{who}: decode consumed {m} of {len(b)} bytes ({len(tail)} unrelated bytes follow)', None
            diff = reads_differ(body, msg.record, dmsg.record)
            for name_idx, fty, _d in body[1:]:
                diff = diff or reads_differ(fty, getattr(msg, f'f{name_idx}'), getattr(dmsg, f'f{name_idx}'), f'msg.f{name_idx}')
            if diff:
                return f'{who}: field reads back different: {diff}', None
            rn, rb = guarded_call(dmsg.to_bytes)
            if bytes(rb) != b or rn != n:
                return f'{who}: re-encoding the decoded message gives different bytes ({bytes(rb)[:12].hex()}… vs {b[:12].hex()}…)', None
        bm, brec = guarded_call(lambda: cls.BodyRecord.from_bytes(b[1:] + tail))
        if bm != len(b) - 1 or reads_differ(body, msg.record, brec):
            return f'{who}: BodyRecord.from_bytes on the message body does not return the encoded record', None
        m, dmsg = first
        return None, (n, b, m, classes.index(type(dmsg)), sx(to_val(body, dmsg.record)), actual)
    except Exception as e:  # noqa
        return f'{who}: message round trip raised {err_name(e)}: {e!s:.80}', None


def family_history(B, fam, hist):
    """run a history on freshly built classes: (index of the first failing step, failure) or None, and the observables of the
    steps that passed"""
    try:
        base, classes, _ = build_family(B, fam)
    except Exception as e:  # noqa
        return (-1, f'defining the {fam["style"]} message classes raised {err_name(e)}: {e!s:.80}'), []
    obs = []
    for i, st in enumerate(hist):
        bad, o = family_step(B, fam, base, classes, st)
        if bad:
            return (i, bad), obs
        obs.append(o)
    return None, obs


def gen_family(rng):
    style = rng.choice(['itch', 'ouch', 'sqf'])
    n = rng.choice([2, 2, 3, 3, 4, 5])
    inds = rng.sample(range(256), n)
    defs = []
    for j in range(n):
        own = gen_record_ty(rng, 'record', rng.choice([0, 0, 1, 2]), rng.randint(1, 4))[1:]
        own = [[100 * j + nm, fty, d] for nm, fty, d in own]          # names unique along every chain
        parent, mode = None, 'own'
        if j > 0 and rng.random() < 0.75:
            parent = rng.randrange(j) if rng.random() < 0.5 else j - 1   # chains (grandchildren) as well as siblings
            mode = rng.choice(['extend', 'extend', 'extend', 'own', 'same'])
        defs.append({'ind': inds[j], 'parent': parent, 'mode': mode, 'rec_inherit': rng.random() < 0.5,
                     'own': [] if mode == 'same' else own})
    return {'style': style, 'defs': defs}


def gen_family_step(rng, fam, k, how=None):
    import c01
    return {'k': k, 'how': how or rng.choice(['enc', 'enc', 'dec']), 'val': gen_val(rng, family_body(fam, k)),
            'tail': c01.gen_tail(rng).hex()}


def family_orders(rng, fam):
    """the orders of first use: definition order (every parent before its children), the reverse (every child before its parent),
    and a shuffle with repeats"""
    n = len(fam['defs'])
    fwd = list(range(n))
    mix = [rng.randrange(n) for _ in range(rng.randint(n, 2 * n))]
    return [('parents-first', fwd + fwd[::-1]), ('children-first', fwd[::-1] + fwd), ('mixed', mix)]


def family_replay_dict(fam, hist, kind_='msg-family'):
    return {'kind': kind_, 'style': fam['style'],
            'defs': [dict(d, own=sx(d['own'])) for d in fam['defs']],
            'hist': [dict(st, val=sx(st['val'])) for st in hist]}


def family_from_replay(rep):
    defs = []
    for d in rep['defs']:
        own = [[int(n), ty_from_parsed(t), val_from_parsed(dv)] for n, t, dv in parse_sx(d['own'])[0]] if d['own'] != '()' else []
        defs.append(dict(d, own=own))
    hist = [dict(st, val=parse_val(st['val'])) for st in rep['hist']]
    return {'style': rep['style'], 'defs': defs}, hist


def shrink_family(B, fam, hist, fails):
    """fewer steps, fewer classes, fewer fields, empty values - keeping `fails(fam, hist)`"""
    import time
    deadline = time.time() + 20

    def drop_def(fam, hist, j):
        if any(d['parent'] == j for d in fam['defs']) or any(st['k'] == j for st in hist):
            return None
        ren = lambda x: x if x < j else x - 1
        defs = [dict(d, parent=None if d['parent'] is None else ren(d['parent'])) for i, d in enumerate(fam['defs']) if i != j]
        return dict(fam, defs=defs), [dict(st, k=ren(st['k'])) for st in hist]

    def cands(fam, hist):
        for i in range(len(hist)):
            yield fam, hist[:i] + hist[i + 1:]
        for j in range(len(fam['defs'])):
            r = drop_def(fam, hist, j)
            if r:
                yield r
        for i, st in enumerate(hist):
            if st['val'] != ['r']:
                yield fam, hist[:i] + [dict(st, val=['r'])] + hist[i + 1:]
            if st.get('tail'):
                yield fam, hist[:i] + [dict(st, tail='')] + hist[i + 1:]
        for j, d in enumerate(fam['defs']):
            for f in range(len(d['own'])):
                nm = d['own'][f][0]
                defs = fam['defs'][:j] + [dict(d, own=d['own'][:f] + d['own'][f + 1:])] + fam['defs'][j + 1:]
                h2 = [dict(st, val=['r'] + [x for x in st['val'][1:] if x[0] != nm]) for st in hist]
                yield dict(fam, defs=defs), h2
    progress = True
    while progress and time.time() < deadline:
        progress = False
        for f2, h2 in cands(fam, hist):
            if time.time() > deadline:
                break
            try:
                if h2 and fails(f2, h2):
                    fam, hist, progress = f2, h2, True
                    break
            except Exception:  # noqa
                continue
    return fam, hist
