"""C07 — hostile input cannot wedge a session.

Two layers: the session-machine family (harness/sess_checks.py, Model/Session.lean, Props/C07.lean: a malformed frame is the token
`bad`) and the byte level (harness/sess_hostile.py: real malformed / extreme frames of every class fed to soup client, soup server
and FIX sessions through a transport with flow control; Model/Framing.lean, Props/C07Framing.lean)."""
import json

import sess_checks
import sess_hostile

DRIVER = 'drv_C05'
LEAN_TARGETS = ['NasdaqModel.Props.C07', 'drv_C05', 'drv_C03']


def run(ctx):
    sess_checks.run_family(ctx, 'C07')
    sess_hostile.run_hostile(ctx)


def replay(ctx, path):
    r = json.load(open(path))
    rep = r.get('replay') or (r.get('no_longer_checks') or [{}])[-1].get('case') or r
    if isinstance(rep, dict) and rep.get('kind') == 'hostile':
        sess_hostile.replay_hostile(ctx, rep)
        return
    sess_checks.replay_family(ctx, 'C07', path)
