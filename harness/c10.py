"""C10 — sequence numbers count exactly the messages that consume them.

Real sessions (soup server, soup client, FIX) are driven without sockets on the virtual-time loop with a FakeTransport.
A *history* is a list of operations (sends of every kind incl. failing ones, explicit heartbeats, closes, virtual time passing
so that the heartbeat monitors fire).  Every write the library makes on its own while time passes (automatic heartbeats, the
server's login reply) is turned into a model operation at the place where it happened, so the model sees the same interleaving.

  correspondence  Model/Seq.lean through drv_C10: per operation the exception class and `session.sequence`, and the exact
                  list of writes (soup); per operation outcome (written n / rejected / encode error), the counter, tag 34 of
                  every frame (FIX)
  oracle          the statement, on the implementation alone: counter == initial + number of 'S' packets written after every
                  operation; client adopts the stated number; k-th FIX frame carries logon+k; a send rejected by validation
                  writes nothing and leaves the counter alone
"""
import asyncio
import importlib.util
import json
import os
import re

import common
from common import sx, cps, err_name

import vloop

DRIVER = 'drv_C10'
HB = 0.004            # heartbeat interval used in scripts (virtual seconds)
SOH = b'\x01'

KNOWN_LOCAL = []      # C10-encode-failure-gap is repaired in /repo 9c458df (recorded as `fixed`, suppresses nothing)


class Runaway(Exception):
    """a history did not finish within the iteration budget (would be a hang / an endless virtual wait)"""


class GuardedLoop(vloop.VirtualLoop):
    LIMIT = 400_000          # loop iterations per history (a normal history needs a few thousand)

    def _run_once(self):
        if self.iterations > self.LIMIT:
            raise Runaway(f'more than {self.LIMIT} loop iterations (virtual time {self._vt:.3f}s)')
        super()._run_once()


def run_guarded(loop, coro):
    """loop.run(coro); anything escaping (CancelledError included) is returned as a name, never raised"""
    try:
        loop.run(coro)
        return None
    except (KeyboardInterrupt, SystemExit):
        raise
    except BaseException as e:  # noqa
        return 'runaway' if isinstance(e, Runaway) else err_name(e)
    finally:
        try:
            loop.LIMIT = loop.iterations + 50_000
            loop.shutdown()
        except BaseException:  # noqa
            pass


def report(ctx, what, replay):
    """ctx.violation, after the locally known findings (until the coordinator has registered them)"""
    for k in KNOWN_LOCAL:
        if common.matches_known(k, replay):
            if k['id'] not in [x[0] for x in ctx.known_hits]:
                ctx.known_hits.append((k['id'], k['what']))
            return
    ctx.violation(what, replay)


# =====================================================================================================================
# soup
# =====================================================================================================================
def soup():
    from nasdaq_protocols import soup as s
    return s


def c12():
    import c12 as m
    return m


def soup_pkt(t):
    return c12().sx_to_pkt(t)


def gen_soup_pkt(rng, big=False):
    """packet (c12 s-expression form) for a send; includes packets whose encoding fails"""
    c = rng.random()
    data = lambda: bytes(rng.randrange(256) for _ in range(rng.choice([0, 1, 1, 2, 3, 8])))
    if c < 0.36:
        if big and rng.random() < 0.3:
            return ['seqData', bytes(rng.choice([32766, 32767, 32768, 40000]))]
        d = data()
        if rng.random() < 0.25:      # payload that looks like another packet
            d = bytes([0, 1, rng.choice(b'SHRZ+')]) + d
        return ['seqData', d]
    if c < 0.48:
        return ['unseqData', data() if rng.random() < 0.7 else b'\x00\x02S' + data()]
    if c < 0.60:
        txt = rng.choice(['', 'S', 'hello', 'SSS', 'hé', '€', 'a b'])
        return ['debug', cps(txt)]
    if c < 0.66:
        return ['loginAcc', cps(rng.choice(['', 'sess', 'S'])), rng.choice([0, 1, 7, 10 ** 19, -2])]
    if c < 0.72:
        return ['loginRej', rng.choice([65, 83])]
    if c < 0.76:
        return ['loginReq', cps(rng.choice(['u', 'S', 'usé'])), cps('p'), cps(''), cps(str(rng.randint(0, 50)))]
    return rng.choice(['clientHb', 'serverHb', 'endOfSession', 'logoutReq', 'serverHb', 'clientHb'])


def gen_init(rng):
    c = rng.random()
    if c < 0.35:
        return rng.choice([0, 1, 1, 2, 9, 10 ** 19, 10 ** 20 - 1, 2 ** 63 - 1, 2 ** 64, -1, -5])
    return rng.randint(0, 10 ** rng.randint(1, 18))


def gen_soup_ops(rng, role, n, big):
    ops = []
    for _ in range(n):
        c = rng.random()
        if c < 0.30:
            ops.append(['send', gen_soup_pkt(rng, big)])
        elif c < 0.42 and role == 'server':
            d = bytes(rng.randrange(256) for _ in range(rng.choice([0, 1, 2, 5])))
            if big and rng.random() < 0.1:
                d = bytes(rng.choice([32766, 32767]))
            ops.append([rng.choice(['seq_bytes', 'seq_obj']), d])
        elif c < 0.42:
            ops.append(['unseq', bytes(rng.randrange(256) for _ in range(rng.choice([0, 1, 4])))])
        elif c < 0.50:
            ops.append(['debug', cps(rng.choice(['x', '', 'S', 'débug', 'ok ok']))])
        elif c < 0.62:
            ops.append(['hb'])
        elif c < 0.80:
            ops.append(['advance', rng.choice([1, 1, 2, 3, 5])])       # in units of HB/2
        elif c < 0.86 and role == 'server':
            ops.append(['feed_login', rng.choice(['acc', 'acc', 'rej']), rng.choice([0, 1, 5, 10 ** 10])])
        elif c < 0.90:
            ops.append([rng.choice(['end', 'logout'])] if role == 'server' else ['logout'])
        elif c < 0.95:
            ops.append(['close'])
        else:
            ops.append(['lost'])
    return ops


def obs_to_model_op(role, w):
    """a write the library made on its own -> the model operation that produces it"""
    t = w[2:3]
    if (role == 'server' and w == b'\x00\x01H') or (role == 'client' and w == b'\x00\x01R'):
        return 'hb'
    try:
        return ['send', c12().pkt_to_sx(soup().SoupMessage.from_bytes(w)[1])]
    except Exception:  # noqa
        return ['send', ['unseqData', b'?' + t]]      # cannot happen with a sane library; forces a visible disagreement


async def apply_soup_op(session, tr, role, op, state):
    """run one operation on the real session; returns (exception name or 'none', model ops it corresponds to)"""
    s = soup()
    k = op[0]
    before = len(tr.writes)
    err = 'none'
    explicit = None
    try:
        if k == 'send':
            explicit = ['send', op[1]]
            session.send_msg(soup_pkt(op[1]))
        elif k == 'seq_bytes':
            explicit = ['send', ['seqData', op[1]]]
            session.send_seq_msg(op[1])
        elif k == 'seq_obj':
            explicit = ['send', ['seqData', op[1]]]
            session.send_seq_msg(s.SequencedData(op[1]))
        elif k == 'unseq':
            explicit = ['send', ['unseqData', op[1]]]
            session.send_unseq_data(op[1])
        elif k == 'debug':
            explicit = ['send', ['debug', op[1]]]
            session.send_debug(''.join(chr(c) for c in op[1]))
        elif k == 'hb':
            explicit = 'hb'
            await session.send_heartbeat()
        elif k == 'end':
            explicit = 'end'
            session.end_session()
        elif k == 'logout':
            explicit = 'logout'
            session.logout()
        elif k == 'close':
            explicit = 'close'
            await session.close()
        elif k == 'lost':
            explicit = 'close'
            session.connection_lost(None)
        elif k == 'advance':
            await asyncio.sleep(op[1] * HB / 2)
        elif k == 'feed_login':
            state['reply'] = (op[1], op[2])
            session.data_received(s.LoginRequest('u', 'p', '', '1').to_bytes()[1])
            await asyncio.sleep(HB / 8)
        else:
            raise ValueError(k)
    except Exception as e:  # noqa
        err = err_name(e)
    if explicit == 'close':
        err = 'none'          # what close() raises is not a C10 observable (C05/C07)
    new = [w for _, w in tr.writes[before:]]
    mops = []
    if explicit is not None:
        mops.append(explicit)
        if explicit not in ('close',) and err == 'none':
            new = new[1:]                      # the explicit operation's own write
    mops += [obs_to_model_op(role, w) for w in new]
    return err, mops


def soup_model_request(role, connected, init, login, mops):
    ops = [m if isinstance(m, str) else ['send', m[1]] for m in mops]
    if login is None:
        return f'seq.soup {role} {sx(connected)} {init} {sx(ops)}'
    req, replies = login
    return f'seq.client {sx(connected)} {init} {sx(req)} {sx(list(replies))} {sx(ops)}'


def make_server_cls():
    s = soup()

    class Srv(s.SoupServerSession):
        reply_state = None

        async def on_login(self, msg):
            kind, q = self.reply_state['reply']
            return s.LoginAccepted('sess', q) if kind == 'acc' else s.LoginRejected('A')

        async def on_unsequenced(self, msg):
            return None
    return Srv


def run_soup_history(h):
    """h = {'role','init','connected','ops', 'login'?: {'req':pkt,'replies':[hex...]}}
    returns dict(trace=[(err, seq, n_model_ops)], mops=[...], writes=[bytes], login=(err, accepted, seq))"""
    role = h['role']
    loop = GuardedLoop()
    out = {'trace': [], 'mops': [], 'writes': [], 'login': None, 'seq_after': []}

    async def main():
        s = soup()
        tr = vloop.FakeTransport(loop)
        state = {'reply': ('acc', 1)}
        kw = dict(sequence=h['init'], client_heartbeat_interval=HB, server_heartbeat_interval=HB)
        if role == 'server':
            cls = make_server_cls()
            session = cls(**kw)
            session.reply_state = state
        else:
            session = s.SoupClientSession(**kw)
        if h.get('connected', True):
            session.connection_made(tr)
        out['initial_seq'] = session.sequence
        if h.get('login') is not None:
            lg = h['login']
            err, acc = 'none', False
            task = asyncio.ensure_future(session.login(soup_pkt(lg['req'])))
            await vloop.turns(2)
            if not task.done():
                for fr in lg['replies']:
                    session.data_received(bytes.fromhex(fr))
                    await asyncio.sleep(0.0003)
            try:
                await asyncio.wait_for(task, HB / 4)
                acc = True
            except Exception as e:  # noqa
                err = err_name(e)
            out['login'] = (err, acc, session.sequence)
            out['login_writes'] = len(tr.writes)
        for op in h['ops']:
            err, mops = await apply_soup_op(session, tr, role, op, state)
            out['trace'].append((err, session.sequence, len(mops)))
            out['mops'] += mops
            out['seq_after'].append((session.sequence, len(tr.writes)))
        out['writes'] = [w for _, w in tr.writes]
        try:
            await session.close()
        except BaseException:  # noqa
            pass

    out['escaped'] = run_guarded(loop, main())
    return out


def count_s(writes):
    return sum(1 for w in writes if w[2:3] == b'S')


def soup_oracle(h, out):
    """the statement on the implementation alone; returns a description of the first failure or None"""
    init = h['init']
    base_writes = 0
    if h.get('login') is not None:
        err, acc, seq = out['login']
        stated = h['login'].get('stated')
        if stated is not None:
            if not acc:
                return f'login acceptance stating sequence {stated} was not accepted ({err})'
            if seq != stated:
                return f'client adopted sequence {seq!r}, the login acceptance states {stated}'
        if acc:
            init = seq
            base_writes = out['login_writes']
        elif seq != h['init']:
            return f'login was not accepted but the counter moved from {h["init"]} to {seq!r}'
    for i, (seq, nw) in enumerate(out['seq_after']):
        exp = init + count_s(out['writes'][base_writes:nw])
        if seq != exp:
            return (f'after operation {i} {h["ops"][i][0]}: counter {seq!r}, expected {init} + '
                    f'{count_s(out["writes"][base_writes:nw])} sequenced packets written = {exp}')
    return None


def soup_compare(h, out, ans):
    """correspondence: model answer vs implementation; returns description or None"""
    p = common.parse_sx(ans)
    if p[0] != 'ok':
        return f'model answered {ans[:80]}'
    if h.get('login') is not None:
        merr, macc, mseq, mtrace, mwrites = p[1], p[2], p[3], p[4], p[5]
        err, acc, seq = out['login']
        if (macc == 'true') != acc or str(seq) != mseq:
            return f'login: model (accepted={macc}, seq={mseq}) vs implementation (accepted={acc}, seq={seq}, {err})'
        if merr != 'none' and merr != err:
            return f'login send: model raises {merr}, implementation {err}'
    else:
        mtrace, mwrites = p[1], p[2]
    i = 0
    for n, (err, seq, k) in enumerate(out['trace']):
        if k == 0:
            continue
        grp = mtrace[i:i + k]
        i += k
        if len(grp) != k:
            return 'model trace shorter than the implementation trace'
        if grp[0][0] != err:
            return f'operation {n} {h["ops"][n][0]}: model raises {grp[0][0]}, implementation {err}'
        if grp[-1][1] != str(seq):
            return f'operation {n} {h["ops"][n][0]}: model counter {grp[-1][1]}, implementation {seq}'
    got = ['x' + w.hex() for w in out['writes']]
    if got != mwrites:
        return f'writes differ: model {len(mwrites)} packets, implementation {len(got)}'
    return None


def h_json(h):
    """JSON-able form of a soup history"""
    def enc(x):
        if isinstance(x, (bytes, bytearray)):
            return {'hex': bytes(x).hex()}
        if isinstance(x, (list, tuple)):
            return [enc(e) for e in x]
        if isinstance(x, dict):
            return {k: enc(v) for k, v in x.items()}
        return x
    return enc(h)


def h_unjson(x):
    if isinstance(x, dict) and set(x) == {'hex'}:
        return bytes.fromhex(x['hex'])
    if isinstance(x, list):
        return [h_unjson(e) for e in x]
    if isinstance(x, dict):
        return {k: h_unjson(v) for k, v in x.items()}
    return x


def shrink_soup(h, failing):
    """remove operations while `failing(history)` stays true"""
    h = dict(h)
    ops = list(h['ops'])
    i = 0
    while i < len(ops):
        cand = dict(h, ops=ops[:i] + ops[i + 1:])
        try:
            bad = failing(cand)
        except Exception:  # noqa
            bad = False
        if bad:
            ops = cand['ops']
        else:
            i += 1
    return dict(h, ops=ops)


def check_soup_history(ctx, h, ans_for=None):
    """run, oracle, correspondence.  `ans_for(request)` asks the model (None when unavailable)"""
    try:
        out = run_soup_history(h)
    except Exception as e:  # noqa
        report(ctx, f'soup history crashed the harness driver of the library: {err_name(e)}: {e}',
               {'kind': 'soup-history', 'history': h_json(h)})
        return
    if out.get('escaped'):
        ctx.count('history-did-not-complete:' + out['escaped'])
        ctx.disagree(f'soup {h["role"]}: the history did not run to its end on the implementation ({out["escaped"]})',
                     {'kind': 'soup-history', 'history': h_json(h)})
    bad = soup_oracle(h, out)
    if bad and len(ctx.violations) >= 3:
        report(ctx, f'soup {h["role"]}: {bad}', {'kind': 'soup-history', 'history': h_json(h)})      # not shrunk
    elif bad:
        def failing(c):
            return soup_oracle(c, run_soup_history(c)) is not None
        m = shrink_soup(h, failing)
        bad = soup_oracle(m, run_soup_history(m)) or bad
        report(ctx, f'soup {h["role"]}: {bad}', {'kind': 'soup-history', 'history': h_json(m)})
    if ans_for is not None:
        lg = h.get('login')
        req = soup_model_request(h['role'], h.get('connected', True), h['init'],
                                 None if lg is None else (lg['req'], [bytes.fromhex(x) for x in lg['replies']]),
                                 out['mops'])
        ans = ans_for(req)
        d = soup_compare(h, out, ans)
        if d:
            ctx.disagree(f'soup {h["role"]}: {d}', {'kind': 'soup-history', 'history': h_json(h)})
    return out


# ---- login acceptance frames, written from the protocol description
def login_accepted_frame(session, field20):
    assert len(field20) == 20 and len(session) == 10
    return b'\x00\x1fA' + session + field20


def gen_login(rng):
    """returns dict(req=pkt, replies=[hex], stated=int or None)"""
    req = ['loginReq', cps(rng.choice(['u', 'user', 'S'])), cps('pw'), cps(rng.choice(['', 'sess'])),
           cps(str(rng.choice([0, 1, 1, 5, 10 ** 9])))]
    if rng.random() < 0.04:
        req[1] = cps('usér')                 # request cannot be encoded: login raises, nothing adopted
    replies = [b'\x00\x01H'] * rng.choice([0, 0, 0, 1, 2])
    stated = None
    sess = rng.choice([b'sess      ', b'          ', b'S S S     ', b'ABCDEFGHIJ'])
    c = rng.random()
    if c < 0.62:
        q = rng.choice([0, 1, 2, 9, 10, 99, 12345, 10 ** 19, 10 ** 20 - 1, 2 ** 63, 2 ** 64 - 1]) if rng.random() < 0.5 \
            else rng.randint(0, 10 ** rng.randint(1, 20) - 1)
        d = str(q).encode()
        form = rng.choice(['ljust', 'rjust', 'zero', 'nul-right', 'nul-left', 'mid'])
        if form == 'ljust':
            f = d.ljust(20)
        elif form == 'rjust':
            f = d.rjust(20)
        elif form == 'zero':
            f = d.rjust(20, b'0')
        elif form == 'nul-right':
            f = d.ljust(20, b'\x00')
        elif form == 'nul-left':
            f = d.rjust(20, b'\x00')
        else:
            k = rng.randint(0, 20 - len(d))
            f = (b' ' * k + d).ljust(20)
        replies.append(login_accepted_frame(sess, f))
        stated = q
    elif c < 0.74:      # unusual spellings int() accepts or rejects: agreement model/implementation only
        f = rng.choice([b'+5', b'-3', b'1_0', b'1__0', b'_1', b' 1 2', b'0x10', b'', b'12a', b'1.0', b'\t7', b'7\n',
                        b'\x1f8', b'1 ' + b'\x00' * 3 + b'2'])
        replies.append(login_accepted_frame(sess, f.ljust(20)))
    elif c < 0.82:
        replies.append(b'\x00\x02J' + rng.choice([b'A', b'S']))
    elif c < 0.88:
        replies.append(rng.choice([b'\x00\x03+hi', b'\x00\x02S\x00', b'\x00\x02U\x00', b'\x00\x01Z', b'\x00\x01O']))
    elif c < 0.93:
        replies.append(b'\x00\x1eA' + sess + b'7'.ljust(19))        # acceptance of the wrong length
    elif c < 0.97:
        pass                                                            # no reply at all
    else:
        replies.append(b'\x00\x02?' + b'x')
    if rng.random() < 0.3 and (c < 0.62 or 0.74 <= c < 0.88 or 0.93 <= c < 0.97):
        # a later acceptance does not matter, unless it is the first real reply
        # (not added after an undecodable frame: what the reader does then is C07's subject)
        replies.append(login_accepted_frame(b'late      ', b'424242'.ljust(20)))
        if c >= 0.93:
            stated = 424242
    if not all(ch < 128 for ch in req[1]):
        stated = None                         # the request itself cannot be sent: outside the quantifier
    return {'req': req, 'replies': [r.hex() for r in replies], 'stated': stated}


# =====================================================================================================================
# FIX
# =====================================================================================================================
_FIX = {}


def fixenv():
    """the test-suite dictionary of the repository under test + two application messages built from its parts"""
    if _FIX:
        return _FIX
    from nasdaq_protocols import fix
    path = os.path.join(common.REPO, 'tests', 'fix_messages.py')
    spec = importlib.util.spec_from_file_location('c10_fix_messages', path)
    fm = importlib.util.module_from_spec(spec)
    spec.loader.exec_module(fm)

    class C10Order(fix.Message, Name='C10Order', Type='D', Category='app',
                   HeaderCls=fm.Header, BodyCls=fm.DataSegment_1, TrailerCls=fm.Trailer):
        ...

    # a message whose header and trailer carry application-set text too (optional fields and a repeating group in the header, an
    # optional text field in the trailer): every segment can be the one that cannot be serialised
    class C10OnBehalfOfCompID(fix.Field, Tag=115, Name='C10OnBehalfOfCompID', Type=fix.FixString):
        ...

    class C10NoHops(fix.Field, Tag=627, Name='C10NoHops', Type=fix.FixInt):
        ...

    class C10HopRefID(fix.Field, Tag=630, Name='C10HopRefID', Type=fix.FixInt):
        ...

    class C10HopCompID(fix.Field, Tag=628, Name='C10HopCompID', Type=fix.FixString):
        ...

    class C10SignatureText(fix.Field, Tag=89, Name='C10SignatureText', Type=fix.FixString):
        ...

    class C10Hop(fix.Group):
        Entries = [fix.Entry(C10HopRefID, True), fix.Entry(C10HopCompID, False)]

    class C10Hops(fix.GroupContainer, CountCls=C10NoHops, GroupCls=C10Hop):
        ...

    class C10Header(fix.DataSegment):
        Entries = list(fm.Header.Entries) + [fix.Entry(C10OnBehalfOfCompID, False), fix.Entry(C10Hops, False)]

    class C10Trailer(fix.DataSegment):
        Entries = list(fm.Trailer.Entries) + [fix.Entry(C10SignatureText, False)]

    class C10Wide(fix.Message, Name='C10Wide', Type='W', Category='app',
                  HeaderCls=C10Header, BodyCls=fm.DataSegment_1, TrailerCls=C10Trailer):
        ...

    _FIX.update(fix=fix, fm=fm, Order=C10Order, Wide=C10Wide)
    return _FIX


def fix_build(spec, comp_ascii=True):
    """message spec -> (message object, valid, encodable)   [valid / encodable computed here, not by the library]
    spec = {'cls': 'Login'|'Nope'|'Order'|'Wide'|'Heartbeat', 'user': str|None, 'f1': int|None, 'f2': str|None, 'group': [..]|None,
            'hdr': {field name: value} (application-set header fields; every class has the optional TargetSubID, Wide also
            C10OnBehalfOfCompID), 'hops': [[ref, comp|None]..] (Wide: repeating group in the header), 'trl': {C10SignatureText: text}}"""
    msg, valid, segs = fix_build_segments(spec, comp_ascii)
    return msg, valid, all(segs)


def fix_build_segments(spec, comp_ascii=True):
    """-> (message object, body valid, (header encodable, body encodable, trailer encodable))"""
    env = fixenv()
    fix, fm = env['fix'], env['fm']
    seg = fix.MessageSegments
    cls = {'Login': fm.Login, 'Nope': fm.Nope, 'Heartbeat': fm.Heartbeat, 'Order': env['Order'], 'Wide': env['Wide']}[spec['cls']]
    body = {}
    texts = {'hdr': [], 'body': [], 'trl': []}
    if spec['cls'] in ('Order', 'Wide'):
        if spec.get('f1') is not None:
            body['Field_1_Int'] = spec['f1']
        if spec.get('f2') is not None:
            body['Field_2_Str'] = spec['f2']
            texts['body'].append(spec['f2'])
        if spec.get('group') is not None:
            body['Field_22_Int'] = [dict(Field_1_Int=g[0], **({'Field_2_Str': g[1]} if g[1] is not None else {}))
                                    for g in spec['group']]
            texts['body'] += [g[1] for g in spec['group'] if g[1] is not None]
        valid = spec.get('f1') is not None and spec.get('f2') is not None
    else:
        if spec.get('user') is not None:
            body['Username'] = spec['user']
            texts['body'].append(spec['user'])
        valid = True
    hdr, trl = {}, {}
    if spec.get('hdr'):
        hdr = dict(spec['hdr'])
        texts['hdr'] += [v for v in hdr.values() if isinstance(v, str)]
    if spec.get('hops') is not None:
        hdr['C10NoHops'] = [dict(C10HopRefID=g[0], **({'C10HopCompID': g[1]} if g[1] is not None else {})) for g in spec['hops']]
        texts['hdr'] += [g[1] for g in spec['hops'] if g[1] is not None]
    if spec.get('trl'):
        trl = dict(spec['trl'])
        texts['trl'] += [v for v in trl.values() if isinstance(v, str)]
    msg = cls({seg.HEADER: hdr, seg.BODY: body, seg.TRAILER: trl} if trl else {seg.HEADER: hdr, seg.BODY: body})
    enc = tuple(all(t.isascii() for t in texts[k]) for k in ('hdr', 'body', 'trl'))
    return msg, valid, (enc[0] and comp_ascii, enc[1], enc[2])


def tag34(frame):
    for f in frame.split(SOH):
        if f.startswith(b'34='):
            try:
                return int(f[3:])
            except ValueError:
                return f[3:].decode('latin-1')
    return None


def msgtype(frame):
    for f in frame.split(SOH):
        if f.startswith(b'35='):
            return f[3:]
    return None


def peek_counter(session):
    q = session.sequence
    m = re.fullmatch(r'count\((-?\d+)\)', repr(q))
    if m:
        return int(m.group(1))
    if isinstance(q, int):
        return ('int', q)
    return ('?', repr(q)[:30])


def logon_reply_frame(begin=b'FIX.4.4', mtype=b'L'):
    body = b'35=' + mtype + SOH + b'34=1' + SOH + b'49=SERVER' + SOH + b'56=CLIENT' + SOH + b'52=20240101-00:00:00' + SOH
    head = b'8=' + begin + SOH + b'9=' + str(len(body)).encode() + SOH
    data = head + body
    return data + b'10=' + str(sum(data) % 256).rjust(3, '0').encode() + SOH


def gen_fix_msg(rng):
    """a message for send_msg: accepted / rejected by validation (a required body field missing) / valid but not serialisable —
    and then the text that cannot be encoded sits in the body, in a body group instance, in an application-set HEADER field, in
    a header group instance or in the TRAILER (each alone and combined; also together with a body that fails validation)"""
    c = rng.random()
    bad_txt = lambda: rng.choice(['café', '€', 'naïve', '中'])
    good_hdr = lambda: rng.choice([None, None, {'TargetSubID': 'DESK'}])
    if c < 0.22:
        m = {'cls': rng.choice(['Login', 'Nope']), 'user': rng.choice([None, 'user', 'x y'])}
    elif c < 0.29:
        m = {'cls': rng.choice(['Login', 'Nope']), 'user': bad_txt()}
    elif c < 0.43:
        m = {'cls': rng.choice(['Order', 'Wide']), 'f1': rng.randint(-5, 99), 'f2': rng.choice(['abc', '', 'x=y'])}
    elif c < 0.50:
        g = [[rng.randint(0, 9), rng.choice([None, 'g'])] for _ in range(rng.randint(0, 2))]
        m = {'cls': rng.choice(['Order', 'Wide']), 'f1': 1, 'f2': 'grp', 'group': g}
    elif c < 0.64:     # rejected by validation (a required body field missing)
        m = {'cls': rng.choice(['Order', 'Wide']), 'f1': rng.choice([None, 7]), 'f2': None if rng.random() < 0.6 else 'z'} \
            if rng.random() < 0.5 else {'cls': rng.choice(['Order', 'Wide']), 'f1': None, 'f2': rng.choice([None, 'only2', bad_txt()])}
        if rng.random() < 0.25:      # …and a header / trailer that could not be serialised either: still "rejected", nothing consumed
            m['hdr'] = {'TargetSubID': bad_txt()}
    elif c < 0.71:     # valid, body cannot be encoded
        m = {'cls': rng.choice(['Order', 'Wide']), 'f1': 3, 'f2': bad_txt()}
    elif c < 0.76:     # … inside a body group instance
        m = {'cls': rng.choice(['Order', 'Wide']), 'f1': 4, 'f2': 'ok', 'group': [[1, 'g']] * rng.randint(0, 1) + [[1, bad_txt()]]}
    elif c < 0.86:     # valid body, an application-set header field cannot be encoded (every message class has TargetSubID)
        m = rng.choice([{'cls': rng.choice(['Login', 'Nope']), 'user': rng.choice([None, 'user'])},
                        {'cls': rng.choice(['Order', 'Wide']), 'f1': 5, 'f2': 'hdr'}])
        m['hdr'] = {'TargetSubID': bad_txt()}
    else:              # the wide message: header field / header group instance / trailer
        m = {'cls': 'Wide', 'f1': 6, 'f2': 'wide'}
        where = rng.choice(['hdr', 'hops', 'trl', 'trl', 'hdr+trl', 'none'])
        if 'hdr' in where:
            m['hdr'] = {'C10OnBehalfOfCompID': bad_txt()}
        if where == 'hops':
            m['hops'] = [[1, 'HOP']] * rng.randint(0, 1) + [[2, bad_txt()]]
        if 'trl' in where:
            m['trl'] = {'C10SignatureText': bad_txt()}
        if where == 'none':
            m.update(hdr={'C10OnBehalfOfCompID': 'FIRM'}, hops=[[1, 'HOP'], [2, None]], trl={'C10SignatureText': 'sig'})
    if 'hdr' not in m and good_hdr():
        m['hdr'] = {'TargetSubID': 'DESK'}
    return m


def gen_fix_history(rng, n):
    q = rng.choice([0, 1, 1, 2, 5, 100, 10 ** 9, 10 ** 18, -4]) if rng.random() < 0.6 else rng.randint(0, 10 ** 6)
    h = {'ver': rng.choice(['44', '50']), 'logon_seq': q,
         'logon': {'cls': 'Login', 'user': rng.choice(['user', None, 'u2']),
                   'hdr': {'SenderCompID': 'CLIENT', 'TargetCompID': 'SERVER', 'MsgSeqNum': q}},
         'pre': [], 'ops': []}
    if rng.random() < 0.5:
        h['logon']['hdr']['SenderSubID'] = 'SUB'
    if rng.random() < 0.05:
        h['logon']['user'] = 'café'            # the logon itself cannot be encoded
    elif rng.random() < 0.03:
        h['logon']['hdr']['TargetSubID'] = 'café'      # … because of an application-set header field
    if rng.random() < 0.25:
        h['pre'] = [gen_fix_msg(rng) for _ in range(rng.randint(1, 2))]
    resend = None
    for _ in range(n):
        c = rng.random()
        if c < 0.52:
            m = gen_fix_msg(rng)
            h['ops'].append(['send', m])
            resend = m
        elif c < 0.58 and resend is not None:
            h['ops'].append(['send', resend])
        elif c < 0.72:
            h['ops'].append(['hb'])
        elif c < 0.94:
            h['ops'].append(['advance', rng.choice([1, 1, 2, 3, 5])])
        else:
            h['ops'].append(['close'])
    return h


def run_fix_history(h):
    """returns dict(events=[...]) where an event is
         ('op', index|'pre i'|'logon', outcome, counter_after, valid, encodable)   for explicit sends / heartbeats
         ('auto', outcome, counter_after)                                         for frames the monitor wrote
       outcome = 'w <tag34>' | 'rej' | 'type' | 'enc' | other error name"""
    env = fixenv()
    fix = env['fix']
    loop = GuardedLoop()
    out = {'events': [], 'frames': []}

    def outcome(err, new):
        if new:
            return 'w ' + str(tag34(new[0]))
        return {'value': 'rej', 'type': 'type', 'unicode': 'enc', 'none': 'nothing'}.get(err, err)

    async def main():
        tr = vloop.FakeTransport(loop)
        cls = fix.Fix44Session if h['ver'] == '44' else fix.Fix50Session
        session = cls(client_heartbeat_interval=HB, server_heartbeat_interval=1.0)
        session.connection_made(tr)

        def do_send(label, spec, comp_ascii=True, via_hb=False):
            before = len(tr.writes)
            err = 'none'
            try:
                msg, valid, segs = fix_build_segments(spec, comp_ascii)
                enc = all(segs)
            except Exception as e:  # noqa
                out['events'].append(('op', label, 'build:' + err_name(e), peek_counter(session), True, True, 'send', (True, True, True)))
                return
            try:
                session.send_msg(msg)
            except Exception as e:  # noqa
                err = err_name(e)
            new = [w for _, w in tr.writes[before:]]
            out['events'].append(('op', label, outcome(err, new), peek_counter(session), valid, enc, 'send', segs))

        for i, spec in enumerate(h['pre']):
            do_send(f'pre {i}', spec)
        # ---- login (the statement's "logon"): the reply is fed once the request is out
        before = len(tr.writes)
        lmsg, lvalid, lsegs = fix_build_segments(h['logon'])
        lenc = all(lsegs)
        task = asyncio.ensure_future(session.login(lmsg))
        await vloop.turns(2)
        new = [w for _, w in tr.writes[before:]]
        lerr = 'none'
        if task.done():
            try:
                task.result()
            except Exception as e:  # noqa
                lerr = err_name(e)
        else:
            session.data_received(logon_reply_frame(b'FIX.4.4' if h['ver'] == '44' else b'FIXT.1.1'))
            try:
                await asyncio.wait_for(task, HB / 4)
            except Exception as e:  # noqa
                lerr = 'login:' + err_name(e)
        out['events'].append(('op', 'logon', outcome(lerr, new), peek_counter(session), lvalid, lenc, 'login', lsegs))
        out['login_error'] = lerr
        for i, op in enumerate(h['ops']):
            before = len(tr.writes)
            if op[0] == 'send':
                do_send(i, op[1])
            elif op[0] == 'hb':
                err = 'none'
                try:
                    await session.send_heartbeat()
                except Exception as e:  # noqa
                    err = err_name(e)
                new = [w for _, w in tr.writes[before:]]
                out['events'].append(('op', i, outcome(err, new), peek_counter(session), True, True, 'hb', (True, True, True)))
            elif op[0] == 'advance':
                await asyncio.sleep(op[1] * HB / 2)
                for w in [w for _, w in tr.writes[before:]]:
                    out['events'].append(('auto', 'w ' + str(tag34(w)), None, msgtype(w) == b'0'))
                if out['events'] and out['events'][-1][0] == 'auto':
                    e = out['events'][-1]
                    out['events'][-1] = (e[0], e[1], peek_counter(session), e[3])
            elif op[0] == 'close':
                try:
                    await session.close()
                except Exception:  # noqa
                    pass
        out['frames'] = [w for _, w in tr.writes]
        try:
            await session.close()
        except BaseException:  # noqa
            pass

    out['escaped'] = run_guarded(loop, main())
    return out


def fix_oracle(h, out):
    """the statement on the implementation alone -> (description, involves_encode_failure) or None"""
    q = h['logon_seq']
    counter = None
    k = 0                 # frames written since (and including) the logon
    started = False
    enc_failed = False
    for ev in out['events']:
        if ev[0] == 'op':
            _, label, outc, cnt, valid, enc, kind = ev[:7]
            if kind == 'login':
                started = True
                counter = q
            if not valid:
                # "a send rejected by validation writes nothing and consumes no number"
                if outc.startswith('w '):
                    return (f'send {label}: the body misses a required field but a frame was written ({outc})', False)
                if started and cnt != counter:
                    return (f'send {label}: rejected by validation but the counter moved {counter} -> {cnt}', False)
                continue
            if not started:
                if outc.startswith('w '):
                    return (f'send {label} before the logon wrote a frame', False)
                continue
            if outc.startswith('w '):
                exp = q + k
                if outc != f'w {exp}':
                    return (f'send {label}: frame number {k} after the logon carries MsgSeqNum {outc[2:]}, expected '
                            f'{q} + {k} = {exp}', enc_failed)
                k += 1
            else:
                enc_failed = True            # valid, nothing written: an exception after validation
            counter = cnt
        else:
            _, outc, cnt, _is_hb = ev
            exp = q + k
            if outc != f'w {exp}':
                return (f'automatic heartbeat: frame number {k} after the logon carries MsgSeqNum {outc[2:]}, expected {exp}',
                        enc_failed)
            k += 1
            if cnt is not None:
                counter = cnt
    return None


def fix_compare(h, out, ans):
    p = common.parse_sx(ans)
    if p[0] != 'ok':
        return f'model answered {ans[:80]}'
    mtrace, mframes = p[1], p[2]
    if len(mtrace) != len(out['events']):
        return 'trace lengths differ'
    for ev, m in zip(out['events'], mtrace):
        mout = ' '.join(m[:-1])
        mnext = m[-1]
        if ev[0] == 'op':
            _, label, outc, cnt, valid, enc, kind = ev[:7]
        else:
            _, outc, cnt, _hb = ev
            label = 'auto-heartbeat'
        if outc != mout:
            return f'{label}: model outcome "{mout}", implementation "{outc}"'
        if cnt is not None:
            cn = 'none' if isinstance(cnt, tuple) and cnt[0] == 'int' else str(cnt)
            if cn != mnext:
                return f'{label}: model counter {mnext}, implementation {cn}'
    got = [str(tag34(f)) for f in out['frames']]
    if got != mframes:
        return f'tag 34 of the frames written: model {mframes[:12]}, implementation {got[:12]}'
    return None


def shrink_fix(h, failing):
    h = json.loads(json.dumps(h))
    for key in ('pre', 'ops'):
        i = 0
        while i < len(h[key]):
            cand = json.loads(json.dumps(h))
            del cand[key][i]
            try:
                bad = failing(cand)
            except Exception:  # noqa
                bad = False
            if bad:
                h = cand
            else:
                i += 1
    return h


def spec_unencodable(spec):
    texts = [spec.get('user'), spec.get('f2')] + [g[1] for g in (spec.get('group') or [])] + [g[1] for g in (spec.get('hops') or [])]
    texts += list((spec.get('hdr') or {}).values()) + list((spec.get('trl') or {}).values())
    return any(isinstance(t, str) and not t.isascii() for t in texts)


def strip_unencodable(h):
    h = json.loads(json.dumps(h))
    h['pre'] = [m for m in h['pre'] if not spec_unencodable(m)]
    h['ops'] = [op for op in h['ops'] if not (op[0] == 'send' and spec_unencodable(op[1]))]
    if spec_unencodable(h['logon']):
        h['logon']['user'] = 'user'
        h['logon']['hdr'] = {k: v for k, v in h['logon']['hdr'].items() if not (isinstance(v, str) and not v.isascii())}
    return h


def check_fix_history(ctx, h, ans_for=None):
    try:
        out = run_fix_history(h)
    except Exception as e:  # noqa
        report(ctx, f'FIX history could not be driven: {err_name(e)}: {e}', {'kind': 'fix-history', 'history': h})
        return None
    if out.get('escaped'):
        ctx.count('history-did-not-complete:' + out['escaped'])
        ctx.disagree(f'FIX: the history did not run to its end on the implementation ({out["escaped"]})',
                     {'kind': 'fix-history', 'history': h})
    bad = fix_oracle(h, out)
    if bad and len(ctx.violations) >= 3 and not bad[1]:
        report(ctx, 'FIX: ' + bad[0], {'kind': 'fix-history', 'history': h})                          # not shrunk
    elif bad:
        def failing(c):
            return fix_oracle(c, run_fix_history(c)) is not None
        m = shrink_fix(h, failing)
        bad2 = fix_oracle(m, run_fix_history(m)) or bad
        kind = 'fix-encode-failure-gap' if bad2[1] else 'fix-history'
        report(ctx, 'FIX: ' + bad2[0], {'kind': kind, 'history': m})
        if bad2[1] or bad[1]:
            # the known gap must not hide anything else: same history without the sends that cannot be serialised
            h2 = strip_unencodable(h)
            bad3 = fix_oracle(h2, run_fix_history(h2))
            if bad3:
                m3 = shrink_fix(h2, failing)
                bad4 = fix_oracle(m3, run_fix_history(m3)) or bad3
                report(ctx, 'FIX: ' + bad4[0], {'kind': 'fix-encode-failure-gap' if bad4[1] else 'fix-history', 'history': m3})
    if ans_for is not None:
        ops = []
        for ev in out['events']:
            if ev[0] == 'op':
                kind, valid, enc = ev[6], ev[4], ev[5]
                ops.append(['login', h['logon_seq'], valid, enc] if kind == 'login' else [kind, valid, enc])
            else:
                ops.append(['hb', True, True])
        ans = ans_for(f'seq.fix {VARIANT[0]} {sx(ops)}')
        d = fix_compare(h, out, ans)
        if d:
            ctx.disagree('FIX: ' + d, {'kind': 'fix-history', 'history': h})
        # the same history with every message given segment by segment (Model/SeqSeg.lean: header / body / trailer serialisable)
        sops = []
        for ev in out['events']:
            if ev[0] == 'op':
                kind, valid, segs = ev[6], ev[4], ev[7]
                sops.append((['login', h['logon_seq']] if kind == 'login' else [kind]) + [valid] + [bool(x) for x in segs])
                for name, okay in zip(('header', 'body', 'trailer'), segs):
                    if not okay:
                        ctx.count(f'fix-unencodable-{name}' + ('' if valid else '(+rejected)'))
            else:
                sops.append(['hb', True, True, True, True])
        d = fix_compare(h, out, ans_for(f'seq.fixseg {sx(sops)}'))
        if d:
            ctx.disagree('FIX (segment-wise model): ' + d, {'kind': 'fix-history', 'history': h})
    return out


VARIANT = ['repaired']       # the model variant the code is compared with (pinned: the fix 9c458df is in /repo)


def probe_variant(ctx):
    """replay the Lean witness history on the implementation: tag 34 = 5, 7 -> unchanged code; 5, 6 -> repaired code"""
    try:
        out = run_fix_history(witness_history())
        tags = [tag34(f) for f in out['frames']]
    except Exception as e:  # noqa
        tags = 'error ' + err_name(e)
    # The model is PINNED to the repaired send_msg (/repo 9c458df): a tree that behaves like the old code is not followed,
    # it disagrees with the model (and the oracle reports the gap).  The probe result is only recorded.
    VARIANT[0] = 'repaired'
    ctx.notes.append(f'FIX send_msg model: repaired semantics (C10_fix_kth_repaired, full statement); the witness history of the '
                     f'former defect wrote tag 34 = {tags} on this tree')
    ctx.count('fix-witness-tags:' + str(tags))


def witness_history():
    """the history of Witness/C10.lean ((login 5 ok) (send valid, not encodable) (send ok)) as a harness history"""
    return {'ver': '44', 'logon_seq': 5,
            'logon': {'cls': 'Login', 'user': 'user', 'hdr': {'SenderCompID': 'CLIENT', 'TargetCompID': 'SERVER', 'MsgSeqNum': 5}},
            'pre': [], 'ops': [['send', {'cls': 'Login', 'user': 'café'}], ['send', {'cls': 'Login', 'user': 'user'}]]}


def segment_witness_histories():
    """the histories of Witness/C10Seg.lean (`witnessHeaderGap`, `witnessTrailerGap`) as harness histories"""
    logon = {'cls': 'Login', 'user': 'user', 'hdr': {'SenderCompID': 'CLIENT', 'TargetCompID': 'SERVER', 'MsgSeqNum': 5}}
    good = {'cls': 'Wide', 'f1': 1, 'f2': 'ok'}
    return [{'ver': '44', 'logon_seq': 5, 'logon': logon, 'pre': [],
             'ops': [['send', {'cls': 'Wide', 'f1': 1, 'f2': 'ok', 'hdr': {'C10OnBehalfOfCompID': 'café'}}], ['send', good]]},
            {'ver': '44', 'logon_seq': 5, 'logon': logon, 'pre': [],
             'ops': [['send', {'cls': 'Wide', 'f1': 1, 'f2': 'ok', 'trl': {'C10SignatureText': 'café'}}], ['send', good]]}]


# =====================================================================================================================
# run / replay
# =====================================================================================================================
class Asker:
    """collects model requests; answers them in one batch"""

    def __init__(self, driver):
        self.driver = driver
        self.ok = driver is not None and driver.available

    def ask(self, line):
        return self.driver.ask([line])[0]


def load_corpus():
    cdir = os.path.join(common.VERIF, 'corpus', 'C10')
    out = []
    if os.path.isdir(cdir):
        for f in sorted(os.listdir(cdir)):
            if f.endswith('.json'):
                out.append(json.load(open(os.path.join(cdir, f))))
    return out


def run_case(ctx, case, asker):
    ans_for = asker.ask if asker.ok else None
    if case['kind'] in ('soup-history',):
        h = h_unjson(case['history'])
        ctx.case(json.dumps(case, default=repr)[:300], nontrivial=len(h['ops']) > 0 or h.get('login') is not None,
                 sample_every=53)
        ctx.count('soup-' + h['role'] + ('-login' if h.get('login') else ''))
        out = check_soup_history(ctx, h, ans_for)
        if out:
            for err, _seq, _k in out['trace']:
                if err != 'none':
                    ctx.count('soup-send-raises:' + err)
            ctx.count('soup-writes', len(out['writes']))
            ctx.count('soup-automatic-writes(heartbeats, login replies)',
                      sum(max(0, k - (0 if op[0] in ('advance', 'feed_login') else 1))
                          for op, (_e, _s, k) in zip(h['ops'], out['trace'])))
            ctx.count('soup-sequenced-writes', count_s(out['writes']))
            if out['login'] is not None:
                ctx.count('soup-login:' + ('accepted' if out['login'][1] else 'not-accepted'))
        return out
    if case['kind'] in ('fix-history', 'fix-encode-failure-gap'):
        h = case['history']
        ctx.case(json.dumps(case)[:300], nontrivial=True, sample_every=53)
        ctx.count('fix-history')
        out = check_fix_history(ctx, h, ans_for)
        if out:
            for ev in out['events']:
                ctx.count('fix-' + (ev[2].split()[0] if ev[0] == 'op' else 'auto-hb'))
        return out
    raise ValueError(case['kind'])


def run(ctx):
    rng = ctx.rng
    quick = ctx.tier == 'quick'
    n_srv, n_cli, n_fix = (160, 160, 220) if quick else (2500, 2500, 3500)
    ctx.cov['rule'] = ('histories on real sessions over a fake transport in virtual time: soup server / soup client (login reply '
                       'frames with the sequence field in left-, right-, zero-, NUL-padded and odd spellings, then sends) / FIX '
                       '(sends before the logon, logon with arbitrary MsgSeqNum, valid / validation-rejected / unencodable sends — the text that '
                       'cannot be serialised in the body, a body group instance, an application-set header field, a header group instance '
                       'or the trailer —, '
                       'explicit and timer-driven heartbeats, close); a case is one history, distinct = distinct history')
    asker = Asker(ctx.driver)
    probe_variant(ctx)
    # ---- corpus and the Lean witness first
    for case in load_corpus():
        run_case(ctx, case, asker)
    wit = witness_history()
    if asker.ok:
        w = asker.ask('witness C10')
        exp = '((login 5 true true) (send true false) (send true true))'
        if w != exp:
            ctx.disagree(f'witness history printed by the driver changed: {w}', {'kind': 'fix-history', 'history': wit})
    run_case(ctx, {'kind': 'fix-history', 'history': wit}, asker)
    if asker.ok:
        w = asker.ask('witness C10Seg')
        exp = ('((login 5 true true true true) (send true false true true) (send true true true true)) '
               '((login 5 true true true true) (send true true true false) (send true true true true))')
        if w != exp:
            ctx.disagree(f'segment witness histories printed by the driver changed: {w}', {'kind': 'fix-history', 'history': wit})
    for wh in segment_witness_histories():      # Witness/C10Seg.lean: header / trailer is the part that cannot be serialised
        out = run_case(ctx, {'kind': 'fix-history', 'history': wh}, asker)
        if out is not None:
            ctx.count('fix-segment-witness-tags:' + str([tag34(f) for f in out['frames']]))
    # ---- generated histories
    for i in range(n_srv):
        big = (i % 25 == 0)
        h = {'role': 'server', 'init': gen_init(rng), 'connected': rng.random() > 0.04,
             'ops': gen_soup_ops(rng, 'server', rng.randint(3, 22), big)}
        run_case(ctx, {'kind': 'soup-history', 'history': h_json(h)}, asker)
    for i in range(n_cli):
        lg = gen_login(rng)
        h = {'role': 'client', 'init': gen_init(rng), 'connected': True, 'login': lg,
             'ops': gen_soup_ops(rng, 'client', rng.randint(0, 14), False)}
        if rng.random() < 0.1:
            h['login'] = None
            h['connected'] = rng.random() > 0.2
        run_case(ctx, {'kind': 'soup-history', 'history': h_json(h)}, asker)
    for i in range(n_fix):
        h = gen_fix_history(rng, rng.randint(2, 18))
        run_case(ctx, {'kind': 'fix-history', 'history': h}, asker)


def replay(ctx, path):
    r = json.load(open(path))
    rep = r.get('replay') or (r.get('no_longer_checks') or [{}])[-1].get('case') or r
    ctx.cov['rule'] = 'replay of ' + path
    asker = Asker(ctx.driver)
    probe_variant(ctx)
    out = run_case(ctx, rep, asker)
    ctx.case('replay-marker')
    if out is None:
        return
    if rep['kind'] == 'soup-history':
        print('implementation: per operation (exception, session.sequence, model ops):', out['trace'])
        print('implementation: login:', out['login'], ' writes:', [w[:12].hex() for w in out['writes']])
    else:
        print('implementation events:', out['events'])
        print('implementation tag 34 of frames:', [tag34(f) for f in out['frames']])
